//go:build verif

// Package c14 decides C14: text shown with any font reads back with the same
// codes, widths and text.
//
// Every case is one single-page document: a list of font instances, a list of
// "slots" (a font and a string, or a fill-up sequence) and a list of steps
// (Layout of a slot, Encode-and-show of a slot). The document is written with
// the library's builder, closed, reopened, and every PDF string of the content
// stream is decoded with the font extracted from the file. The reference is
// the list of (glyph id, text) pairs handed to the builder.
package c14

import (
	"bytes"
	"encoding/json"
	"fmt"
	"math"
	"runtime/debug"
	"sort"
	"strings"
	"sync"
	"time"

	"seehuhn.de/go/sfnt/glyph"

	"seehuhn.de/go/pdf"
	"seehuhn.de/go/pdf/document"
	"seehuhn.de/go/pdf/font"
	"seehuhn.de/go/pdf/font/charcode"
	"seehuhn.de/go/pdf/font/cmap"
	"seehuhn.de/go/pdf/font/dict"
	"seehuhn.de/go/pdf/font/encoding"
	"seehuhn.de/go/pdf/font/encoding/cidenc"
	"seehuhn.de/go/pdf/font/gofont"
	"seehuhn.de/go/pdf/font/standard"
	"seehuhn.de/go/pdf/font/truetype"
	"seehuhn.de/go/pdf/graphics/extract"
	"seehuhn.de/go/pdf/internal/fonttypes"
	"seehuhn.de/go/pdf/page"
	"seehuhn.de/go/pdf/pagetree"
	"seehuhn.de/go/pdf/reader"
	"seehuhn.de/go/pdf/zzverif/engine/ev"
)

const ptSize = 10.0

// widthTol is the precision of the width arrays: widths are stored in
// 1/1000 em, so a width read back may differ from the font's own advance
// width by half a unit.
const widthTol = 0.0005 + 1e-9

// ---------------------------------------------------------------------------
// cases

// Fill describes a fill-up sequence: the first N entries of the font's pool of
// (glyph, text) pairs in the given order.
type Fill struct {
	Order string `json:"order"` // asc | desc | rot
	N     int    `json:"n"`
}

// Slot is one piece of text shown with one font instance.
type Slot struct {
	Font   int      `json:"font"`             // index into Case.Fonts
	Text   string   `json:"text"`             // laid out with Layout
	Retext []string `json:"retext,omitempty"` // per glyph: replacement text ("" = keep)
	Fill   *Fill    `json:"fill,omitempty"`   // instead of Text
	Dress  *Dress   `json:"dress,omitempty"`  // per-glyph rise and advance adjustments (dressed.go)
	Untext []bool   `json:"untext,omitempty"` // per glyph: true = the glyph is shown without a text, Text "" (names.go)
}

// Step is one call: "L" = Layout of the slot, "E" = Encode and show.
type Step struct {
	Op   string `json:"op"`
	Slot int    `json:"slot"`
}

// Case is a replayable case.
type Case struct {
	Space   string   `json:"space"`
	Version string   `json:"version"`
	Fonts   []string `json:"fonts"`
	Slots   []Slot   `json:"slots"`
	Steps   []Step   `json:"steps"`
	Namings []Naming `json:"namings,omitempty"` // caller-chosen resource names (names.go)
}

func (c *Case) size() int {
	n := 10*len(c.Fonts) + 5*len(c.Steps)
	for _, f := range c.Fonts {
		if !strings.HasPrefix(f, "kind:") {
			n++ // prefer the fonttypes kinds as witnesses
		}
	}
	if c.Version != "1.7" {
		n++
	}
	n += namingsSize(c.Namings)
	for _, s := range c.Slots {
		for _, u := range s.Untext {
			if u {
				n++
			}
		}
		n += 3 * len([]rune(s.Text))
		for _, t := range s.Retext {
			if t != "" {
				n += 2
			}
		}
		if s.Fill != nil {
			n += 20 + s.Fill.N
		}
		n += s.Dress.size()
	}
	return n
}

// ---------------------------------------------------------------------------
// fonts

var goNames = map[string]gofont.Font{
	"Regular": gofont.Regular, "Bold": gofont.Bold, "BoldItalic": gofont.BoldItalic, "Italic": gofont.Italic,
	"Medium": gofont.Medium, "MediumItalic": gofont.MediumItalic, "Smallcaps": gofont.Smallcaps,
	"SmallcapsItalic": gofont.SmallcapsItalic, "Mono": gofont.Mono, "MonoBold": gofont.MonoBold,
	"MonoBoldItalic": gofont.MonoBoldItalic, "MonoItalic": gofont.MonoItalic,
}

var goOrder = []string{"Regular", "Bold", "BoldItalic", "Italic", "Medium", "MediumItalic", "Smallcaps",
	"SmallcapsItalic", "Mono", "MonoBold", "MonoBoldItalic", "MonoItalic"}

var kinds = map[string]*fonttypes.Sample{}

func init() {
	for _, s := range fonttypes.All {
		kinds[s.Label] = s
	}
}

// makeFont builds a fresh font instance from its label.
func makeFont(label string) (F font.Layouter, err error) {
	defer func() {
		if r := recover(); r != nil {
			F, err = nil, fmt.Errorf("constructor panicked: %v", r)
		}
	}()
	class, name, _ := strings.Cut(label, ":")
	switch class {
	case "kind":
		s := kinds[name]
		if s == nil {
			return nil, fmt.Errorf("unknown font kind %q", name)
		}
		return s.MakeFont(), nil
	case "std":
		return standard.Font(name).New()
	case "go-simple":
		g, ok := goNames[name]
		if !ok {
			return nil, fmt.Errorf("unknown Go font %q", name)
		}
		return g.NewSimple(nil)
	case "go-composite", "go-composite-utf8", "go-composite-gidcid", "go-composite-utf8-gidcid":
		g, ok := goNames[name]
		if !ok {
			return nil, fmt.Errorf("unknown Go font %q", name)
		}
		var opt *truetype.OptionsComposite
		if class != "go-composite" {
			opt = &truetype.OptionsComposite{}
			if strings.Contains(class, "utf8") {
				opt.MakeEncoder = cidenc.NewCompositeUtf8
			}
			if strings.Contains(class, "gidcid") {
				opt.MakeGIDToCID = cmap.NewGIDToCIDIdentity
			}
		}
		return g.NewComposite(opt)
	}
	return nil, fmt.Errorf("unknown font class %q", class)
}

// fontClass is the part of a font label that goes into fingerprints: the
// fonttypes kind that uses the same embedder.
func fontClass(label string) string {
	class, name, _ := strings.Cut(label, ":")
	switch {
	case class == "kind":
		return name
	case class == "go-simple":
		return "TrueTypeSimple"
	case strings.HasPrefix(class, "go-composite"):
		return "TrueTypeComposite"
	case class == "std":
		return "Standard"
	}
	return class
}

// encoderOf names the code allocator behind a font label.
func encoderOf(label string) string {
	class, _, _ := strings.Cut(label, ":")
	switch {
	case !isComposite(label):
		return "simpleenc"
	case strings.Contains(class, "utf8"):
		return "cidenc-utf8"
	}
	return "cidenc-fixed-cmap"
}

func isComposite(label string) bool {
	class, name, _ := strings.Cut(label, ":")
	if class == "kind" {
		return kinds[name] != nil && kinds[name].Composite
	}
	return strings.HasPrefix(class, "go-composite")
}

// ---------------------------------------------------------------------------
// fill-up pools

type pair struct {
	gid  glyph.ID
	text string
}

func fillRunes() []rune {
	var rr []rune
	add := func(lo, hi rune) {
		for r := lo; r <= hi; r++ {
			rr = append(rr, r)
		}
	}
	add(0x20, 0x7e)
	add(0xa0, 0x17f)
	add(0x391, 0x3a1)
	add(0x3a3, 0x3c9)
	add(0x410, 0x44f)
	add(0x2013, 0x2014)
	add(0x2018, 0x201e)
	add(0x2020, 0x2022)
	rr = append(rr, 0x2026, 0x2030, 0x2039, 0x203a, 0x20ac, 0x2122, 0xfb01, 0xfb02)
	return rr
}

// fillPool returns at least 300 distinct (glyph, text) pairs of the font:
// first every glyph the font has for a fixed list of characters, with the text
// the layouter gives it, then the same glyphs again under made-up texts.
func fillPool(F font.Layouter) []pair {
	var pool []pair
	seen := map[pair]bool{}
	for _, r := range fillRunes() {
		seq := F.Layout(nil, ptSize, string(r))
		for _, g := range seq.Seq {
			p := pair{g.GID, g.Text}
			if g.GID == 0 || g.Text == "" || seen[p] {
				continue
			}
			seen[p] = true
			pool = append(pool, p)
		}
	}
	base := len(pool)
	for k := 0; len(pool) < 300 && base > 0; k++ {
		p := pair{pool[k%base].gid, fmt.Sprintf("Z%d", k)}
		if !seen[p] {
			seen[p] = true
			pool = append(pool, p)
		}
	}
	return pool
}

func fillSeq(F font.Layouter, f *Fill) *font.GlyphSeq {
	pool := fillPool(F)
	n := len(pool)
	ord := make([]pair, 0, n)
	switch f.Order {
	case "desc":
		for i := n - 1; i >= 0; i-- {
			ord = append(ord, pool[i])
		}
	case "rot":
		ord = append(ord, pool[n/2:]...)
		ord = append(ord, pool[:n/2]...)
	default:
		ord = pool
	}
	if f.N < len(ord) {
		ord = ord[:f.N]
	}
	ww := F.GetGeometry().Widths
	seq := &font.GlyphSeq{}
	for _, p := range ord {
		w := 0.0
		if int(p.gid) < len(ww) {
			w = ww[p.gid]
		}
		seq.Seq = append(seq.Seq, font.Glyph{GID: p.gid, Advance: w * ptSize, Text: p.text})
	}
	return seq
}

// ---------------------------------------------------------------------------
// execution

type failure struct {
	fp, what string
}

type shown struct {
	gid  glyph.ID
	text string
	code charcode.Code
}

// group is what the reader saw between one BT and the next.
type group struct {
	fontName pdf.Name
	strs     []pdf.String
	chars    []font.Code
	ops      []showOp // the show operators of the text object, in order (dressed.go)
	pattern  []string // the Ts / Tj / TJ operators of the text object, in order
}

type result struct {
	outcome       string
	fail          *failure
	kerned        bool // some TJ adjustment was written
	unusedFontErr bool // a font that showed no glyph could not be extracted
	nShown        int
	pattern       string // operator pattern of the text objects (Ts / Tj / TJ with the shape of the array)
}

func parseVersion(s string) (pdf.Version, error) {
	return pdf.ParseVersion(s)
}

func rejected(err error) string {
	switch {
	case pdf.IsWrongVersion(err):
		return "rejected:version"
	case strings.Contains(err.Error(), "too many glyphs"):
		return "rejected:more-than-256-codes"
	}
	return ""
}

func short(s string) string {
	if len(s) > 300 {
		return s[:300] + "…"
	}
	return s
}

// execute runs one case and judges it.
func execute(c *Case) (res result) {
	defer func() {
		if r := recover(); r != nil {
			res = result{outcome: "fail:panic", fail: &failure{"panic", short(fmt.Sprintf("panic: %v", r))}}
		}
	}()

	v, err := parseVersion(c.Version)
	if err != nil {
		return result{outcome: "bad-case", fail: &failure{"bad-case", err.Error()}}
	}

	fonts := make([]font.Layouter, len(c.Fonts))
	for i, l := range c.Fonts {
		F, err := makeFont(l)
		if err != nil {
			return result{outcome: "bad-case", fail: &failure{"font-constructor:" + fontClass(l), err.Error()}}
		}
		fonts[i] = F
	}

	buf := &bytes.Buffer{}
	doc, err := document.WriteSinglePage(buf, document.A5r, v, nil)
	if err != nil {
		if rj := rejected(err); rj != "" {
			return result{outcome: rj}
		}
		return result{outcome: "fail:create", fail: &failure{"create-error", err.Error()}}
	}

	seqs := make([]*font.GlyphSeq, len(c.Slots))
	var showOrder []int           // slot index per BT group
	exp := map[int][]shown{}      // slot -> glyphs shown
	resName := map[int]pdf.Name{} // font index -> resource name
	perFont := map[int][]shown{}  // font index -> all glyphs shown with it
	y := 400.0
	for k, st := range c.Steps {
		if rj, bad := applyNamings(c, k, doc, fonts); bad != nil {
			return result{outcome: "bad-case", fail: &failure{"bad-case", bad.Error()}}
		} else if rj != "" {
			return result{outcome: rj}
		}
		if st.Slot < 0 || st.Slot >= len(c.Slots) {
			return result{outcome: "bad-case", fail: &failure{"bad-case", "slot out of range"}}
		}
		sl := &c.Slots[st.Slot]
		if sl.Font < 0 || sl.Font >= len(fonts) {
			return result{outcome: "bad-case", fail: &failure{"bad-case", "font out of range"}}
		}
		F := fonts[sl.Font]
		switch st.Op {
		case "L":
			var seq *font.GlyphSeq
			if sl.Fill != nil {
				seq = fillSeq(F, sl.Fill)
			} else {
				seq = F.Layout(nil, ptSize, sl.Text)
				for i, t := range sl.Retext {
					if t != "" && i < len(seq.Seq) {
						seq.Seq[i].Text = t
					}
				}
				applyUntext(seq, sl.Untext)
			}
			sl.Dress.apply(seq)
			seqs[st.Slot] = seq
		case "E":
			seq := seqs[st.Slot]
			if seq == nil {
				return result{outcome: "bad-case", fail: &failure{"bad-case", "E before L"}}
			}
			if _, dup := exp[st.Slot]; dup {
				return result{outcome: "bad-case", fail: &failure{"bad-case", "slot shown twice"}}
			}
			doc.TextBegin()
			doc.TextSetFont(F, ptSize)
			doc.TextFirstLine(20, y)
			y -= 15
			doc.TextShowGlyphs(seq)
			doc.TextEnd()
			if doc.Err != nil {
				if len(c.Namings) > 0 && strings.Contains(doc.Err.Error(), "already in use") {
					// the font's own Name is bound to another font: the builder refuses
					return result{outcome: "rejected:font-name:own"}
				}
				return result{outcome: "fail:builder", fail: &failure{"builder-error:" + fontClass(c.Fonts[sl.Font]), doc.Err.Error()}}
			}
			resName[sl.Font] = doc.FontName(F)
			// The builder skips a glyph when Encode refuses it. Encode is
			// idempotent for allocated pairs and keeps refusing once the
			// font is full, so asking again tells which glyphs were shown.
			list := []shown{}
			for _, g := range seq.Seq {
				code, ok := F.Encode(g.GID, g.Text)
				if ok {
					list = append(list, shown{g.GID, g.Text, code})
				}
			}
			exp[st.Slot] = list
			perFont[sl.Font] = append(perFont[sl.Font], list...)
			showOrder = append(showOrder, st.Slot)
			res.nShown += len(list)
		default:
			return result{outcome: "bad-case", fail: &failure{"bad-case", "unknown step"}}
		}
	}

	err = doc.Close()
	if err != nil {
		if rj := rejected(err); rj != "" {
			return result{outcome: rj}
		}
		return result{outcome: "fail:close", fail: &failure{"close-error:" + fontClass(c.Fonts[0]), short(err.Error())}}
	}

	// injectivity on the writer side: distinct (glyph, text) never share a code
	for fi := range fonts {
		list := perFont[fi]
		byCode := map[charcode.Code]shown{}
		for _, s := range list {
			if o, ok := byCode[s.code]; ok && (o.gid != s.gid || o.text != s.text) {
				how := "two-glyphs"
				if o.gid == s.gid {
					how = "one-glyph-two-texts"
				}
				return result{outcome: "fail:code-shared", fail: &failure{
					"code-shared:" + encoderOf(c.Fonts[fi]) + ":" + how,
					fmt.Sprintf("font %s: Encode returns code %#x for (gid %d, %q) and for (gid %d, %q)", c.Fonts[fi], s.code, o.gid, o.text, s.gid, s.text)}}
			}
			byCode[s.code] = s
		}
	}

	// ---- reopen
	data := buf.Bytes()
	r, err := pdf.NewReader(bytes.NewReader(data), int64(len(data)), nil)
	if err != nil {
		return result{outcome: "fail:reopen", fail: &failure{"reopen-error", short(err.Error())}}
	}
	defer r.Close()
	_, pageDict, err := pagetree.GetPage(r, 0)
	if err != nil {
		return result{outcome: "fail:reopen", fail: &failure{"reopen-error", "GetPage: " + short(err.Error())}}
	}
	x := pdf.NewExtractor(r)
	pg, err := pdf.Decode(pdf.CursorAt(x, nil), pageDict, page.Decode)
	if err != nil {
		return result{outcome: "fail:reopen", fail: &failure{"page-decode-error:" + fontClass(c.Fonts[0]), short(err.Error())}}
	}

	// the fonts, extracted one by one from the resource dictionary
	cur := pdf.NewCursor(r)
	resDict, _ := cur.Dict(pageDict["Resources"])
	fontRes, _ := cur.Dict(resDict["Font"])
	extracted := map[pdf.Name]font.Instance{}
	dicts := map[pdf.Name]dict.Dict{}
	classOf := map[pdf.Name]string{}
	usedRes := map[pdf.Name]bool{}
	for fi, n := range resName {
		classOf[n] = fontClass(c.Fonts[fi])
		if len(perFont[fi]) > 0 {
			usedRes[n] = true
		}
	}
	names := make([]string, 0, len(fontRes))
	for name := range fontRes {
		names = append(names, string(name))
	}
	sort.Strings(names)
	for _, n := range names {
		name := pdf.Name(n)
		obj := fontRes[name]
		d, err := extract.Dict(pdf.CursorAt(x, nil), obj, false)
		var inst font.Instance
		if err == nil {
			inst, err = extract.Font(pdf.CursorAt(x, nil), obj, false)
		}
		if err != nil {
			if !usedRes[name] {
				// A font that was selected but never showed a glyph: the
				// statement asks nothing of it.
				res.unusedFontErr = true
				continue
			}
			return result{outcome: "fail:extract", fail: &failure{"extract-error:" + classOf[name], fmt.Sprintf("font resource %s: %s", name, short(err.Error()))}}
		}
		dicts[name] = d
		extracted[name] = inst
	}

	// the content stream, as the library's reader walks it
	var groups []*group
	var g *group
	var curFont pdf.Name
	rd := reader.New(x)
	addStr := func(o pdf.Object) {
		if s, ok := o.(pdf.String); ok && g != nil {
			g.strs = append(g.strs, append(pdf.String{}, s...))
			g.fontName = curFont
		}
	}
	rd.EveryOp = func(op string, args []pdf.Object) error {
		switch op {
		case "BT":
			g = &group{}
			groups = append(groups, g)
		case "Tf":
			if len(args) > 0 {
				curFont, _ = args[0].(pdf.Name)
			}
		case "Ts":
			if g != nil {
				g.pattern = append(g.pattern, "Ts")
			}
		case "Tj", "'":
			if len(args) > 0 {
				addStr(args[0])
				g.noteShow(op, args[0])
			}
		case "\"":
			if len(args) > 2 {
				addStr(args[2])
			}
		case "TJ":
			if len(args) > 0 {
				g.noteShow(op, args[0])
				if a, ok := args[0].(pdf.Array); ok {
					for _, o := range a {
						if _, isStr := o.(pdf.String); isStr {
							addStr(o)
						} else {
							res.kerned = true
						}
					}
				}
			}
		}
		return nil
	}
	rd.Character = func(cd font.Code) error {
		if g != nil {
			g.chars = append(g.chars, cd)
		}
		return nil
	}
	if err := rd.ProcessPage(pg); err != nil {
		return result{outcome: "fail:content", fail: &failure{"content-read-error", short(err.Error())}}
	}
	res.pattern = patternOf(groups)
	if len(groups) != len(showOrder) {
		return result{outcome: "fail:groups", fail: &failure{"text-object-count", fmt.Sprintf("%d text objects written, %d read", len(showOrder), len(groups))}}
	}

	for k, slot := range showOrder {
		sl := &c.Slots[slot]
		label := c.Fonts[sl.Font]
		F := fonts[sl.Font]
		want := exp[slot]
		gr := groups[k]
		if f := judge(label, F, want, gr, resName[sl.Font], extracted, dicts); f != nil {
			f.what = fmt.Sprintf("font %s, PDF %s, text object %d: %s", label, c.Version, k, f.what)
			if cls := sharedNameClass(c, sl.Font, resName); cls != "" {
				// the oracle is the same; the class of the defect is narrower
				f.what = fmt.Sprintf("two fonts of the page are bound to the resource name %q (%s); %s", resName[sl.Font], cls, f.what)
				f.fp = "font-resource-name-shared:" + cls
			}
			res.outcome, res.fail = "fail:"+strings.SplitN(f.fp, ":", 2)[0], f
			return res
		}
	}
	res.outcome = "ok"
	return res
}

func catStrings(ss []pdf.String) []byte {
	var b []byte
	for _, s := range ss {
		b = append(b, s...)
	}
	return b
}

func codesOf(inst font.Instance, ss []pdf.String) []font.Code {
	var out []font.Code
	for _, s := range ss {
		for cd := range inst.Codes(s) {
			out = append(out, cd)
		}
	}
	return out
}

// splitCodes cuts the strings into character codes with the given codec.
func splitCodes(codec *charcode.Codec, ss []pdf.String) [][]byte {
	var out [][]byte
	for _, s := range ss {
		b := []byte(s)
		for len(b) > 0 {
			_, k, _ := codec.Decode(b)
			if k <= 0 {
				k = 1
			}
			if k > len(b) {
				k = len(b)
			}
			out = append(out, b[:k])
			b = b[k:]
		}
	}
	return out
}

// encState describes what the extracted font dictionary offers for one code.
func encState(d dict.Dict, code []byte) string {
	var enc encoding.Simple
	var tu *cmap.ToUnicodeFile
	sym := ""
	kind := "?"
	switch d := d.(type) {
	case *dict.TrueType:
		kind, enc, tu = "TrueType", d.Encoding, d.ToUnicode
		if d.Descriptor != nil && d.Descriptor.IsSymbolic {
			sym = "symbolic,"
		}
	case *dict.Type1:
		kind, enc, tu = "Type1", d.Encoding, d.ToUnicode
		if d.Descriptor != nil && d.Descriptor.IsSymbolic {
			sym = "symbolic,"
		}
	case *dict.Type3:
		kind, enc, tu = "Type3", d.Encoding, d.ToUnicode
	case *dict.CIDFontType0:
		kind, tu = "CIDFontType0", d.ToUnicode
	case *dict.CIDFontType2:
		kind, tu = "CIDFontType2", d.ToUnicode
	}
	s := kind + ":" + sym
	if enc != nil && len(code) == 1 {
		switch enc(code[0]) {
		case encoding.UseBuiltin:
			s += "encoding=builtin,"
		case "":
			s += "encoding=unused-code,"
		default:
			s += "encoding=named,"
		}
	}
	if tu == nil {
		s += "ToUnicode=omitted"
	} else if _, ok := tu.Lookup(code); !ok {
		s += "ToUnicode=omitted"
	} else {
		s += "ToUnicode=has-code"
	}
	return s
}

// noText marks the fingerprint of a glyph that was shown without a text.
func noText(text string) string {
	if text == "" {
		return ":glyph-without-text"
	}
	return ""
}

func textKind(got, want string) string {
	switch {
	case got == "":
		return "got-empty"
	case strings.HasPrefix(want, got) || strings.HasPrefix(got, want):
		return "got-prefix-or-extension"
	}
	return "got-other"
}

// judge is the oracle for one text object.
func judge(label string, F font.Layouter, want []shown, gr *group, wantRes pdf.Name,
	extracted map[pdf.Name]font.Instance, dicts map[pdf.Name]dict.Dict) *failure {
	cls := fontClass(label)
	if len(gr.strs) == 0 {
		if len(want) != 0 {
			return &failure{"count:" + cls, fmt.Sprintf("%d glyphs shown, no string in the content stream", len(want))}
		}
		return nil
	}
	if gr.fontName != wantRes {
		return &failure{"font-resource:" + cls, fmt.Sprintf("shown with font resource %q, read with %q", wantRes, gr.fontName)}
	}
	inst := extracted[gr.fontName]
	d := dicts[gr.fontName]
	if inst == nil {
		return &failure{"font-resource:" + cls, fmt.Sprintf("font resource %q is not in the page's resource dictionary", gr.fontName)}
	}

	// same codes: the bytes in the content stream are the codes Encode returned
	var wantBytes []byte
	wcodec := F.Codec()
	for _, s := range want {
		wantBytes = wcodec.AppendCode(wantBytes, s.code)
	}
	gotBytes := catStrings(gr.strs)
	if !bytes.Equal(wantBytes, gotBytes) {
		if how := earlierOperatorWrong(gr, wantBytes); how != "" {
			return &failure{"content-bytes:one-call-several-show-operators:" + how,
				fmt.Sprintf("codes returned by Encode give <%x>, the %d show operators written by the one TextShowGlyphs call carry %s", wantBytes, len(gr.ops), gr.describeOps())}
		}
		return &failure{"content-bytes:" + cls, fmt.Sprintf("codes returned by Encode give <%x>, the content stream has <%x>", wantBytes, gotBytes)}
	}

	rc := codesOf(inst, gr.strs)
	wc := codesOf(F, gr.strs)
	if len(rc) != len(want) {
		return &failure{"count:" + cls, fmt.Sprintf("%d glyphs shown, the extracted font decodes <%x> into %d codes", len(want), gotBytes, len(rc))}
	}
	if len(wc) != len(want) {
		return &failure{"writer-count:" + cls, fmt.Sprintf("%d glyphs shown, the writer-side font decodes <%x> into %d codes", len(want), gotBytes, len(wc))}
	}
	pieces := splitCodes(inst.Codec(), gr.strs)
	if len(pieces) != len(want) {
		return &failure{"codespace:" + cls, fmt.Sprintf("%d glyphs shown, the extracted font's codec cuts <%x> into %d codes", len(want), gotBytes, len(pieces))}
	}
	for i, s := range want {
		if wb := wcodec.AppendCode(nil, s.code); !bytes.Equal(wb, pieces[i]) {
			return &failure{"codespace:" + cls, fmt.Sprintf("glyph %d: code <%x> written, the extracted font's codec reads <%x>", i, wb, pieces[i])}
		}
	}

	ww := F.GetGeometry().Widths
	for i, s := range want {
		if int(s.gid) >= len(ww) {
			return &failure{"bad-case", fmt.Sprintf("gid %d outside the font geometry", s.gid)}
		}
		w := ww[s.gid]
		if math.Abs(rc[i].Width-w) > widthTol {
			return &failure{"width:" + cls + noText(s.text), fmt.Sprintf("glyph %d (gid %d, %q, code <%x>): advance width %.5f in the font, %.5f read back", i, s.gid, s.text, pieces[i], w, rc[i].Width)}
		}
		if math.Abs(wc[i].Width-w) > widthTol {
			return &failure{"writer-width:" + cls, fmt.Sprintf("glyph %d (gid %d, %q, code <%x>): advance width %.5f in the font, writer-side Codes gives %.5f", i, s.gid, s.text, pieces[i], w, wc[i].Width)}
		}
		if math.Abs(wc[i].Width-rc[i].Width) > widthTol {
			return &failure{"writer-reader-width:" + cls, fmt.Sprintf("glyph %d (gid %d, code <%x>): writer-side width %.5f, reader-side %.5f", i, s.gid, pieces[i], wc[i].Width, rc[i].Width)}
		}
	}
	for i, s := range want {
		if s.text == "" {
			// a glyph shown without a text: there is no text to read back,
			// and the statement does not say what a reader makes of it
			continue
		}
		if wc[i].Text != s.text {
			return &failure{"writer-text:" + cls + ":" + textKind(wc[i].Text, s.text), fmt.Sprintf("glyph %d (gid %d, code <%x>): text %q shown, writer-side Codes gives %q", i, s.gid, pieces[i], s.text, wc[i].Text)}
		}
		if rc[i].Text != s.text {
			return &failure{"text:" + cls + ":" + encState(d, pieces[i]) + ":" + textKind(rc[i].Text, s.text),
				fmt.Sprintf("glyph %d (gid %d, code <%x>): text %q shown, %q read back", i, s.gid, pieces[i], s.text, rc[i].Text)}
		}
		if wc[i].UseWordSpacing != rc[i].UseWordSpacing {
			return &failure{"writer-reader-wordspacing:" + cls, fmt.Sprintf("glyph %d (code <%x>): UseWordSpacing %v on the writer side, %v on the reader side", i, pieces[i], wc[i].UseWordSpacing, rc[i].UseWordSpacing)}
		}
	}

	// the reader's Character callback must report what Codes reports
	if len(gr.chars) != len(rc) {
		return &failure{"reader-callback:" + cls, fmt.Sprintf("Codes yields %d codes, the reader reported %d characters", len(rc), len(gr.chars))}
	}
	for i := range rc {
		a, b := gr.chars[i], rc[i]
		if a.Text != b.Text || a.Width != b.Width || a.CID != b.CID {
			return &failure{"reader-callback:" + cls, fmt.Sprintf("character %d: reader reported %+v, extract.Font gives %+v", i, a, b)}
		}
	}
	return nil
}

// ---------------------------------------------------------------------------
// enumeration

var repertoire = []string{"A", "B", " ", "\u00a0", "\ufb01", "\u00e4", "\u03a9", "\u0416", "\u2014"}

// stringsUpTo returns all strings of length <= n over the repertoire, shortest first.
func stringsUpTo(alpha []string, n int) []string {
	out := []string{""}
	prev := []string{""}
	for l := 1; l <= n; l++ {
		var next []string
		for _, p := range prev {
			for _, a := range alpha {
				next = append(next, p+a)
			}
		}
		out = append(out, next...)
		prev = next
	}
	return out
}

// interleavings of [L0 E0] and [L1 E1]
var interleavings = [][]Step{
	{{"L", 0}, {"E", 0}, {"L", 1}, {"E", 1}},
	{{"L", 0}, {"L", 1}, {"E", 0}, {"E", 1}},
	{{"L", 0}, {"L", 1}, {"E", 1}, {"E", 0}},
	{{"L", 1}, {"L", 0}, {"E", 0}, {"E", 1}},
	{{"L", 1}, {"L", 0}, {"E", 1}, {"E", 0}},
	{{"L", 1}, {"E", 1}, {"L", 0}, {"E", 0}},
}

type collector struct {
	r  *ev.Run
	mu sync.Mutex
	v  map[string]*viol

	pmu      sync.Mutex
	patterns map[string]int // dressed space: operator pattern -> documents
}

type viol struct {
	what  string
	c     Case
	size  int
	count int
}

func (cl *collector) one(c Case) {
	r := cl.r
	r.Eval(1)
	res := execute(&c)
	switch {
	case res.outcome == "ok":
		r.Outcome("ok:" + c.Space)
	case res.outcome == "rejected:version":
		r.Outcome("rejected:version:PDF-" + c.Version)
	default:
		r.Outcome(res.outcome)
	}
	if res.kerned {
		r.Outcome("note:kerning-adjustment-written")
	}
	if res.unusedFontErr {
		r.Outcome("note:font-without-any-glyph-shown-is-not-extractable")
	}
	if c.Space == "dressed" && res.pattern != "" {
		cl.notePattern(res.pattern)
	}
	if res.fail == nil {
		return
	}
	cl.mu.Lock()
	defer cl.mu.Unlock()
	v := cl.v[res.fail.fp]
	sz := c.size()
	if v == nil {
		cl.v[res.fail.fp] = &viol{res.fail.what, c, sz, 1}
		return
	}
	v.count++
	if sz < v.size || (sz == v.size && caseKey(&c) < caseKey(&v.c)) {
		v.what, v.c, v.size = res.fail.what, c, sz
	}
}

func caseKey(c *Case) string {
	b, _ := json.Marshal(c)
	return string(b)
}

// flush hands the collected violations (smallest witness per class) to ev.
func (cl *collector) flush() {
	keys := make([]string, 0, len(cl.v))
	for k := range cl.v {
		keys = append(keys, k)
	}
	sort.Strings(keys)
	for _, k := range keys {
		v := cl.v[k]
		if k == "bad-case" || strings.HasPrefix(k, "font-constructor:") {
			cl.r.Infra("harness: " + k + ": " + v.what)
			continue
		}
		for i := 0; i < v.count; i++ {
			cl.r.Violation(k, v.what, v.c)
		}
	}
}

func single(space, version, fontLabel, text string) Case {
	return Case{Space: space, Version: version, Fonts: []string{fontLabel},
		Slots: []Slot{{Font: 0, Text: text}}, Steps: []Step{{"L", 0}, {"E", 0}}}
}

func allFonts() (kindsL, goL, stdL, extraL []string) {
	for _, s := range fonttypes.All {
		kindsL = append(kindsL, "kind:"+s.Label)
	}
	for _, n := range goOrder {
		goL = append(goL, "go-simple:"+n)
	}
	for _, n := range goOrder {
		goL = append(goL, "go-composite:"+n)
	}
	for _, f := range standard.All {
		stdL = append(stdL, "std:"+string(f))
	}
	extraL = []string{"go-composite-utf8:Regular", "go-composite-gidcid:Regular", "go-composite-utf8-gidcid:Regular"}
	return
}

// Run is the check.
func Run(tier string) int {
	budget := 4 * time.Minute
	if tier == "thorough" {
		budget = 25 * time.Minute
	}
	debug.SetGCPercent(400)
	r := ev.New("C14", tier, "exploration", budget)
	cl := &collector{r: r, v: map[string]*viol{}}
	r.Rule("every case is one single-page document written with the library (fresh font instances, Layout, in the space dressed a per-glyph text rise and advance change and an initial skip put on the laid out sequence, in the space untext Text \"\" put on some glyphs, in the space names resource names bound by the caller before the fonts are used, builder.TextShowGlyphs -> Encode, ResourceManager, Close), reopened, and decoded with extract.Font and reader.Reader; distinct = distinct (space, version, fonts, slots, steps, namings) tuples in which at least one glyph is shown")
	r.Assume(
		"reference = the (glyph id, text) pairs handed to the builder for which Encode succeeds; widths from GetGeometry().Widths",
		"width tolerance 0.0005 em (width arrays store 1/1000 em)",
		"texts are non-empty except in the space untext: a glyph shown with Text \"\" has a code and a width like any other glyph and no text, so the text clauses (and the word-spacing agreement) are not applied to it; .notdef glyphs are shown like any other glyph",
		"space names: a naming call (RegisterFont, SetFontNameInternal) that returns an error and a builder error 'font name already in use' for a font's own Name are rejections of the input, not failures",
		"errors of Close that are version errors or the 256-code overflow are rejections of the input, not failures",
		"dressed sequences: Glyph.Rise, Glyph.Advance and GlyphSeq.Skip decide where the glyphs go, not which codes are shown: the strings of all Tj/TJ operators of the text object, in order and through the TJ arrays, must be the codes of the glyphs in order; the numbers in the TJ arrays and the Ts operands are not judged (the statement is silent on positions)",
	)

	kindsL, goL, stdL, extraL := allFonts()
	versions := []string{"1.2", "1.4", "1.7", "2.0"}
	r.Dim("fonts", map[string]int{"kinds": len(kindsL), "go_simple_and_composite": len(goL), "standard": len(stdL), "go_composite_encoder_variants": len(extraL)})
	r.Dim("repertoire", repertoire)
	r.Dim("versions", versions)

	var cases []Case
	add := func(c Case) { cases = append(cases, c) }

	// known findings are run explicitly
	for _, k := range r.KnownWitnesses() {
		var c Case
		if json.Unmarshal(k.Witness, &c) == nil && len(c.Fonts) > 0 {
			add(c)
		}
	}

	// (e) dressed glyph sequences (dressed.go). They come first in the list
	// so that a run cut short by the deadline on a loaded machine has still
	// executed them.
	r.Dim("space_dressed", dressedCases(r, kindsL, add))

	// (f) glyphs without a text, (g) caller-chosen resource names (names.go)
	{
		_, goL, stdL, extraL := allFonts()
		r.Dim("space_untext", untextCases(r, kindsL, append(append(append([]string{}, goL...), stdL...), extraL...), add))
		r.Dim("space_names", namesCases(r, kindsL, add))
	}

	s1 := stringsUpTo(repertoire, 1)
	s2 := stringsUpTo(repertoire, 2)
	s3 := stringsUpTo(repertoire, 3)

	// (a) all strings of length <= 3 per font
	others := append(append(append([]string{}, goL...), stdL...), extraL...)
	var dimA []string
	if r.Thorough() {
		for _, v := range versions {
			for _, f := range kindsL {
				for _, s := range s3 {
					add(single("strings", v, f, s))
				}
			}
		}
		for _, f := range others {
			for _, s := range s3 {
				add(single("strings", "1.7", f, s))
			}
			for _, v := range []string{"1.2", "1.4", "2.0"} {
				for _, s := range s2 {
					add(single("strings", v, f, s))
				}
			}
		}
		dimA = append(dimA,
			fmt.Sprintf("18 kinds x 4 versions x %d strings (length<=3)", len(s3)),
			fmt.Sprintf("%d Go/standard fonts x PDF 1.7 x %d strings (length<=3)", len(others), len(s3)),
			fmt.Sprintf("%d Go/standard fonts x PDF 1.2/1.4/2.0 x %d strings (length<=2)", len(others), len(s2)))
	} else {
		// length <= 3 for the ten simple kinds and one composite kind per
		// embedder family, length <= 2 for the remaining composite kinds
		deep3 := map[string]bool{"kind:CFFComposite1": true, "kind:OpenTypeCFFComposite2": true, "kind:TrueTypeComposite": true}
		n3 := 0
		for _, f := range kindsL {
			ss := s3
			if isComposite(f) && !deep3[f] {
				ss = s2
			} else {
				n3++
			}
			for _, s := range ss {
				add(single("strings", "1.7", f, s))
			}
		}
		for _, v := range []string{"1.2", "2.0"} {
			for _, f := range kindsL {
				for _, s := range s2 {
					add(single("strings", v, f, s))
				}
			}
		}
		for _, f := range kindsL {
			for _, s := range s1 {
				add(single("strings", "1.4", f, s))
			}
		}
		for _, f := range others {
			for _, s := range s2 {
				add(single("strings", "1.7", f, s))
			}
		}
		for _, f := range others {
			for _, s := range s1 {
				for _, v := range []string{"1.2", "2.0"} {
					add(single("strings", v, f, s))
				}
			}
		}
		dimA = append(dimA,
			fmt.Sprintf("%d kinds (10 simple, 3 composite) x PDF 1.7 x %d strings (length<=3); the other %d composite kinds x %d strings (length<=2)", n3, len(s3), len(kindsL)-n3, len(s2)),
			fmt.Sprintf("18 kinds x PDF 1.2/2.0 x %d strings (length<=2), PDF 1.4 x %d strings (length<=1)", len(s2), len(s1)),
			fmt.Sprintf("%d Go/standard fonts x PDF 1.7 x %d strings (length<=2)", len(others), len(s2)),
			fmt.Sprintf("%d Go/standard fonts x PDF 1.2/2.0 x %d strings (length<=1)", len(others), len(s1)))
	}
	// the letters f+i, which layouters with a ligature table turn into one
	// glyph with a two-character text
	ligStrings := []string{"fi", "Afi", "fi\ufb01", "ffl", "fifi"}
	for _, f := range append(append([]string{}, kindsL...), others...) {
		for _, s := range ligStrings {
			add(single("strings", "1.7", f, s))
		}
	}
	dimA = append(dimA, fmt.Sprintf("all %d fonts x PDF 1.7 x %d strings with the letter pairs f+i, f+f+l (ligature substitution)", len(kindsL)+len(others), len(ligStrings)))
	r.Dim("space_strings", dimA)

	// (b) interleavings of two Layout+Encode calls
	type fp struct{ a, b string }
	var fontPairs []fp
	for i, f := range kindsL {
		fontPairs = append(fontPairs, fp{f, ""})                        // one instance, two slots
		fontPairs = append(fontPairs, fp{f, f})                         // two instances of one kind
		fontPairs = append(fontPairs, fp{f, kindsL[(i+7)%len(kindsL)]}) // two kinds
	}
	fontPairs = append(fontPairs, fp{"go-simple:Regular", "std:Helvetica"}, fp{"std:Times-Roman", "std:Times-Roman"},
		fp{"std:Helvetica", ""}, fp{"go-simple:Mono", ""}, fp{"go-composite:Italic", ""}, fp{"go-composite-utf8:Regular", ""})
	addPair := func(p fp, t0, t1 string) {
		for _, il := range interleavings {
			c := Case{Space: "interleave", Version: "1.7", Steps: il}
			if p.b == "" {
				c.Fonts = []string{p.a}
				c.Slots = []Slot{{Font: 0, Text: t0}, {Font: 0, Text: t1}}
			} else {
				c.Fonts = []string{p.a, p.b}
				c.Slots = []Slot{{Font: 0, Text: t0}, {Font: 1, Text: t1}}
			}
			add(c)
		}
	}
	// quick: the empty string and four characters; thorough: all of length <= 1
	pairStrings := ev.Pick(r, []string{"", "A", " ", "\u00a0", "\u03a9"}, s1)
	for _, p := range fontPairs {
		for _, t0 := range pairStrings {
			for _, t1 := range pairStrings {
				addPair(p, t0, t1)
			}
		}
	}
	dimB := []string{fmt.Sprintf("%d font pairs (one instance twice / two instances of a kind / two kinds) x %d^2 strings (length<=1) x 6 interleavings", len(fontPairs), len(pairStrings))}
	if r.Thorough() {
		deep := []fp{{"kind:TrueTypeSimple", ""}, {"kind:Type1a", ""}, {"kind:CFFComposite1", ""}}
		for _, p := range deep {
			for _, t0 := range s2 {
				for _, t1 := range s2 {
					if len([]rune(t0)) < 2 && len([]rune(t1)) < 2 {
						continue // already above
					}
					addPair(p, t0, t1)
				}
			}
		}
		dimB = append(dimB, fmt.Sprintf("one instance shown twice, %d^2 strings (length<=2) x 6 interleavings for TrueTypeSimple, Type1a, CFFComposite1", len(s2)))
	}
	r.Dim("space_interleave", dimB)

	// (c) the same glyph under different texts
	syms := []string{"A", " ", "\u03a9"}
	alts := []string{"", "Z", "AB", "\u00a0"}
	type gt struct{ sym, alt string }
	var gts []gt
	for _, s := range syms {
		for _, a := range alts {
			gts = append(gts, gt{s, a})
		}
	}
	retextCases := func(f string, maxLen int) {
		var rec func(cur []gt)
		rec = func(cur []gt) {
			if len(cur) > 0 {
				c := Case{Space: "retext", Version: "1.7", Fonts: []string{f}, Steps: []Step{{"L", 0}, {"E", 0}}}
				sl := Slot{Font: 0}
				any := false
				for _, g := range cur {
					sl.Text += g.sym
					sl.Retext = append(sl.Retext, g.alt)
					any = any || g.alt != ""
				}
				if any {
					c.Slots = []Slot{sl}
					add(c)
				}
			}
			if len(cur) == maxLen {
				return
			}
			for _, g := range gts {
				rec(append(cur[:len(cur):len(cur)], g))
			}
		}
		rec(nil)
	}
	for _, f := range kindsL {
		retextCases(f, ev.Pick(r, 2, 3))
	}
	if !r.Thorough() {
		// the other fonts: {A, space} x {own, Z}
		gts = []gt{{"A", ""}, {"A", "Z"}, {" ", ""}, {" ", "Z"}}
	}
	for _, f := range others {
		retextCases(f, 2)
	}
	r.Dim("space_retext", fmt.Sprintf("sequences of (glyph, text) over {A, space, Omega} x {own text, Z, AB, no-break space} with at least one replaced text: length<=%d for the 18 kinds, length<=2 for the %d other fonts (quick: these over {A, space} x {own, Z})", ev.Pick(r, 2, 3), len(others)))

	// (d) fill-up sequences
	var fillN []int
	if r.Thorough() {
		for n := 1; n <= 257; n++ {
			fillN = append(fillN, n)
		}
	} else {
		fillN = []int{16, 64, 128, 192, 224, 250, 255, 256, 257}
	}
	fillFonts := 0
	for _, f := range append(append([]string{}, kindsL...), others...) {
		ns := fillN
		if isComposite(f) {
			ns = []int{64, 256, 300}
		}
		fillFonts++
		for _, n := range ns {
			for _, o := range []string{"asc", "desc", "rot"} {
				add(Case{Space: "fill", Version: "1.7", Fonts: []string{f},
					Slots: []Slot{{Font: 0, Fill: &Fill{Order: o, N: n}}}, Steps: []Step{{"L", 0}, {"E", 0}}})
			}
		}
	}
	r.Dim("space_fill", fmt.Sprintf("%d fonts x orders {asc, desc, rot} x N in %v (composite fonts: N in {64,256,300}); pool = glyphs of %d characters, topped up to 300 pairs with made-up texts", fillFonts, fillN, len(fillRunes())))

	r.Dim("cases", len(cases))
	r.Par(len(cases), func(i int) {
		if r.Expired() || r.TooManyViolations() {
			return
		}
		c := cases[i]
		cl.one(c)
		r.DistinctS(caseKey(&c))
		if i%9973 == 5 {
			r.Sample(c)
		}
	})

	r.Dim("dressed_operator_patterns_observed", cl.patternDim())
	cl.flush()
	return r.Finish()
}

// Replay re-executes the case of a replay file.
func Replay(path string) int {
	var c Case
	if err := ev.ReplayCase(path, &c); err != nil {
		fmt.Println("replay:", err)
		return 2
	}
	r := ev.New("C14", "quick", "exploration", time.Minute)
	r.SetReplayMode()
	cl := &collector{r: r, v: map[string]*viol{}}
	cl.one(c)
	cl.flush()
	return r.Finish()
}
