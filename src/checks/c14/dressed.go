//go:build verif

package c14

import (
	"bytes"
	"fmt"
	"sort"
	"strings"

	"seehuhn.de/go/pdf"
	"seehuhn.de/go/pdf/font"
	"seehuhn.de/go/pdf/zzverif/engine/ev"
)

// ---------------------------------------------------------------------------
// dressed glyph sequences
//
// Everything Layout returns has Rise == 0 and Advance == natural width (plus
// the font's own kerning), so builder.TextShowGlyphs writes one Tj or TJ per
// call. A *dressing* is what a caller that typesets for itself adds to such a
// sequence: a text rise per glyph, a change of the advance per glyph (kerning,
// tracking, justification) and an initial skip. With a dressing one call of
// TextShowGlyphs writes a sequence of Ts, Tj and TJ operators; the property
// asks the same of the strings in them as of any other string of the page.

// Dress is the dressing of one slot. Entry i belongs to glyph i of the laid
// out sequence; missing entries are 0.
type Dress struct {
	Skip float64   `json:"skip,omitempty"` // GlyphSeq.Skip
	Rise []float64 `json:"rise,omitempty"` // Glyph.Rise
	Adj  []float64 `json:"adj,omitempty"`  // added to Glyph.Advance
}

// the alphabet of a dressing, in text space units at 10 pt: one 1/1000 em is
// 0.01, so every adjustment is a whole number in the TJ array.
const (
	dressRise = 3.0
	dressAdj  = 1.0
	dressSkip = 2.0
)

var (
	dressRiseAlpha = []float64{0, dressRise}
	dressAdjAlpha  = []float64{0, dressAdj, -dressAdj}
	dressSkipAlpha = []float64{0, dressSkip}
)

func (d *Dress) apply(seq *font.GlyphSeq) {
	if d == nil || seq == nil {
		return
	}
	seq.Skip += d.Skip
	for i := range seq.Seq {
		if i < len(d.Rise) {
			seq.Seq[i].Rise += d.Rise[i]
		}
		if i < len(d.Adj) {
			seq.Seq[i].Advance += d.Adj[i]
		}
	}
}

func (d *Dress) size() int {
	if d == nil {
		return 0
	}
	n := 1
	if d.Skip != 0 {
		n += 2
	}
	for _, x := range d.Rise {
		if x != 0 {
			n += 2
		}
	}
	for _, x := range d.Adj {
		if x != 0 {
			n += 2
		}
	}
	return n
}

// dressings returns every dressing of a sequence of n glyphs over the
// alphabets above: 2 * (2*3)^n.
func dressings(n int) []*Dress {
	var out []*Dress
	for _, skip := range dressSkipAlpha {
		var rec func(rise, adj []float64)
		rec = func(rise, adj []float64) {
			if len(rise) == n {
				out = append(out, &Dress{Skip: skip,
					Rise: append([]float64{}, rise...), Adj: append([]float64{}, adj...)})
				return
			}
			for _, r := range dressRiseAlpha {
				for _, a := range dressAdjAlpha {
					rec(append(rise, r), append(adj, a))
				}
			}
		}
		rec(nil, nil)
	}
	return out
}

// The strings that are dressed, by length. Every length has a string of
// pairwise different glyphs, one with a repeated glyph and one with a blank
// glyph (the builder holds an adjustment back in front of a blank glyph).
var dressStrings = [][]string{
	1: {"A", " "},
	2: {"AB", "AA", "A ", " A"},
	3: {"ABC", "ABA", "A C"},
	4: {"ABCD", "ABAB", "AB D"},
}

// dressReps: one font per class of what TextShowGlyphs sees of a font
// (codec, Encode, Codes, IsBlank): a standard font, an embedded simple
// TrueType font, a Type 3 font, a CFF-based and a glyf-based composite font
// with the fixed 2-byte CMap, and a composite font with the UTF-8 encoder
// (codes of different lengths).
var dressReps = []string{"std:Helvetica", "kind:TrueTypeSimple", "kind:Type3",
	"kind:CFFComposite1", "kind:TrueTypeComposite", "go-composite-utf8:Regular"}

// dressCheap is the representative whose constructor costs next to nothing;
// it carries the longest sequences in the quick tier.
const dressCheap = "std:Helvetica"

func dressedCase(version, fontLabel, text string, d *Dress) Case {
	return Case{Space: "dressed", Version: version, Fonts: []string{fontLabel},
		Slots: []Slot{{Font: 0, Text: text, Dress: d}}, Steps: []Step{{"L", 0}, {"E", 0}}}
}

// dressedCases enumerates the space "dressed" and describes it.
func dressedCases(r *ev.Run, kindsL []string, add func(Case)) []string {
	dr := [][]*Dress{nil, dressings(1), dressings(2), dressings(3), dressings(4)}
	n := 0
	block := func(version, f string, ss []string) {
		for _, s := range ss {
			for _, d := range dr[len([]rune(s))] {
				add(dressedCase(version, f, s, d))
				n++
			}
		}
	}
	cat := func(ll ...[]string) []string {
		var out []string
		for _, l := range ll {
			out = append(out, l...)
		}
		return out
	}
	isRep := map[string]bool{}
	for _, f := range dressReps {
		isRep[f] = true
	}
	var rest []string
	for _, f := range kindsL {
		if !isRep[f] {
			rest = append(rest, f)
		}
	}
	T := dressStrings
	var dim []string
	took := func(format string, a ...any) {
		dim = append(dim, fmt.Sprintf(format, a...)+fmt.Sprintf(": %d documents", n))
		n = 0
	}
	dim = append(dim, fmt.Sprintf("dressing of n glyphs = Skip in %v x per glyph (Rise in %v x Advance change in %v): 2*6^n = %d, %d, %d, %d for n = 1..4; strings by length %q",
		dressSkipAlpha, dressRiseAlpha, dressAdjAlpha, len(dr[1]), len(dr[2]), len(dr[3]), len(dr[4]), T[1:]))
	if r.Thorough() {
		all := cat(dressReps, rest)
		for _, v := range []string{"1.7", "2.0"} {
			for _, f := range all {
				block(v, f, cat(T[1], T[2], T[3]))
			}
		}
		took("%d fonts (the 18 kinds, %s, go-composite-utf8:Regular) x PDF 1.7/2.0 x every dressing of the %d strings of length<=3", len(all), dressCheap, len(T[1])+len(T[2])+len(T[3]))
		for _, f := range dressReps {
			block("1.7", f, T[4])
		}
		took("%d representatives %v x PDF 1.7 x every dressing of the %d strings of length 4", len(dressReps), dressReps, len(T[4]))
		return dim
	}
	// quick: the cheap representative first (it alone reaches length 4)
	block("1.7", dressCheap, cat(T[1], T[2], T[3], T[4]))
	took("%s x PDF 1.7 x every dressing of all %d strings (length<=4)", dressCheap, len(T[1])+len(T[2])+len(T[3])+len(T[4]))
	for _, f := range dressReps {
		if f != dressCheap {
			block("1.7", f, cat(T[1], T[2], T[3][:1]))
		}
	}
	took("the other %d representatives %v x PDF 1.7 x every dressing of the strings of length<=2 and of %q", len(dressReps)-1, dressReps[1:], T[3][0])
	for _, f := range dressReps {
		block("2.0", f, cat(T[1], T[2]))
	}
	took("%d representatives x PDF 2.0 x every dressing of the strings of length<=2", len(dressReps))
	small := cat(T[1], T[2][:1], T[2][2:3])
	for _, f := range rest {
		block("1.7", f, small)
	}
	took("the other %d kinds x PDF 1.7 x every dressing of %q", len(rest), small)
	return dim
}

// ---------------------------------------------------------------------------
// what the reader saw of the show operators

// showOp is one Tj or TJ operator.
type showOp struct {
	name  string
	bytes []byte // the strings of the operand, concatenated in order
	shape string // TJ: s = string, n = number, in the order of the array
}

func (g *group) noteShow(op string, arg pdf.Object) {
	if g == nil {
		return
	}
	so := showOp{name: op}
	switch a := arg.(type) {
	case pdf.String:
		so.bytes = append(so.bytes, a...)
	case pdf.Array:
		var sh strings.Builder
		for _, o := range a {
			if s, ok := o.(pdf.String); ok {
				so.bytes = append(so.bytes, s...)
				sh.WriteByte('s')
			} else {
				sh.WriteByte('n')
			}
		}
		so.shape = sh.String()
	}
	g.ops = append(g.ops, so)
	if so.shape != "" {
		g.pattern = append(g.pattern, op+"["+so.shape+"]")
	} else {
		g.pattern = append(g.pattern, op)
	}
}

func (g *group) describeOps() string {
	var parts []string
	for _, o := range g.ops {
		parts = append(parts, fmt.Sprintf("%s <%x>", o.name, o.bytes))
	}
	return strings.Join(parts, ", ")
}

func patternOf(groups []*group) string {
	var parts []string
	for _, g := range groups {
		parts = append(parts, strings.Join(g.pattern, " "))
	}
	return strings.Join(parts, " | ")
}

// earlierOperatorWrong classifies a mismatch between the codes shown and the
// bytes of the content stream: when one TextShowGlyphs call has written several
// show operators, the last of them carries exactly the tail of the codes, and
// what the operators before it carry is not the rest, then an operator that
// had already been written has other codes than the glyphs it was written for.
func earlierOperatorWrong(gr *group, wantBytes []byte) string {
	if len(gr.ops) < 2 {
		return ""
	}
	last := gr.ops[len(gr.ops)-1].bytes
	if len(last) == 0 || !bytes.HasSuffix(wantBytes, last) {
		return ""
	}
	var head []byte
	for _, o := range gr.ops[:len(gr.ops)-1] {
		head = append(head, o.bytes...)
	}
	if bytes.Equal(head, wantBytes[:len(wantBytes)-len(last)]) {
		return ""
	}
	return "last-operator-right,earlier-operator-has-other-codes"
}

// ---------------------------------------------------------------------------
// coverage of the operator patterns

func (cl *collector) notePattern(p string) {
	cl.pmu.Lock()
	if cl.patterns == nil {
		cl.patterns = map[string]int{}
	}
	cl.patterns[p]++
	cl.pmu.Unlock()
}

// patternDim reports which sequences of Ts / Tj / TJ operators (with the
// shape of every TJ array) the dressed documents made TextShowGlyphs write.
func (cl *collector) patternDim() map[string]any {
	cl.pmu.Lock()
	defer cl.pmu.Unlock()
	keys := make([]string, 0, len(cl.patterns))
	multi := 0
	byOps := map[string]int{}
	for k := range cl.patterns {
		keys = append(keys, k)
		shows := 0
		for _, w := range strings.Fields(k) {
			if strings.HasPrefix(w, "Tj") || strings.HasPrefix(w, "TJ") {
				shows++
			}
		}
		if shows >= 2 {
			multi++
		}
		byOps[fmt.Sprintf("%d-show-operators", shows)]++
	}
	sort.Strings(keys)
	ex := keys
	if len(ex) > 12 {
		ex = append(append([]string{}, keys[:6]...), keys[len(keys)-6:]...)
	}
	return map[string]any{
		"distinct_patterns":                len(keys),
		"patterns_with_two_or_more_shows":  multi,
		"distinct_patterns_by_show_count":  byOps,
		"examples_first_and_last_in_order": ex,
	}
}
