//go:build verif

package c20

import (
	"bytes"
	"fmt"
	"sort"

	"seehuhn.de/go/pdf/zzverif/engine/ev"
	"seehuhn.de/go/pdf/zzverif/ref/pdffile"
	"seehuhn.de/go/pdf/zzverif/ref/pdfsyn"
)

// Aligned documents.
//
// The documents the write programs produce are a few hundred bytes long, so
// the objects in them meet the scanner's buffer boundaries only at a handful
// of positions.  This family slides one fixed run of small objects across
// every alignment: the document is
//
//	catalog, page tree,
//	a string object of p bytes (the pad),
//	16 streams whose /Length is an indirect reference to the integer object
//	    that follows the stream (bodies end in LF, in CR, contain a
//	    line-initial "endstream", or are empty),
//	4 integer objects of 17..19 bytes and one small object of every other
//	type (null, boolean, real, name, string, array, dictionary, reference),
//
// written by ref/pdffile's serialiser, for every p in 0..padMax; scanned are
// the truncation offsets behind the pad that lie within 80 bytes of a multiple
// of 1024 or within 2 bytes of the end of an object, and the whole file.
// The run of 32 objects is about 1.1 KiB, so with p up to padMax the
// run crosses the first and second refill of a 1 KiB buffer at every offset.
type AlignedCase struct {
	Pad int `json:"pad"`
	Cut int `json:"cut"`
}

var alignedBodies = [][]byte{
	[]byte("X\n"),
	[]byte("Y\r"),
	[]byte("a\nendstream\nb"),
	[]byte(""),
	[]byte("line\r\n"),
	// line-initial words that the scan takes for section markers
	[]byte("x\ntrailer was better\n"),
	[]byte("\nxref\n0 1\n"),
	[]byte("a\nstartxref\n7\n%%EOF\nb"),
}

const (
	alignedStreams = 16
	alignedInts    = 4
)

func alignedTyped() []pdfsyn.Value {
	return []pdfsyn.Value{
		pdfsyn.NullV(), pdfsyn.BoolV(true), pdfsyn.RealV(1.5), pdfsyn.NameV("N"), pdfsyn.StrV("s"),
		pdfsyn.ArrV(pdfsyn.IntV(1)), pdfsyn.DictV("K", pdfsyn.IntV(1)), pdfsyn.RefV(1, 0),
	}
}

func alignedDoc(p int) ([]byte, error) {
	rev := pdffile.Revision{Kind: "table", Trailer: []pdfsyn.Entry{{Key: []byte("Root"), Val: pdfsyn.RefV(1, 0)}}}
	rev.Objs = append(rev.Objs,
		pdffile.ObjDef{Num: 1, Val: pdfsyn.DictV("Type", pdfsyn.NameV("Catalog"), "Pages", pdfsyn.RefV(2, 0))},
		pdffile.ObjDef{Num: 2, Val: pdfsyn.DictV("Type", pdfsyn.NameV("Pages"), "Kids", pdfsyn.ArrV(), "Count", pdfsyn.IntV(0))},
		// the pad: a string of p bytes followed, in the same object, by names with #xx escapes
		// and other short tokens, so that these meet the end of the scanner's window as well
		pdffile.ObjDef{Num: 3, Val: pdfsyn.ArrV(pdfsyn.StrV(string(bytes.Repeat([]byte("p"), p))),
			pdfsyn.NameV("(x) y"), pdfsyn.NameV("A#B"), pdfsyn.StrV("s(\\)"), pdfsyn.RealV(-1.5), pdfsyn.RefV(2, 0), pdfsyn.NullV())},
	)
	num := 4
	for i := 0; i < alignedStreams; i++ {
		body := alignedBodies[i%len(alignedBodies)]
		lv := pdfsyn.RefV(int64(num+1), 0)
		rev.Objs = append(rev.Objs,
			pdffile.ObjDef{Num: num, Val: pdfsyn.DictV("I", pdfsyn.IntV(int64(i))), Stream: body, LengthOverride: &lv},
			pdffile.ObjDef{Num: num + 1, Val: pdfsyn.IntV(int64(len(body)))},
		)
		num += 2
	}
	for i := 0; i < alignedInts; i++ {
		rev.Objs = append(rev.Objs, pdffile.ObjDef{Num: num, Val: pdfsyn.IntV(int64(7 * i * i * i))})
		num++
	}
	// one small object of every other type
	for _, v := range alignedTyped() {
		rev.Objs = append(rev.Objs, pdffile.ObjDef{Num: num, Val: v})
		num++
	}
	data := pdffile.Write([]pdffile.Revision{rev}, pdffile.Knobs{})
	return data, nil
}

func prepareBytes(data []byte) (*doc, error) {
	f, perr := pdffile.Read(data, pdffile.Options{Strict: true})
	if perr != nil {
		return nil, perr
	}
	d := &doc{file: f, model: map[int]pdfsyn.Value{}, note: func(string) {}}
	for _, o := range f.Objects {
		if o.Offset >= 0 {
			d.objs = append(d.objs, o)
		}
	}
	sort.Slice(d.objs, func(i, j int) bool { return d.objs[i].Offset < d.objs[j].Offset })
	return d, nil
}

// runAligned scans every cut of the document with pad p (or only the cut of
// the given case).
func runAligned(r *ev.Run, p int, only *AlignedCase) {
	data, err := alignedDoc(p)
	var d *doc
	if err == nil {
		d, err = prepareBytes(data)
	}
	if err == nil && len(d.objs) != 3+2*alignedStreams+alignedInts+len(alignedTyped()) {
		err = fmt.Errorf("%d objects found, %d written", len(d.objs), 3+2*alignedStreams+alignedInts+len(alignedTyped()))
	}
	if err != nil {
		r.Infra(fmt.Sprintf("aligned document pad=%d: independent reader: %v", p, err))
		return
	}
	from := 0
	if p > 0 {
		from = int(d.objs[2].End) - 8
	}
	// cuts: within 80 bytes of every multiple of the scanner's buffer size, around the end of
	// every object, and the whole file (every cut of short documents is the write programs' part)
	near := map[int]bool{len(data): true}
	for _, o := range d.objs {
		for dt := -2; dt <= 2; dt++ {
			near[int(o.End)+dt] = true
		}
		near[int(o.Offset)+1] = true
	}
	for t := from; t <= len(data); t++ {
		if only != nil && only.Cut != t {
			continue
		}
		if m := t % 1024; m > 80 && m < 1024-80 && !near[t] {
			continue
		}
		r.Eval(1)
		if f := d.judgeScan(data[:t], int64(t), false); f != nil {
			r.Outcome("fail:" + f.fp)
			r.Violation("aligned:"+f.fp, fmt.Sprintf("aligned document, pad %d, cut at %d of %d (…%q|%q…): %s", p, t, len(data), tailOf(data[:t], 14), headOf(data[t:], 10), f.what), Case{Damage: "aligned-cut", Cut: t, Aligned: &AlignedCase{Pad: p, Cut: t}})
		} else {
			r.Outcome("ok:aligned-cut")
		}
	}
}
