//go:build verif

// Package c20 decides C20: a truncated or xref-damaged file still gives up
// every completely written object through the sequential scan.
package c20

import (
	"bytes"
	"fmt"
	"io"
	"sort"
	"strings"
	"time"

	"seehuhn.de/go/pdf"
	"seehuhn.de/go/pdf/zzverif/checks/hx"
	"seehuhn.de/go/pdf/zzverif/checks/wprog"
	"seehuhn.de/go/pdf/zzverif/engine/ev"
	"seehuhn.de/go/pdf/zzverif/ref/pdffile"
	"seehuhn.de/go/pdf/zzverif/ref/pdfsyn"
)

type failure struct{ fp, what string }

// Case is a program plus the damage applied to the file it wrote.
type Case struct {
	Prog   wprog.Case `json:"program"`
	Damage string     `json:"damage"` // "cut" or "xref:<name>"
	Cut    int        `json:"cut"`
	// Aligned, if set, is a case of the aligned-document family (aligned.go); Prog is unused then.
	Aligned *AlignedCase `json:"aligned,omitempty"`
}

// doc is a written file together with what the independent reader knows of it.
type doc struct {
	res   *wprog.Result
	file  *pdffile.File
	objs  []*pdffile.Object // uncompressed in-use objects in file order
	model map[int]pdfsyn.Value
	note  func(string)
}

func prepare(res *wprog.Result) (*doc, error) {
	f, perr := pdffile.Read(res.Bytes, pdffile.Options{})
	if perr != nil {
		return nil, perr
	}
	d := &doc{res: res, file: f, model: map[int]pdfsyn.Value{}}
	for _, o := range f.Objects {
		if o.Offset >= 0 {
			d.objs = append(d.objs, o)
		}
	}
	sort.Slice(d.objs, func(i, j int) bool { return d.objs[i].Offset < d.objs[j].Offset })
	return d, nil
}

func classify(o *pdffile.Object) string {
	if o.IsStream {
		return "stream"
	}
	switch o.Val.K {
	case pdfsyn.Dict:
		return "dict"
	case pdfsyn.Array:
		return "array"
	}
	return "scalar"
}

// judgeScan checks the scan of data (a prefix of, or a damaged copy of, the
// file) against the objects that are complete within `avail` bytes.
func (d *doc) judgeScan(data []byte, avail int64, damaged bool) *failure {
	var complete, partial []*pdffile.Object
	for _, o := range d.objs {
		switch {
		case o.End <= avail:
			complete = append(complete, o)
		case o.Offset < avail:
			partial = append(partial, o)
		}
	}
	fi, err := pdf.SequentialScan(bytes.NewReader(data), int64(len(data)))
	if err != nil {
		if len(complete) == 0 {
			return nil // nothing complete: failing is allowed
		}
		where := "after-last-complete-object"
		if len(partial) > 0 {
			p := partial[0]
			where = "inside-" + classify(p)
		}
		return &failure{"scan-aborts:" + where + ":" + errClass(err), fmt.Sprintf("SequentialScan fails with %q although %d objects are complete in the available %d bytes", err, len(complete), avail)}
	}
	listed := map[pdf.Reference][]*pdf.FileObject{}
	for _, sec := range fi.Sections {
		for _, fo := range sec.Objects {
			listed[fo.Reference] = append(listed[fo.Reference], fo)
		}
	}
	for _, o := range complete {
		ref := pdf.NewReference(uint32(o.Num), uint16(o.Gen))
		var fo *pdf.FileObject
		for _, c := range listed[ref] {
			if c.ObjStart == o.Offset {
				fo = c
			}
		}
		if fo == nil {
			return &failure{"complete-object-not-listed:" + classify(o), fmt.Sprintf("object %v at offset %d is complete (endobj at %d <= %d) but is not listed at its offset (listed: %v)", ref, o.Offset, o.End, avail, offsets(listed[ref]))}
		}
		// is the stream's /Length available in these bytes?
		lenOK := false
		if o.IsStream {
			lv := o.Val.Get("Length")
			lenOK = lv.K == pdfsyn.Int
			if lv.K == pdfsyn.Ref {
				for _, c := range complete {
					if c.Num == int(lv.N) {
						lenOK = true
					}
				}
			}
			if !lenOK && bytes.Contains(o.Raw, []byte("endstream")) {
				// the length object is cut off and the body itself contains "endstream":
				// no reader can tell where this stream ends (as for the partial objects below)
				d.note("stream-with-endstream-in-body-and-length-cut-off")
				continue
			}
		}
		if fo.Broken {
			return &failure{"complete-object-broken:" + classify(o), fmt.Sprintf("object %v at offset %d is complete but marked broken", ref, o.Offset)}
		}
		got, err := fi.Read(fo)
		if err != nil {
			return &failure{"complete-object-unreadable:" + classify(o), fmt.Sprintf("FileInfo.Read(%v) fails: %v", ref, err)}
		}
		if o.IsStream {
			stm, ok := got.(*pdf.Stream)
			if !ok {
				return &failure{"complete-object-value:stream", fmt.Sprintf("object %v reads as %T, a stream was written", ref, got)}
			}
			// the data is only judged when /Length is available in these bytes
			if lenOK {
				raw, _ := io.ReadAll(stm.NewReader())
				if !bytes.Equal(raw, o.Raw) {
					return &failure{"complete-object-value:stream-data", fmt.Sprintf("stream %v: scan reads %d raw bytes, written %d", ref, len(raw), len(o.Raw))}
				}
			}
			d2 := pdf.Dict{}
			for k, v := range stm.Dict {
				if k != "Length" {
					d2[k] = v
				}
			}
			want := pdfsyn.Value{K: pdfsyn.Dict}
			for _, e := range o.Val.D {
				if string(e.Key) != "Length" {
					want.D = append(want.D, e)
				}
			}
			if !pdfsyn.Equal(hx.FromPdf(d2), want) {
				return &failure{"complete-object-value:stream-dict", fmt.Sprintf("stream %v dictionary reads %s, written %s", ref, hx.Show(d2), want.String())}
			}
			continue
		}
		if !pdfsyn.Equal(hx.FromPdf(got), o.Val) {
			return &failure{"complete-object-value:" + classify(o), fmt.Sprintf("object %v reads %s, written %s", ref, hx.Show(got), o.Val.String())}
		}
	}
	if !damaged {
		for _, o := range partial {
			if o.IsStream && bytes.Contains(o.Raw, []byte("endstream")) {
				// a body that itself contains "endstream ... endobj" cannot be told
				// from a complete object once the real end is cut off
				continue
			}
			ref := pdf.NewReference(uint32(o.Num), uint16(o.Gen))
			for _, c := range listed[ref] {
				if c.ObjStart == o.Offset && !c.Broken {
					return &failure{"incomplete-object-not-broken:" + classify(o), fmt.Sprintf("object %v at offset %d is cut off at %d (its endobj is at %d) but is listed as intact", ref, o.Offset, avail, o.End)}
				}
			}
		}
	}
	return nil
}

func offsets(l []*pdf.FileObject) []int64 {
	var out []int64
	for _, o := range l {
		out = append(out, o.ObjStart)
	}
	return out
}

func errClass(err error) string {
	if err == io.EOF {
		return "bare-io.EOF"
	}
	if err == io.ErrUnexpectedEOF {
		return "bare-io.ErrUnexpectedEOF"
	}
	if pdf.IsMalformed(err) {
		return "malformed"
	}
	return "other"
}

// damages returns the xref damage variants of a file: name -> damaged copy.
func (d *doc) damages() map[string][]byte {
	out := map[string][]byte{}
	data := d.res.Bytes
	blank := func(name string, a, b int, fill byte) {
		if a < 0 || b > len(data) || a >= b {
			return
		}
		c := append([]byte{}, data...)
		for i := a; i < b; i++ {
			if c[i] != '\n' && c[i] != '\r' {
				c[i] = fill
			}
		}
		out[name] = c
	}
	sx := bytes.LastIndex(data, []byte("startxref"))
	eof := bytes.LastIndex(data, []byte("%%EOF"))
	xr := int(d.file.StartXRef)
	for _, fill := range []byte{' ', 'x', 0} {
		tag := fmt.Sprintf("%02x", fill)
		if sx >= 0 && eof > sx {
			blank("startxref-keyword:"+tag, sx, sx+9, fill)
			blank("startxref-number:"+tag, sx+10, eof, fill)
			blank("eof-marker:"+tag, eof, eof+5, fill)
		}
		sec := d.file.Sections[0]
		if !sec.IsStream {
			blank("xref-keyword:"+tag, xr, xr+4, fill)
			tr := bytes.Index(data[xr:], []byte("trailer"))
			if tr > 0 {
				// every table line
				lines := bytes.Split(data[xr:xr+tr], []byte("\n"))
				pos := xr
				for i, l := range lines {
					if i > 0 && len(l) > 0 && i <= 6 {
						blank(fmt.Sprintf("xref-table-line%d:%s", i, tag), pos, pos+len(l), fill)
					}
					pos += len(l) + 1
				}
				blank("xref-table-all:"+tag, xr+5, xr+tr, fill)
				blank("trailer-keyword:"+tag, xr+tr, xr+tr+7, fill)
				if sx > xr+tr+8 {
					blank("trailer-dict:"+tag, xr+tr+8, sx, fill)
				}
			}
		} else {
			// xref stream: header, dictionary, body
			o, err := pdffile.ParseObjectAt(data, int64(xr), false, nil)
			if err == nil {
				h := bytes.Index(data[xr:], []byte("obj"))
				blank("xrefstream-header:"+tag, xr, xr+h+3, fill)
				st := bytes.Index(data[xr:], []byte("stream"))
				blank("xrefstream-dict:"+tag, xr+h+4, xr+st, fill)
				b0 := bytes.Index(data[xr:], o.Raw)
				if len(o.Raw) > 0 && b0 > 0 {
					blank("xrefstream-body:"+tag, xr+b0, xr+b0+len(o.Raw), fill)
				}
			}
		}
	}
	// startxref number replaced
	if sx >= 0 && eof > sx {
		for _, v := range []int{0, len(data), len(data) + 1} {
			c := append([]byte{}, data[:sx+10]...)
			c = append(c, []byte(fmt.Sprintf("%d\n", v))...)
			c = append(c, data[eof:]...)
			out[fmt.Sprintf("startxref-value:%s", map[int]string{0: "0", len(data): "len", len(data) + 1: "len+1"}[v])] = c
		}
	}
	return out
}

// judgeDamaged: the scan must list everything, and MakeReader must serve
// every object.
func (d *doc) judgeDamaged(name string, data []byte) *failure {
	// damage may shift nothing: offsets are unchanged (in-place overwrite) except
	// for the startxref value variants, which only touch bytes after the last object
	if f := d.judgeScan(data, int64(len(data)), true); f != nil {
		f.fp = "xref-damage:" + f.fp
		return f
	}
	// a damaged xref stream object is itself an object that is now broken;
	// every other object must be served by MakeReader
	fi, err := pdf.SequentialScan(bytes.NewReader(data), int64(len(data)))
	if err != nil {
		return nil
	}
	// MakeReader is not part of the statement (which speaks of the scan and of
	// reading the listed objects); what it does is recorded, not judged.
	r, err := fi.MakeReader(nil)
	if err != nil {
		d.note("makereader-fails:" + kindOfDamage(name))
		return nil
	}
	bad := false
	for ref, want := range d.res.Objs {
		got, err := r.Get(ref, true)
		if err != nil || !hx.Equal(got, want) {
			bad = true
		}
	}
	if bad {
		d.note("makereader-object-differs:" + kindOfDamage(name))
	} else {
		d.note("makereader-serves-all-objects:" + kindOfDamage(name))
	}
	return nil
}

func kindOfDamage(name string) string {
	if i := strings.Index(name, ":"); i > 0 {
		return name[:i]
	}
	return name
}

func plans(thorough bool) []wprog.Plan {
	var out []wprog.Plan
	versions := []pdf.Version{pdf.V1_0, pdf.V1_4, pdf.V1_5, pdf.V1_7, pdf.V2_0}
	for _, v := range versions {
		for _, h := range []bool{false, true} {
			for _, s := range []bool{false, true} {
				out = append(out, wprog.Plan{Cfg: wprog.Config{V: v, Human: h, Seekable: s}, MaxOps: 1, DevBound: 1})
				if thorough && !h && (v == pdf.V1_4 || v == pdf.V1_7) {
					out = append(out, wprog.Plan{Cfg: wprog.Config{V: v, Human: h, Seekable: s}, MaxOps: 2, DevBound: 0})
				}
			}
		}
	}
	return out
}

func runCase(r *ev.Run, res *wprog.Result, choices []int, maxOps int, only *Case) {
	d, err := prepare(res)
	if err != nil {
		r.Infra(fmt.Sprintf("independent reader rejects a written file (C03 territory): %v [%s]", err, strings.Join(res.Ops, "; ")))
		return
	}
	d.note = func(s string) { r.Outcome("not-judged:" + s) }
	pc := wprog.Case{Cfg: res.Cfg, MaxOps: maxOps, Choices: append([]int{}, choices...), Ops: res.Ops}
	data := res.Bytes
	for t := 0; t <= len(data); t++ {
		if only != nil && (only.Damage != "cut" || only.Cut != t) {
			continue
		}
		r.Eval(1)
		if f := d.judgeScan(data[:t], int64(t), false); f != nil {
			r.Outcome("fail:" + f.fp)
			r.Violation(f.fp, fmt.Sprintf("cut at %d of %d (…%q|%q…): %s [%s; %s]", t, len(data), tailOf(data[:t], 14), headOf(data[t:], 10), f.what, res.Cfg, strings.Join(res.Ops, "; ")), Case{Prog: pc, Damage: "cut", Cut: t})
		} else {
			r.Outcome("ok:cut")
		}
	}
	dm := d.damages()
	names := make([]string, 0, len(dm))
	for n := range dm {
		names = append(names, n)
	}
	sort.Strings(names)
	for _, n := range names {
		if only != nil && only.Damage != "xref:"+n {
			continue
		}
		r.Eval(1)
		if f := d.judgeDamaged(n, dm[n]); f != nil {
			r.Outcome("fail:" + f.fp)
			r.Violation(f.fp, fmt.Sprintf("damage %s: %s [%s; %s]", n, f.what, res.Cfg, strings.Join(res.Ops, "; ")), Case{Prog: pc, Damage: "xref:" + n})
		} else {
			r.Outcome("ok:xref-damage:" + kindOfDamage(n))
		}
	}
}

func tailOf(b []byte, n int) []byte {
	if len(b) > n {
		return b[len(b)-n:]
	}
	return b
}

func headOf(b []byte, n int) []byte {
	if len(b) > n {
		return b[:n]
	}
	return b
}

var env = &wprog.Env{NoCompressed: true, SmallValues: true}

// Run is the check.
func Run(tier string) int {
	budget := 4 * time.Minute
	if tier == "thorough" {
		budget = 25 * time.Minute
	}
	r := ev.New("C20", tier, "fault_enumeration", budget)
	r.Rule("documents = all write programs (without WriteCompressed) up to max_ops operations with at most dev_bound non-default choices for 5 versions x human-readable x seekable; for each document EVERY truncation offset 0..len and every single cross-reference damage (keyword, each of the first table lines, whole table, trailer, startxref keyword/number/value, %%EOF, xref-stream header/dictionary/body; overwritten by spaces, 'x', NUL) is scanned; plus the aligned documents (a fixed run of small objects behind a pad of every length, every cut); expected object spans come from the independent reader ref/pdffile; distinct = distinct (document bytes hash, damage) pairs")
	r.Assume("object spans (header offset, offset past endobj) and values from ref/pdffile", "stream data is judged only when /Length is available in the remaining bytes (direct, or its indirect object complete)", "unencrypted documents")
	if !r.Thorough() {
		// the quick tier leaves out the high object numbers (they make every xref table 7 KiB long)
		env = &wprog.Env{NoCompressed: true, NoHigh: true, SmallValues: true}
	}
	// aligned documents (aligned.go); first, so that a run capped by the deadline has explored them
	padMax := ev.Pick(r, 1100, 2200)
	r.Dim("aligned_documents", fmt.Sprintf("pad 0..%d, cuts within 80 bytes of a multiple of 1024 or 2 bytes of an object end, and the whole file; %d streams with indirect /Length + %d integer objects", padMax, alignedStreams, alignedInts))
	r.Par(padMax+1, func(p int) {
		if r.Expired() {
			return
		}
		runAligned(r, p, nil)
		r.DistinctS(fmt.Sprintf("aligned|%d", p))
	})
	pl := plans(r.Thorough())
	items := wprog.Items(pl, env, 3)
	r.Dim("plans", len(pl))
	seen := map[string]bool{}
	var docs, dup int64
	_ = dup
	type job struct {
		res     *wprog.Result
		choices []int
		maxOps  int
	}
	// first collect the distinct documents (same bytes => same scans)
	var jobs []job
	for _, it := range items {
		it := it
		wprog.ExploreItem(it, env, r.Expired, func(res *wprog.Result, choices []int) {
			if !res.Accepted {
				return
			}
			k := string(res.Bytes)
			if seen[k] {
				return
			}
			seen[k] = true
			jobs = append(jobs, job{res, append([]int{}, choices...), it.Plan.MaxOps})
		})
	}
	docs = int64(len(jobs))
	r.Dim("distinct_documents", docs)
	var sizes int64
	for _, j := range jobs {
		sizes += int64(len(j.res.Bytes))
	}
	r.Dim("total_bytes", sizes)
	r.Par(len(jobs), func(i int) {
		if r.Expired() {
			return
		}
		j := jobs[i]
		runCase(r, j.res, j.choices, j.maxOps, nil)
		r.DistinctS(string(j.res.Bytes))
		if r.WantSample() && j.res.NumOps >= 2 {
			r.Sample(Case{Prog: wprog.Case{Cfg: j.res.Cfg, MaxOps: j.maxOps, Choices: j.choices, Ops: j.res.Ops}, Damage: "cut", Cut: len(j.res.Bytes) / 2})
		}
	})
	return r.Finish()
}

// Replay re-executes one recorded case.
func Replay(path string) int {
	var cs Case
	if err := ev.ReplayCase(path, &cs); err != nil {
		fmt.Println("replay:", err)
		return 2
	}
	r := ev.New("C20", "quick", "fault_enumeration", time.Minute)
	r.SetReplayMode()
	if cs.Aligned != nil {
		runAligned(r, cs.Aligned.Pad, cs.Aligned)
		return r.Finish()
	}
	res := wprog.Replay(cs.Prog, env)
	if res.Accepted {
		runCase(r, res, cs.Prog.Choices, cs.Prog.MaxOps, &cs)
	}
	return r.Finish()
}
