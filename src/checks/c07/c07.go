//go:build verif

// Package c07 decides C07: what the library's stream encoders write is read
// by independent implementations of the same standards, and what independent
// encoders write is read by the library.  The parameter and input spaces are
// those of C06 (package c06); the independent side is compress/zlib,
// compress/lzw, golang.org/x/image/tiff/lzw, encoding/ascii85,
// golang.org/x/image/ccitt and the reference codecs of ref/codecs.
package c07

import (
	"bytes"
	stdlzw "compress/lzw"
	"compress/zlib"
	"encoding/hex"
	"encoding/json"
	"fmt"
	"hash/maphash"
	"io"
	"os"
	"strings"
	"sync"
	"time"

	"golang.org/x/image/ccitt"
	tifflzw "golang.org/x/image/tiff/lzw"

	"seehuhn.de/go/pdf"
	"seehuhn.de/go/pdf/zzverif/checks/c06"
	"seehuhn.de/go/pdf/zzverif/engine/ev"
	"seehuhn.de/go/pdf/zzverif/ref/codecs"
)

// Case is one replayable execution: Dir "enc" = library encoder, independent
// decoder Codec; Dir "dec" = independent encoder Codec, library decoder.
type Case struct {
	Space  string    `json:"space"`
	Filter c06.FSpec `json:"filter"`
	Dir    string    `json:"dir"`
	Codec  string    `json:"codec"`
	Data   string    `json:"data_hex"`
	Cuts   []int     `json:"write_cuts,omitempty"` // Dir "enc": the input is handed to the encoder in len(Cuts)+1 writes

	Encoded string `json:"encoded_hex,omitempty"`
	Got     string `json:"got_hex,omitempty"`
	Detail  string `json:"detail,omitempty"`
}

const v15 = pdf.V1_5

type runner struct {
	r    *ev.Run
	mu   sync.Mutex
	wit  map[string]*Case
	size map[string]int
	seed maphash.Seed
}

func clip(b []byte) string {
	if len(b) > 600 {
		return hex.EncodeToString(b[:600]) + fmt.Sprintf("...(%d bytes)", len(b))
	}
	return hex.EncodeToString(b)
}

func (rn *runner) fail(fp string, c Case, data, enc, got []byte, detail string) {
	sz := len(data)*16 + c.Filter.Cols
	rn.r.Outcome("fail:" + fp)
	rn.mu.Lock()
	w := rn.wit[fp]
	if w == nil || sz < rn.size[fp] {
		c.Data = hex.EncodeToString(data)
		c.Encoded, c.Got, c.Detail = clip(enc), clip(got), detail
		if w == nil {
			w = &Case{}
			rn.wit[fp] = w
		}
		*w = c
		rn.size[fp] = sz
	}
	rn.mu.Unlock()
	rn.r.Violation(fp, describe(fp)+" (smallest witness and its details: see the case in the replay file)", w)
}

func describe(fp string) string {
	p := strings.Split(fp, ":")
	if len(p) >= 4 && p[0] == "interop" {
		if p[2] == "enc" {
			return fmt.Sprintf("data written by the library's %s encoder is not decoded to the original by the independent decoder %s (%s)", p[1], p[3], strings.Join(p[4:], ":"))
		}
		return fmt.Sprintf("data written by the independent encoder %s is not decoded to the original by the library's %s decoder (%s)", p[3], p[1], strings.Join(p[4:], ":"))
	}
	return "filter interoperability violated, class " + fp
}

// ---------------------------------------------------------------------------
// the independent side

// indepDecode decodes enc with the independent decoder named codec.
func indepDecode(codec string, s c06.FSpec, enc []byte) ([]byte, error) {
	switch {
	case codec == "compress/zlib":
		return zlibDecompress(enc)
	case codec == "compress/lzw":
		return io.ReadAll(stdlzw.NewReader(bytes.NewReader(enc), stdlzw.MSB, 8))
	case codec == "x/image/tiff/lzw":
		return io.ReadAll(tifflzw.NewReader(bytes.NewReader(enc), tifflzw.MSB, 8))
	case codec == "ref/lzw":
		return codecs.LZWDecode(enc, s.Early)
	case codec == "encoding/ascii85":
		return codecs.A85Decode(enc)
	case codec == "ref/asciihex":
		return codecs.HexDecode(enc)
	case codec == "ref/runlength":
		return codecs.RLDecode(enc)
	case strings.HasPrefix(codec, "x/image/ccitt"):
		sf := ccitt.Group3
		if s.K < 0 {
			sf = ccitt.Group4
		}
		h := ccitt.AutoDetectHeight
		if s.Rows > 0 {
			h = s.Rows
		}
		rd := ccitt.NewReader(bytes.NewReader(enc), ccitt.MSB, sf, s.Cols, h, &ccitt.Options{Align: s.Align, Invert: s.BlackIs1})
		return io.ReadAll(rd)
	}
	return nil, fmt.Errorf("unknown independent decoder %q", codec)
}

// indepEncode encodes data with the independent encoder named codec.
func indepEncode(codec string, s c06.FSpec, data []byte) ([]byte, error) {
	switch {
	case strings.HasPrefix(codec, "compress/zlib"):
		level := zlib.DefaultCompression
		switch strings.TrimPrefix(codec, "compress/zlib") {
		case "/stored":
			level = zlib.NoCompression
		case "/speed":
			level = zlib.BestSpeed
		case "/huffman":
			level = zlib.HuffmanOnly
		}
		return zlibCompress(level, data), nil
	case codec == "compress/lzw":
		var b bytes.Buffer
		w := stdlzw.NewWriter(&b, stdlzw.MSB, 8)
		w.Write(data)
		w.Close()
		return b.Bytes(), nil
	case strings.HasPrefix(codec, "ref/lzw"):
		opt := codecs.LZWOptions{EarlyChange: s.Early}
		switch strings.TrimPrefix(codec, "ref/lzw") {
		case "/clear7":
			opt.ClearEvery = 7
		case "/clear300":
			opt.ClearEvery = 300
		case "/full-1":
			opt.FullAt = codecs.LZWMaxEntry(s.Early) - 1
		case "/noleadingclear":
			opt.NoLeadingClear = true
		}
		return codecs.LZWEncode(data, opt), nil
	case strings.HasPrefix(codec, "encoding/ascii85"):
		ll := 0
		fmt.Sscanf(strings.TrimPrefix(codec, "encoding/ascii85"), "/line%d", &ll)
		return codecs.A85Encode(data, ll), nil
	case strings.HasPrefix(codec, "ref/asciihex"):
		switch strings.TrimPrefix(codec, "ref/asciihex") {
		case "/upper":
			return codecs.HexEncode(data, true, 0, false), nil
		case "/line7":
			return codecs.HexEncode(data, false, 7, false), nil
		case "/odd":
			return codecs.HexEncode(data, true, 64, true), nil
		}
		return codecs.HexEncode(data, false, 0, false), nil
	case strings.HasPrefix(codec, "ref/runlength"):
		switch strings.TrimPrefix(codec, "ref/runlength") {
		case "/run3":
			return codecs.RLEncode(data, 3, 128), nil
		case "/lit1":
			return codecs.RLEncode(data, 2, 1), nil
		case "/run4lit127":
			return codecs.RLEncode(data, 4, 127), nil
		}
		return codecs.RLEncode(data, 2, 128), nil
	}
	return nil, fmt.Errorf("unknown independent encoder %q", codec)
}

// The standard library's zlib writers and readers are recycled: creating
// them dominates the cost of a case otherwise.
var (
	zwPools sync.Map // level -> *sync.Pool of *zlib.Writer
	zrPool  sync.Pool
)

func zlibCompress(level int, data []byte) []byte {
	pl, _ := zwPools.LoadOrStore(level, &sync.Pool{})
	pool := pl.(*sync.Pool)
	var b bytes.Buffer
	zw, _ := pool.Get().(*zlib.Writer)
	if zw == nil {
		zw, _ = zlib.NewWriterLevel(&b, level)
	} else {
		zw.Reset(&b)
	}
	zw.Write(data)
	zw.Close()
	pool.Put(zw)
	return b.Bytes()
}

func zlibDecompress(enc []byte) ([]byte, error) {
	var zr io.ReadCloser
	if x := zrPool.Get(); x != nil {
		zr = x.(io.ReadCloser)
		if err := zr.(zlib.Resetter).Reset(bytes.NewReader(enc), nil); err != nil {
			return nil, err
		}
	} else {
		var err error
		if zr, err = zlib.NewReader(bytes.NewReader(enc)); err != nil {
			return nil, err
		}
	}
	out, err := io.ReadAll(zr)
	if err == nil {
		zrPool.Put(zr)
	}
	return out, err
}

func predParams(s c06.FSpec) codecs.PredParams {
	_, colors, bpc, cols := s.Eff()
	return codecs.PredParams{Colors: colors, BPC: bpc, Columns: cols}
}

// pngPick returns the per-row filter type choice named by codec suffix.
func pngPick(name string) func(int) int {
	switch name {
	case "none":
		return func(int) int { return codecs.PNGNone }
	case "sub":
		return func(int) int { return codecs.PNGSub }
	case "up":
		return func(int) int { return codecs.PNGUp }
	case "average":
		return func(int) int { return codecs.PNGAverage }
	case "paeth":
		return func(int) int { return codecs.PNGPaeth }
	}
	return func(r int) int { return (r*3 + 4) % 5 } // 4 2 0 3 1 ..
}

var pngNames = []string{"none", "sub", "up", "average", "paeth", "mix"}

// compressor/decompressor below the predictor on the independent side
func (rn *runner) indepUncompress(s c06.FSpec, enc []byte) ([]byte, string, error) {
	if s.Kind == "LZW" {
		out, err := codecs.LZWDecode(enc, s.Early)
		return out, "ref/lzw", err
	}
	out, err := indepDecode("compress/zlib", s, enc)
	return out, "compress/zlib", err
}

func indepCompress(s c06.FSpec, data []byte) ([]byte, string) {
	if s.Kind == "LZW" {
		return codecs.LZWEncode(data, codecs.LZWOptions{EarlyChange: s.Early}), "ref/lzw"
	}
	out, _ := indepEncode("compress/zlib/speed", s, data)
	return out, "compress/zlib"
}

// ---------------------------------------------------------------------------
// oracles

func symptom(want, got []byte, err error) string {
	switch {
	case err != nil:
		return "error"
	case len(got) < len(want) && bytes.Equal(got, want[:len(got)]):
		return "truncated"
	case len(got) > len(want) && bytes.Equal(got[:len(want)], want):
		return "extra-output"
	}
	return "differs"
}

func filterClass(s c06.FSpec) string {
	switch s.Kind {
	case "LZW":
		return fmt.Sprintf("LZW,EarlyChange=%d", map[bool]int{false: 0, true: 1}[s.Early])
	case "CCITT":
		g := "Group3-1D"
		if s.K < 0 {
			g = "Group4"
		}
		return fmt.Sprintf("CCITTFax,%s,EncodedByteAlign=%v,EndOfBlock=%v", g, s.Align, !s.NoEOB)
	}
	return s.Kind
}

// libEncode encodes with the library; ok is false when the parameters are
// rejected (pruned) - an encoding error on accepted parameters is C06's
// business and is reported there.
func libEncode(s c06.FSpec, data []byte, cuts []int) ([]byte, bool) {
	enc, _, _, rejected, err := c06.Encode(v15, s.Filter(), data, c06.Chunking{Cuts: cuts})
	if rejected || err != nil {
		return nil, false
	}
	return enc, true
}

// encSide: library encoder -> independent decoder codec.
func (rn *runner) encSide(space string, s c06.FSpec, codec string, data []byte) {
	rn.encSideCut(space, s, codec, data, nil)
}

// encSideCut is encSide with the input handed to the encoder in several writes.
func (rn *runner) encSideCut(space string, s c06.FSpec, codec string, data []byte, cuts []int) {
	r := rn.r
	r.Eval(1)
	enc, ok := libEncode(s, data, cuts)
	if !ok {
		r.Outcome("pruned:library-rejects")
		return
	}
	got, err := indepDecode(codec, s, enc)
	if err == nil && bytes.Equal(got, data) {
		r.Outcome("ok:enc:" + codec)
		return
	}
	fp := fmt.Sprintf("interop:%s:enc:%s:%s", filterClass(s), codec, symptom(data, got, err))
	if len(cuts) > 0 {
		fp += ":chunked-writes"
	}
	rn.fail(fp, Case{Space: space, Filter: s, Dir: "enc", Codec: codec, Cuts: cuts}, data, enc, got,
		fmt.Sprintf("%s encodes %d bytes to %d bytes; %s decodes them to %d bytes (%v), first difference at %d", s, len(data), len(enc), codec, len(got), err, firstDiff(got, data)))
}

// decSide: independent encoder codec -> library decoder.
func (rn *runner) decSide(space string, s c06.FSpec, codec string, data []byte) {
	r := rn.r
	r.Eval(1)
	enc, err := indepEncode(codec, s, data)
	if err != nil {
		r.Infra("independent encoder " + codec + ": " + err.Error())
		return
	}
	rn.libDecodes(space, s, codec, data, enc)
}

func (rn *runner) libDecodes(space string, s c06.FSpec, codec string, data, enc []byte) {
	r := rn.r
	got, err := c06.Decode(v15, s.Filter(), enc, 0, 2*len(data)+4096)
	if err == nil && bytes.Equal(got, data) {
		r.Outcome("ok:dec:" + codec)
		return
	}
	cl := strings.SplitN(codec, "/line", 2)[0]
	fp := fmt.Sprintf("interop:%s:dec:%s:%s", filterClass(s), cl, symptom(data, got, err))
	rn.fail(fp, Case{Space: space, Filter: s, Dir: "dec", Codec: codec}, data, enc, got,
		fmt.Sprintf("%s encodes %d bytes to %d bytes; the library's %s decodes them to %d bytes (%v), first difference at %d", codec, len(data), len(enc), s, len(got), err, firstDiff(got, data)))
}

// predEncSide: library (compressor + predictor) -> independent decompressor
// -> reference predictor decoder.
func (rn *runner) predEncSide(space string, s c06.FSpec, data []byte) {
	r := rn.r
	r.Eval(1)
	enc, ok := libEncode(s, data, nil)
	if !ok {
		r.Outcome("pruned:library-rejects")
		return
	}
	raw, zname, err := rn.indepUncompress(s, enc)
	pp := predParams(s)
	var got []byte
	codec := zname + "+ref/png"
	if err == nil {
		if s.Pred == 2 {
			codec = zname + "+ref/tiff"
			got, err = codecs.TIFFDecode(raw, pp)
		} else {
			got, err = codecs.PNGDecode(raw, pp)
		}
	}
	if err == nil && bytes.Equal(got, data) {
		r.Outcome("ok:enc:" + codec)
		return
	}
	_, _, bpc, _ := s.Eff()
	fp := fmt.Sprintf("interop:%s+Predictor=%d,BitsPerComponent=%d:enc:%s:%s", filterClass(s), s.Pred, bpc, codec, symptom(data, got, err))
	rn.fail(fp, Case{Space: space, Filter: s, Dir: "enc", Codec: codec}, data, enc, got,
		fmt.Sprintf("%s encodes %d bytes; after independent decompression (%d bytes: %s) the reference predictor decoder gives %d bytes (%v), first difference at %d", s, len(data), len(raw), clip(raw), len(got), err, firstDiff(got, data)))
}

// predDecSide: reference predictor encoder (filter choice alg for PNG) ->
// independent compressor -> library.
func (rn *runner) predDecSide(space string, s c06.FSpec, alg string, data []byte) {
	r := rn.r
	r.Eval(1)
	pp := predParams(s)
	var filtered []byte
	var err error
	codec := "ref/tiff"
	if s.Pred == 2 {
		filtered, err = codecs.TIFFEncode(data, pp)
	} else {
		codec = "ref/png/" + alg
		filtered, err = codecs.PNGEncode(data, pp, pngPick(alg))
	}
	if err != nil {
		r.Infra("reference predictor: " + err.Error())
		return
	}
	enc, zname := indepCompress(s, filtered)
	codec += "+" + zname
	got, err := c06.Decode(v15, s.Filter(), enc, 0, 2*len(data)+4096)
	if err == nil && bytes.Equal(got, data) {
		r.Outcome("ok:dec:" + codec)
		return
	}
	_, _, bpc, _ := s.Eff()
	fp := fmt.Sprintf("interop:%s+Predictor=%d,BitsPerComponent=%d:dec:%s:%s", filterClass(s), s.Pred, bpc, codec, symptom(data, got, err))
	rn.fail(fp, Case{Space: space, Filter: s, Dir: "dec", Codec: codec}, data, enc, got,
		fmt.Sprintf("reference predictor output %s, compressed with %s; the library's %s decodes it to %d bytes (%v), want %d, first difference at %d", clip(filtered), zname, s, len(got), err, len(data), firstDiff(got, data)))
}

func firstDiff(a, b []byte) int {
	n := min(len(a), len(b))
	for i := 0; i < n; i++ {
		if a[i] != b[i] {
			return i
		}
	}
	return n
}

func (rn *runner) distinct(parts ...any) {
	var h maphash.Hash
	h.SetSeed(rn.seed)
	for _, p := range parts {
		switch x := p.(type) {
		case []byte:
			h.Write(x)
		case string:
			h.WriteString(x)
		default:
			fmt.Fprint(&h, x)
		}
		h.WriteByte(0)
	}
	rn.r.DistinctU(h.Sum64())
}

func only(space string) bool {
	sel := os.Getenv("VERIF_ONLY")
	if sel == "" {
		return true
	}
	for _, s := range strings.Split(sel, ",") {
		if s == space {
			return true
		}
	}
	return false
}

// ---------------------------------------------------------------------------

// Run is the check.
func Run(tier string) int {
	budget := 4 * time.Minute
	if tier == "thorough" {
		budget = 25 * time.Minute
	}
	r := ev.New("C07", tier, "exploration", budget)
	rn := &runner{r: r, wit: map[string]*Case{}, size: map[string]int{}, seed: maphash.MakeSeed()}
	r.Rule("one execution = one (filter parameters, input, direction, independent codec) tuple: either Filter.Encode of the real code followed by an independent decoder, or an independent encoder followed by Filter.Decode of the real code; distinct = distinct (parameter set, input) pairs with a non-empty input")
	r.Assume(
		"independent side: compress/zlib, compress/lzw (EarlyChange 0), golang.org/x/image/tiff/lzw (EarlyChange 1, decoder), encoding/ascii85, golang.org/x/image/ccitt (decoder; Group 3 1-D with EndOfLine, Group 4) and ref/codecs (LZW both variants, RunLength, ASCIIHex, PNG and TIFF predictors), which are self-tested against the standard library and x/image at start-up",
		"no independent CCITTFax encoder and no independent Group 3 2-D decoder is available offline: those directions are not covered",
		"inputs and parameter sets are those of C06; parameter sets rejected by the library are pruned",
	)
	if os.Getenv("VERIF_ONLY") != "" {
		r.Capped("VERIF_ONLY=" + os.Getenv("VERIF_ONLY") + " selects a subset of the spaces")
	}
	if err := codecs.SelfTest(); err != nil {
		r.Infra(err.Error())
		return r.Finish()
	}
	for _, k := range r.KnownWitnesses() {
		var c Case
		if json.Unmarshal(k.Witness, &c) == nil {
			rn.replay(&c)
		}
	}
	if only("lzw") {
		rn.lzwSpace()
	}
	if only("flate") {
		rn.flateSpace()
	}
	if only("ascii") {
		rn.asciiSpace()
	}
	if only("predictor") {
		rn.predictorSpace()
	}
	if only("ccitt") {
		rn.ccittSpace()
	}
	if only("chunks") {
		rn.chunkSpace()
	}
	if only("wide") {
		rn.wideSpace()
	}
	return r.Finish()
}

var lzwEncoders = []string{"ref/lzw", "ref/lzw/clear7", "ref/lzw/clear300", "ref/lzw/full-1", "ref/lzw/noleadingclear"}

func (rn *runner) lzwOne(space string, data []byte, all bool) {
	for _, early := range []bool{false, true} {
		s := c06.FSpec{Kind: "LZW", Early: early}
		rn.encSide(space, s, "ref/lzw", data)
		if early {
			rn.encSide(space, s, "x/image/tiff/lzw", data)
		} else {
			rn.encSide(space, s, "compress/lzw", data)
			rn.decSide(space, s, "compress/lzw", data)
		}
		for i, e := range lzwEncoders {
			if i > 0 && !all {
				break
			}
			rn.decSide(space, s, e, data)
		}
	}
}

func (rn *runner) lzwSpace() {
	r := rn.r
	gens := ev.Pick(r, []string{"nopair", "lcg4"}, []string{"nopair", "lcg", "lcg4", "period3", "zeros"})
	maxLen := ev.Pick(r, 4200, 8200)
	maxShort := ev.Pick(r, 7, 9)
	alpha := []byte{0x00, 0x01, 0xFF}
	var short [][]byte
	for n := 0; n <= maxShort; n++ {
		c06.AllStrings(alpha, n, func(s []byte) { short = append(short, append([]byte{}, s...)) })
	}
	boundary := map[int]bool{}
	for _, n := range c06.LZWBoundaryLengths(6) {
		boundary[n] = true
	}
	r.Dim("lzw_space", map[string]any{
		"generators": gens, "lengths": fmt.Sprintf("every length 0..%d", maxLen), "EarlyChange": []int{0, 1},
		"library_encoder_read_by": []string{"ref/lzw", "compress/lzw (EarlyChange 0)", "x/image/tiff/lzw (EarlyChange 1)"},
		"library_decoder_reads":   append([]string{"compress/lzw (EarlyChange 0)"}, lzwEncoders...),
		"encoder_variants":        "all five reference encoder variants at the code-width boundary lengths +-6 and for the short strings, the plain one elsewhere",
		"short_strings":           fmt.Sprintf("all strings over {00,01,FF} up to %d bytes: %d", maxShort, len(short)),
	})
	r.Sample(Case{Space: "lzw", Filter: c06.FSpec{Kind: "LZW", Early: true}, Dir: "enc", Codec: "x/image/tiff/lzw", Data: "gen:nopair:767"})
	type job struct {
		gen string
		n   int
	}
	var jobs []job
	for _, g := range gens {
		for n := 0; n <= maxLen; n++ {
			jobs = append(jobs, job{g, n})
		}
	}
	r.Par(len(jobs), func(i int) {
		if r.Expired() {
			return
		}
		j := jobs[i]
		rn.lzwOne("lzw", c06.Gen(j.gen, j.n), boundary[j.n])
		if j.n > 0 {
			rn.distinct("l", j.gen, j.n)
		}
	})
	r.Par(len(short), func(i int) {
		if r.Expired() {
			return
		}
		rn.lzwOne("lzw", short[i], true)
		if len(short[i]) > 0 {
			rn.distinct("ls", short[i])
		}
	})
}

var zlibEncoders = []string{"compress/zlib", "compress/zlib/stored", "compress/zlib/speed", "compress/zlib/huffman"}

func (rn *runner) flateSpace() {
	r := rn.r
	maxShort := ev.Pick(r, 5, 6)
	var inputs [][]byte
	for n := 0; n <= maxShort; n++ {
		c06.AllStrings(c06.RowAlphabet, n, func(s []byte) { inputs = append(inputs, append([]byte{}, s...)) })
	}
	step := ev.Pick(r, 16, 4)
	gens := []string{"nopair", "lcg", "lcg4", "zeros"}
	for _, g := range gens {
		for n := maxShort + 1; n <= 4200; n += step {
			inputs = append(inputs, c06.Gen(g, n))
		}
		for _, n := range []int{32767, 32768, 32769, 65535, 65536, 65537, 70000} {
			inputs = append(inputs, c06.Gen(g, n)) // window size, stored-block limit
		}
	}
	r.Dim("flate_space", map[string]any{
		"short_strings": fmt.Sprintf("all strings over %x up to %d bytes", c06.RowAlphabet, maxShort), "generators": gens,
		"lengths": fmt.Sprintf("every %dth length up to 4200, and 32767..32769, 65535..65537, 70000", step), "inputs": len(inputs),
		"library_encoder_read_by": "compress/zlib", "library_decoder_reads": zlibEncoders,
	})
	r.Sample(Case{Space: "flate", Filter: c06.FSpec{Kind: "Flate"}, Dir: "dec", Codec: "compress/zlib/huffman", Data: hex.EncodeToString(inputs[999])})
	s := c06.FSpec{Kind: "Flate"}
	r.Par(len(inputs), func(i int) {
		if r.Expired() {
			return
		}
		rn.encSide("flate", s, "compress/zlib", inputs[i])
		for _, e := range zlibEncoders {
			rn.decSide("flate", s, e, inputs[i])
		}
		if len(inputs[i]) > 0 {
			rn.distinct("f", inputs[i])
		}
	})
}

func (rn *runner) asciiSpace() {
	r := rn.r
	maxA := ev.Pick(r, 5, 6)
	maxRL := ev.Pick(r, 9, 11)
	maxLen := ev.Pick(r, 700, 1400)
	inputs := c06.AsciiInputs(maxA, maxRL, maxLen)
	d := c06.AsciiDim(maxA, maxRL, maxLen, len(inputs))
	d["independent_encoders"] = []string{"encoding/ascii85 with line lengths 0, 1, 5, 80", "ref/asciihex: lower, upper, 7-digit lines, odd final digit", "ref/runlength: shortest run 2/3/4, longest literal 128/1/127"}
	r.Dim("ascii_space", d)
	r.Sample(Case{Space: "ascii", Filter: c06.FSpec{Kind: "RL"}, Dir: "dec", Codec: "ref/runlength/lit1", Data: hex.EncodeToString(inputs[5000])})
	r.Par(len(inputs), func(i int) {
		if r.Expired() {
			return
		}
		d := inputs[i]
		a85, ahx, rl := c06.FSpec{Kind: "A85"}, c06.FSpec{Kind: "AHx"}, c06.FSpec{Kind: "RL"}
		rn.encSide("ascii", a85, "encoding/ascii85", d)
		for _, e := range []string{"encoding/ascii85", "encoding/ascii85/line1", "encoding/ascii85/line5", "encoding/ascii85/line80"} {
			rn.decSide("ascii", a85, e, d)
		}
		rn.encSide("ascii", ahx, "ref/asciihex", d)
		for _, e := range []string{"ref/asciihex", "ref/asciihex/upper", "ref/asciihex/line7", "ref/asciihex/odd"} {
			rn.decSide("ascii", ahx, e, d)
		}
		rn.encSide("ascii", rl, "ref/runlength", d)
		for _, e := range []string{"ref/runlength", "ref/runlength/run3", "ref/runlength/lit1", "ref/runlength/run4lit127"} {
			rn.decSide("ascii", rl, e, d)
		}
		if len(d) > 0 {
			rn.distinct("a", d)
		}
	})
}

func (rn *runner) predictorSpace() {
	r := rn.r
	maxExh := ev.Pick(r, 4, 5)
	var specs []c06.FSpec
	for _, s := range c06.PredictorSpecs() {
		if s.Kind == "Compress" || !s.UsesPredictor() {
			continue
		}
		if s.Kind == "LZW" && !s.Early {
			// the predictor does not depend on the compressor: LZW (EarlyChange 1)
			// only
			continue
		}
		if _, _, err := s.Filter().Info(v15); err != nil {
			continue
		}
		specs = append(specs, s)
	}
	r.Dim("predictor_space", map[string]any{
		"Predictor": []int{2, 10, 11, 12, 13, 14, 15}, "Colors": c06.ColorsAlphabet, "BitsPerComponent": c06.BPCAlphabet, "Columns": c06.ColsAlphabet,
		"accepted_parameter_sets": len(specs), "rows": []int{0, 1, 2, 3}, "row_alphabet_hex": hex.EncodeToString(c06.RowAlphabet), "exhaustive_up_to_bytes": maxExh, "patterns": c06.PatternNames,
		"library_encoder_read_by": "compress/zlib (or ref/lzw) + ref PNG/TIFF predictor decoder",
		"library_decoder_reads":   "ref PNG encoder with the filter type named by /Predictor and with a per-row mix (all five and the mix for Predictor 15), ref TIFF encoder; compressed with compress/zlib (or ref/lzw)",
	})
	r.Sample(Case{Space: "predictor", Filter: c06.FSpec{Kind: "Flate", Pred: 14, Colors: 3, BPC: 16, Cols: 2}, Dir: "dec", Codec: "ref/png/paeth+compress/zlib", Data: hex.EncodeToString(c06.Pattern("paethTies", 2, 12))})
	r.Par(len(specs), func(i int) {
		s := specs[i]
		rb := s.RowBytes()
		_, colors, bpc, cols := s.Eff()
		var algs []string
		switch {
		case s.Pred == 2:
			algs = []string{"tiff"}
		case s.Pred == 15:
			algs = pngNames
		default:
			algs = []string{pngNames[s.Pred-10], "mix"}
		}
		c06.PredictorData(rb, maxExh, func(data []byte) {
			if r.Expired() {
				return
			}
			if s.Pred == 2 {
				d := append([]byte{}, data...)
				c06.MaskPadding(d, rb, colors*bpc*cols)
				data = d
			}
			rn.predEncSide("predictor", s, data)
			for _, a := range algs {
				rn.predDecSide("predictor", s, a, data)
			}
			if len(data) > 0 {
				rn.distinct("p", i, data)
			}
		})
	})
}

func (rn *runner) ccittSpace() {
	r := rn.r
	var dims []string
	var bitmaps []c06.Bitmap
	for _, sp := range c06.CCITTSpaces(r.Thorough()) {
		b := sp.Bitmaps()
		dims = append(dims, fmt.Sprintf("%s: %d bitmaps", sp.String(), len(b)))
		bitmaps = append(bitmaps, b...)
	}
	r.Dim("ccitt_space", map[string]any{
		"bitmap_families": dims, "bitmaps": len(bitmaps),
		"parameter_sets": "Group 3 1-D: K=0, EndOfLine=true, EncodedByteAlign=false; Group 4: K=-1, EndOfLine=false, EncodedByteAlign in {false,true}; each with BlackIs1 in {false,true} and (EndOfBlock, Rows) in {(true, absent), (true, exact), (false, exact)}",
		"decoder":        "golang.org/x/image/ccitt (MSB order; Invert = BlackIs1; Align = EncodedByteAlign; height = Rows or auto-detect)",
	})
	r.Sample(Case{Space: "ccitt", Filter: c06.FSpec{Kind: "CCITT", K: -1, Cols: 4, Rows: 2}, Dir: "enc", Codec: "x/image/ccitt", Data: "60f0"})
	r.Par(len(bitmaps), func(i int) {
		if r.Expired() {
			return
		}
		b := bitmaps[i]
		if b.Rows == 0 {
			return
		}
		for _, g := range []c06.FSpec{{Kind: "CCITT", K: 0, EOL: true}, {Kind: "CCITT", K: -1}, {Kind: "CCITT", K: -1, Align: true}} {
			for _, blackIs1 := range []bool{false, true} {
				for m := 0; m < 3; m++ {
					s := g
					s.Cols, s.BlackIs1 = b.Cols, blackIs1
					switch m {
					case 1:
						s.Rows = b.Rows
					case 2:
						s.Rows, s.NoEOB = b.Rows, true
					}
					rn.encSide("ccitt", s, "x/image/ccitt", b.Data)
				}
			}
		}
		rn.distinct("c", b.Cols, b.Data)
	})
}

// wideSpace: C06's long runs and wide CCITT rows against the independent codecs,
// and the independent encoders' output read through small buffers.
func (rn *runner) wideSpace() {
	r := rn.r
	lens := c06.LongRunLengths(r.Thorough())
	wide := c06.WideRows()
	r.Dim("wide_space", map[string]any{
		"long_runs":       fmt.Sprintf("one byte repeated n times, %d lengths around the powers of two up to %d and 5 000 000: library LZW / Flate / RunLength encoder -> independent decoder and back", len(lens), lens[len(lens)-2]),
		"wide_ccitt_rows": fmt.Sprintf("%d two-row bitmaps whose runs sit on the make-up code boundaries: library encoder (Group 3 1-D with EndOfLine, Group 4) -> x/image/ccitt", len(wide)),
		"small_reads":     "ASCII85 / ASCIIHex / RunLength / LZW data from the independent encoders, read from the library decoder with buffers of 1, 2, 3, 5 and 7 bytes, inputs of length 0..12",
	})
	r.Par(len(lens), func(i int) {
		if r.Expired() {
			return
		}
		data := bytes.Repeat([]byte{0x5a}, lens[i])
		rn.encSide("wide", c06.FSpec{Kind: "LZW", Early: true}, "ref/lzw", data)
		rn.encSide("wide", c06.FSpec{Kind: "LZW"}, "ref/lzw", data)
		rn.decSide("wide", c06.FSpec{Kind: "LZW", Early: true}, "ref/lzw", data)
		rn.encSide("wide", c06.FSpec{Kind: "Flate"}, "compress/zlib", data)
		rn.encSide("wide", c06.FSpec{Kind: "RL"}, "ref/runlength", data)
		rn.decSide("wide", c06.FSpec{Kind: "RL"}, "ref/runlength", data)
		rn.distinct("wl", lens[i])
	})
	r.Par(len(wide), func(i int) {
		if r.Expired() {
			return
		}
		b := wide[i]
		for _, g := range []c06.FSpec{{Kind: "CCITT", K: 0, EOL: true}, {Kind: "CCITT", K: -1}} {
			for _, bi1 := range []bool{false, true} {
				s := g
				s.Cols, s.BlackIs1 = b.Cols, bi1
				rn.encSide("wide", s, "x/image/ccitt", b.Data)
			}
		}
		rn.distinct("ww", b.Cols, b.Data)
	})
	// small read buffers on the decoder side
	type dj struct {
		s     c06.FSpec
		codec string
	}
	djs := []dj{{c06.FSpec{Kind: "A85"}, "encoding/ascii85"}, {c06.FSpec{Kind: "AHx"}, "ref/asciihex"}, {c06.FSpec{Kind: "RL"}, "ref/runlength"}, {c06.FSpec{Kind: "LZW", Early: true}, "ref/lzw"}}
	for n := 0; n <= 12; n++ {
		data := c06.Pattern("ramp", 1, n)
		for _, j := range djs {
			enc, err := indepEncode(j.codec, j.s, data)
			if err != nil {
				r.Infra("independent encoder " + j.codec + ": " + err.Error())
				return
			}
			for _, rbuf := range []int{1, 2, 3, 5, 7} {
				r.Eval(1)
				got, err := c06.Decode(v15, j.s.Filter(), enc, rbuf, 2*len(data)+4096)
				if err == nil && bytes.Equal(got, data) {
					r.Outcome("ok:dec:small-reads")
					continue
				}
				fp := fmt.Sprintf("interop:%s:dec:%s:%s:small-read-buffer", filterClass(j.s), strings.SplitN(j.codec, "/line", 2)[0], symptom(data, got, err))
				rn.fail(fp, Case{Space: "wide", Filter: j.s, Dir: "dec", Codec: j.codec}, data, enc, got,
					fmt.Sprintf("%s encodes %d bytes to %d bytes; the library's %s, read %d bytes at a time, decodes them to %d bytes (%v)", j.codec, len(data), len(enc), j.s, rbuf, len(got), err))
			}
		}
	}
}

// chunkSpace: the library encoders fed in several writes (every way of cutting
// a short input into at most three writes, through a transfer buffer that is
// overwritten after each call), judged by the independent decoders.
func (rn *runner) chunkSpace() {
	r := rn.r
	maxBytes := ev.Pick(r, 6, 8)
	type job struct {
		s     c06.FSpec
		codec string
		data  []byte
	}
	var jobs []job
	for n := 1; n <= maxBytes; n++ {
		for _, p := range []string{"ramp", "paethTies"} {
			d := c06.Pattern(p, 1, n)
			jobs = append(jobs,
				job{c06.FSpec{Kind: "A85"}, "encoding/ascii85", d},
				job{c06.FSpec{Kind: "AHx"}, "ref/asciihex", d},
				job{c06.FSpec{Kind: "RL"}, "ref/runlength", d},
				job{c06.FSpec{Kind: "RL"}, "ref/runlength", bytes.Repeat([]byte{7}, n)},
				job{c06.FSpec{Kind: "Flate"}, "compress/zlib", d},
				job{c06.FSpec{Kind: "LZW", Early: true}, "ref/lzw", d},
				job{c06.FSpec{Kind: "LZW"}, "ref/lzw", d},
			)
		}
	}
	nb := 0
	for _, sp := range c06.CCITTSpaces(false) {
		for _, b := range sp.Bitmaps() {
			if b.Rows < 2 || len(b.Data) > maxBytes || b.Cols < 9 {
				continue // one byte per row: every cut is row-aligned
			}
			nb++
			for _, g := range []c06.FSpec{{Kind: "CCITT", K: 0, EOL: true}, {Kind: "CCITT", K: -1}} {
				g.Cols = b.Cols
				jobs = append(jobs, job{g, "x/image/ccitt", b.Data})
			}
		}
	}
	r.Dim("chunk_space", map[string]any{
		"cuts":   "every way to cut the input into <= 3 writes (empty writes included), each write through a transfer buffer that is overwritten when the call returns",
		"inputs": fmt.Sprintf("2 patterns x lengths 1..%d for ASCII85, ASCIIHex, RunLength (+ one run), Flate, LZW (both EarlyChange values); %d bitmaps of >= 2 rows, >= 9 columns and <= %d bytes for CCITTFax Group 3 1-D and Group 4", maxBytes, nb, maxBytes),
	})
	r.Par(len(jobs), func(i int) {
		if r.Expired() {
			return
		}
		j := jobs[i]
		for _, cut := range c06.AllCuts(len(j.data))[1:] {
			rn.encSideCut("chunks", j.s, j.codec, j.data, cut)
		}
		rn.distinct("k", j.s.Kind, j.s.K, j.s.Early, j.s.Cols, j.data)
	})
}

// ---------------------------------------------------------------------------

func (rn *runner) replay(c *Case) error {
	var data []byte
	var err error
	if strings.HasPrefix(c.Data, "gen:") {
		p := strings.Split(c.Data, ":")
		n := 0
		if len(p) == 3 {
			fmt.Sscan(p[2], &n)
		}
		if len(p) != 3 || codecs.TestData[p[1]] == nil {
			return fmt.Errorf("bad generator reference %q", c.Data)
		}
		data = c06.Gen(p[1], n)
	} else if data, err = hex.DecodeString(c.Data); err != nil {
		return err
	}
	switch {
	case c.Filter.UsesPredictor() && c.Dir == "enc":
		rn.predEncSide(c.Space, c.Filter, data)
	case c.Filter.UsesPredictor():
		alg := "mix"
		for _, n := range pngNames {
			if strings.Contains(c.Codec, "ref/png/"+n) {
				alg = n
			}
		}
		rn.predDecSide(c.Space, c.Filter, alg, data)
	case c.Dir == "enc":
		rn.encSideCut(c.Space, c.Filter, c.Codec, data, c.Cuts)
	default:
		rn.decSide(c.Space, c.Filter, c.Codec, data)
	}
	return nil
}

// Replay re-executes the case of a replay file.
func Replay(path string) int {
	var c Case
	if err := ev.ReplayCase(path, &c); err != nil {
		fmt.Println("replay:", err)
		return 2
	}
	r := ev.New("C07", "quick", "exploration", time.Minute)
	r.SetReplayMode()
	rn := &runner{r: r, wit: map[string]*Case{}, size: map[string]int{}, seed: maphash.MakeSeed()}
	if err := rn.replay(&c); err != nil {
		fmt.Println("replay:", err)
		return 2
	}
	for fp, w := range rn.wit {
		fmt.Printf("replayed: %s\n  %s\n", fp, w.Detail)
	}
	return r.Finish()
}
