//go:build verif

package c15

import (
	"crypto/sha256"
	"fmt"
	"sort"
	"strings"
	"sync"

	"seehuhn.de/go/geom/matrix"
	"seehuhn.de/go/pdf"
	"seehuhn.de/go/pdf/font"
	"seehuhn.de/go/pdf/font/standard"
	"seehuhn.de/go/pdf/graphics"
	"seehuhn.de/go/pdf/graphics/color"
	"seehuhn.de/go/pdf/graphics/content"
	"seehuhn.de/go/pdf/graphics/content/builder"
	"seehuhn.de/go/pdf/property"
	"seehuhn.de/go/pdf/zzverif/engine/ev"
)

// env holds the argument objects of the Builder calls (per worker: a font
// instance is not meant to be shared between goroutines).
type env struct {
	font    font.Instance
	bmc     *graphics.MarkedContent
	bdc     *graphics.MarkedContent
	mp      *graphics.MarkedContent
	imgDict pdf.Dict
}

func newEnv() *env {
	F, err := standard.Helvetica.New()
	if err != nil {
		panic(err)
	}
	return &env{
		font:    F,
		bmc:     &graphics.MarkedContent{Tag: "Span"},
		bdc:     &graphics.MarkedContent{Tag: "P", Properties: &property.ActualText{Text: "a(b", SingleUse: true}, Inline: true},
		mp:      &graphics.MarkedContent{Tag: "Pt"},
		imgDict: pdf.Dict{"W": pdf.Integer(2), "H": pdf.Integer(1), "BPC": pdf.Integer(8), "CS": pdf.Name("G")},
	}
}

var envPool = sync.Pool{New: func() any { return newEnv() }}

type call struct {
	name string
	do   func(b *builder.Builder, e *env)
}

// calls is the alphabet of Builder calls (fixed arguments, all different
// from the initial graphics state so that setters are not elided the first
// time).
var calls = []call{
	{"PushGraphicsState", func(b *builder.Builder, e *env) { b.PushGraphicsState() }},
	{"PopGraphicsState", func(b *builder.Builder, e *env) { b.PopGraphicsState() }},
	{"Transform", func(b *builder.Builder, e *env) { b.Transform(matrix.Translate(1, 2)) }},
	{"SetLineWidth(2)", func(b *builder.Builder, e *env) { b.SetLineWidth(2) }},
	{"SetLineCap(1)", func(b *builder.Builder, e *env) { b.SetLineCap(1) }},
	{"SetLineDash([3 1] 0)", func(b *builder.Builder, e *env) { b.SetLineDash([]float64{3, 1}, 0) }},
	{"SetStrokeColor(gray .5)", func(b *builder.Builder, e *env) { b.SetStrokeColor(color.DeviceGray(0.5)) }},
	{"SetFillColor(rgb 1 0 0)", func(b *builder.Builder, e *env) { b.SetFillColor(color.DeviceRGB{1, 0, 0}) }},
	{"MoveTo", func(b *builder.Builder, e *env) { b.MoveTo(0, 0) }},
	{"LineTo", func(b *builder.Builder, e *env) { b.LineTo(10, 0) }},
	{"CurveTo", func(b *builder.Builder, e *env) { b.CurveTo(1, 1, 2, 3, 4, 0) }},
	{"ClosePath", func(b *builder.Builder, e *env) { b.ClosePath() }},
	{"Rectangle", func(b *builder.Builder, e *env) { b.Rectangle(0, 0, 5, 5) }},
	{"Stroke", func(b *builder.Builder, e *env) { b.Stroke() }},
	{"Fill", func(b *builder.Builder, e *env) { b.Fill() }},
	{"CloseFillAndStrokeEvenOdd", func(b *builder.Builder, e *env) { b.CloseFillAndStrokeEvenOdd() }},
	{"EndPath", func(b *builder.Builder, e *env) { b.EndPath() }},
	{"ClipNonZero", func(b *builder.Builder, e *env) { b.ClipNonZero() }},
	{"ClipEvenOdd", func(b *builder.Builder, e *env) { b.ClipEvenOdd() }},
	{"TextBegin", func(b *builder.Builder, e *env) { b.TextBegin() }},
	{"TextEnd", func(b *builder.Builder, e *env) { b.TextEnd() }},
	{"TextSetFont", func(b *builder.Builder, e *env) { b.TextSetFont(e.font, 12) }},
	{"TextSetLeading(14)", func(b *builder.Builder, e *env) { b.TextSetLeading(14) }},
	{"TextSetCharacterSpacing(1)", func(b *builder.Builder, e *env) { b.TextSetCharacterSpacing(1) }},
	{"TextFirstLine", func(b *builder.Builder, e *env) { b.TextFirstLine(10, 20) }},
	{"TextSetMatrix", func(b *builder.Builder, e *env) { b.TextSetMatrix(matrix.Scale(2, 2)) }},
	{"TextNextLine", func(b *builder.Builder, e *env) { b.TextNextLine() }},
	{"TextShowRaw", func(b *builder.Builder, e *env) { b.TextShowRaw(pdf.String("A(\r")) }},
	{"TextShowNextLineRaw", func(b *builder.Builder, e *env) { b.TextShowNextLineRaw(pdf.String("B")) }},
	{"TextShowSpacedRaw", func(b *builder.Builder, e *env) { b.TextShowSpacedRaw(1, 2, pdf.String("C D")) }},
	{"TextShowKernedRaw", func(b *builder.Builder, e *env) {
		b.TextShowKernedRaw(pdf.String("A"), pdf.Integer(-50), pdf.String("V"), pdf.Real(12.5))
	}},
	{"MarkedContentStart(BMC)", func(b *builder.Builder, e *env) { b.MarkedContentStart(e.bmc) }},
	{"MarkedContentStart(BDC inline)", func(b *builder.Builder, e *env) { b.MarkedContentStart(e.bdc) }},
	{"MarkedContentEnd", func(b *builder.Builder, e *env) { b.MarkedContentEnd() }},
	{"MarkedContentPoint", func(b *builder.Builder, e *env) { b.MarkedContentPoint(e.mp) }},
	{"DrawInlineImageRaw", func(b *builder.Builder, e *env) { b.DrawInlineImageRaw(e.imgDict, []byte{0, 0xff}) }},
	{"DrawInlineImageRaw(data a LF EI SP)", func(b *builder.Builder, e *env) { b.DrawInlineImageRaw(e.imgDict, []byte("a\nEI ")) }},
}

// BuilderCase is the replayable form of a Builder history.
type BuilderCase struct {
	Version string   `json:"version"`
	Calls   []int    `json:"calls"`
	Names   []string `json:"names"`
}

func mkBuilderCase(v pdf.Version, hist []uint8) BuilderCase {
	c := BuilderCase{Version: v.String()}
	for _, h := range hist {
		c.Calls = append(c.Calls, int(h))
		c.Names = append(c.Names, calls[h].name)
	}
	return c
}

type histResult struct {
	pruned  string // error class when the Builder rejected the last call
	key     string
	fail    *failure
	runs    int
	closeOK bool
	nops    int
	// closers family (closers.go)
	closers       string
	readerSkipped string
}

func errClass(err error) string {
	s := err.Error()
	switch {
	case strings.Contains(s, "not allowed in current context"):
		return "context"
	case strings.Contains(s, "required state not set"):
		return "required-state"
	case strings.Contains(s, "no matching opening operator"):
		return "no-opening-operator"
	case strings.Contains(s, "stack depth"):
		return "q-depth"
	}
	return "other"
}

// runHistory executes hist on a fresh Builder and judges the result.
func runHistory(r *ev.Run, v pdf.Version, hist []uint8) histResult {
	e := envPool.Get().(*env)
	defer envPool.Put(e)
	var res histResult
	b := builder.New(content.Page, nil, v)
	for i, h := range hist {
		calls[h].do(b, e)
		if b.Err != nil {
			if i != len(hist)-1 {
				res.fail = &failure{"harness:representative-history-rejected", fmt.Sprintf("call %d of an accepted history now fails: %v", i, b.Err)}
				return res
			}
			res.pruned = errClass(b.Err)
			if f := resetVariant(v, hist, e, nil, true); f != nil {
				res.runs++
				res.fail = f
			}
			return res
		}
	}
	ops := append([]content.Operator(nil), b.Stream...)
	res.nops = len(ops)
	closeErr := b.Close()
	res.closeOK = closeErr == nil
	libKey := b.State.VerifKey()

	// written = read
	runs, data, f := checkSeq(ops, seqOpts{split: 2, independent: true})
	res.runs = runs
	if f != nil {
		f.fp = "builder:" + f.fp
		if strings.HasSuffix(f.fp, fpEIKnown) {
			f.fp = fpEIKnown
		}
		res.fail = f
		return res
	}
	got, err := scan(data, 0)
	res.runs++
	if err != nil {
		res.fail = &failure{"scan-error", err.Error()}
		return res
	}

	// the re-read stream under the automaton, operator by operator
	a := newFig9(v >= pdf.V2_0)
	st := content.NewState(content.Page, b.Resources)
	st.Version = v
	for i, op := range got {
		if why := a.step(string(op.Name)); why != "" {
			res.fail = &failure{"builder-output-invalid:" + why,
				fmt.Sprintf("Builder (PDF %s) accepted %s; its output %q is not a valid operator sequence: operator %d (%s): %s",
					v, strings.Join(mkBuilderCase(v, hist).Names, ", "), clip(data), i, op.Name, why)}
			return res
		}
		if err := st.ApplyOperator(op.Name, op.Args); err != nil {
			res.fail = &failure{"reread-rejected-by-State.ApplyOperator:" + errClass(err),
				fmt.Sprintf("Builder output %q re-read: State.ApplyOperator rejects operator %d (%s): %v", clip(data), i, op.Name, err)}
			return res
		}
	}
	if res.closeOK {
		if why := a.closed(); why != "" {
			res.fail = &failure{"builder-close-accepts:" + why,
				fmt.Sprintf("Builder.Close() = nil after %s but the output %q %s", strings.Join(mkBuilderCase(v, hist).Names, ", "), clip(data), why)}
			return res
		}
		if st.CanClose() != nil {
			res.fail = &failure{"reread-state-cannot-close", fmt.Sprintf("Builder.Close() = nil but the re-read stream %q leaves State.CanClose() = %v", clip(data), st.CanClose())}
			return res
		}
	}
	if k2 := st.VerifKey(); k2 != libKey {
		// the state reached by re-reading differs from the Builder's own
		// state: informative only (operand rounding may differ), but the
		// object state and nesting must agree
		if strings.SplitN(k2, " ", 2)[0] != strings.SplitN(libKey, " ", 2)[0] {
			res.fail = &failure{"reread-state-differs", fmt.Sprintf("Builder state %q, state after re-reading %q: %q", libKey, data, k2)}
			return res
		}
	}
	// the stream completed with the library's closing operators
	cr := closersVariants(v, hist, b, a, st, got, data)
	res.runs += cr.runs
	res.closers, res.readerSkipped = cr.own, cr.readerSkipped
	if cr.fail != nil {
		res.fail = cr.fail
		return res
	}
	if f := resetVariant(v, hist, e, ops, false); f != nil {
		res.runs++
		res.fail = f
		return res
	}
	res.runs++
	if f, n := harvestVariants(v, hist, e, ops); f != nil {
		res.runs += n
		res.fail = f
		return res
	} else {
		res.runs += n
	}
	sum := sha256.Sum256([]byte(libKey + "#" + a.key()))
	res.key = string(sum[:16])
	if len(ops) > 0 && r != nil {
		r.Distinct(append([]byte("B"+v.String()), data...))
	}
	return res
}

// resetVariant runs the history on a Builder that has been used and Reset
// before.  The statement asks of such a Builder what it asks of a fresh one:
// whatever it accepts must be a valid operator sequence (judged by the
// Figure 9 automaton, and balanced when Close succeeds).  That it accepts,
// rejects and writes the same as a fresh Builder is not demanded; differences
// that leave the output valid are not failures.
func resetVariant(v pdf.Version, hist []uint8, e *env, plain []content.Operator, wantRejected bool) *failure {
	b := builder.New(content.Page, nil, v)
	b.PushGraphicsState()
	b.SetLineWidth(3)
	b.Reset()
	for _, h := range hist {
		calls[h].do(b, e)
		if b.Err != nil {
			return nil
		}
	}
	names := strings.Join(mkBuilderCase(v, hist).Names, ", ")
	a := newFig9(v >= pdf.V2_0)
	for i, op := range b.Stream {
		if why := a.step(string(op.Name)); why != "" {
			return &failure{"builder-after-reset-output-invalid:" + why, fmt.Sprintf("Builder (PDF %s) after Reset accepted %s; its output is not a valid operator sequence: operator %d (%s): %s", v, names, i, op.Name, why)}
		}
	}
	if b.Close() == nil {
		if why := a.closed(); why != "" {
			return &failure{"builder-after-reset-close-accepts:" + why, fmt.Sprintf("Builder (PDF %s) after Reset: Close() = nil after %s but the output %s", v, names, why)}
		}
	}
	return nil
}

// harvestVariants re-runs an accepted history with Builder.Harvest inserted
// before one or before two of its calls (every choice of positions).  The
// harvested segments are looked at twice: at once, and after the last call,
// as a caller does who collects the segments of a page and writes them at the
// end.  Demanded: a segment handed out does not change afterwards, and the
// segments followed by the rest form a valid operator sequence (balanced when
// Close succeeds) - what the statement asks of every stream the Builder
// produces.  That the segments equal the plain run cut in pieces is not
// demanded.
func harvestVariants(v pdf.Version, hist []uint8, e *env, plain []content.Operator) (*failure, int) {
	n := len(hist)
	runs := 0
	if n < 2 {
		return nil, 0
	}
	names := strings.Join(mkBuilderCase(v, hist).Names, ", ")
	try := func(c1, c2 int) *failure {
		runs++
		b := builder.New(content.Page, nil, v)
		var segs []*content.Operators
		var snaps [][]byte
		for i, h := range hist {
			if i == c1 || i == c2 {
				seg, err := b.Harvest()
				if err != nil {
					return nil // (a Builder may refuse; nothing is produced then)
				}
				snap, err := serialise(seg.Ops)
				if err != nil {
					return nil // (judged by checkSeq on the plain run)
				}
				segs = append(segs, seg)
				snaps = append(snaps, snap)
			}
			calls[h].do(b, e)
			if b.Err != nil {
				return nil
			}
		}
		a := newFig9(v >= pdf.V2_0)
		k := 0
		for si, seg := range segs {
			later, err := serialise(seg.Ops)
			if err != nil || string(later) != string(snaps[si]) {
				return &failure{"builder-harvest:segment-changes-after-harvest", fmt.Sprintf("Builder (PDF %s) history %s, Harvest before call(s) %d/%d: segment %d serialised to %q when it was harvested and to %q (%v) after the last call", v, names, c1, c2, si, clip(snaps[si]), clip(later), err)}
			}
			for _, op := range seg.Ops {
				if why := a.step(string(op.Name)); why != "" {
					return &failure{"builder-harvest:segments-invalid:" + why, fmt.Sprintf("Builder (PDF %s) history %s, Harvest before call(s) %d/%d: the segments in order are not a valid operator sequence: operator %d (%s): %s", v, names, c1, c2, k, op.Name, why)}
				}
				k++
			}
		}
		for _, op := range b.Stream {
			if why := a.step(string(op.Name)); why != "" {
				return &failure{"builder-harvest:segments-invalid:" + why, fmt.Sprintf("Builder (PDF %s) history %s, Harvest before call(s) %d/%d: the segments in order are not a valid operator sequence: operator %d (%s): %s", v, names, c1, c2, k, op.Name, why)}
			}
			k++
		}
		if b.Close() == nil {
			if why := a.closed(); why != "" {
				return &failure{"builder-harvest:close-accepts:" + why, fmt.Sprintf("Builder (PDF %s) history %s, Harvest before call(s) %d/%d: Close() = nil but the segments in order %s", v, names, c1, c2, why)}
			}
		}
		return nil
	}
	for c1 := 1; c1 < n; c1++ {
		if f := try(c1, -1); f != nil {
			return f, runs
		}
		for c2 := c1 + 1; c2 < n; c2++ {
			if f := try(c1, c2); f != nil {
				return f, runs
			}
		}
	}
	return nil, runs
}

// naturalArgs are plausible operands for the conformance probe.
var naturalArgs = map[string][]pdf.Object{
	"w": {pdf.Integer(2)}, "J": {pdf.Integer(1)}, "j": {pdf.Integer(1)}, "M": {pdf.Integer(4)},
	"d": {pdf.Array{pdf.Integer(3)}, pdf.Integer(0)}, "ri": {pdf.Name("Perceptual")}, "i": {pdf.Integer(1)},
	"gs": {pdf.Name("E1")}, "cm": {pdf.Integer(1), pdf.Integer(0), pdf.Integer(0), pdf.Integer(1), pdf.Integer(5), pdf.Real(.5)},
	"m": {pdf.Integer(0), pdf.Integer(0)}, "l": {pdf.Integer(9), pdf.Real(-1.5)},
	"c": {pdf.Integer(1), pdf.Integer(1), pdf.Integer(2), pdf.Integer(3), pdf.Integer(4), pdf.Integer(0)},
	"v": {pdf.Integer(2), pdf.Integer(3), pdf.Integer(4), pdf.Integer(0)}, "y": {pdf.Integer(2), pdf.Integer(3), pdf.Integer(4), pdf.Integer(0)},
	"re": {pdf.Integer(0), pdf.Integer(0), pdf.Integer(5), pdf.Integer(5)},
	"Tc": {pdf.Integer(1)}, "Tw": {pdf.Integer(1)}, "Tz": {pdf.Integer(90)}, "TL": {pdf.Integer(14)},
	"Tf": {pdf.Name("F1"), pdf.Integer(12)}, "Tr": {pdf.Integer(1)}, "Ts": {pdf.Integer(1)},
	"Td": {pdf.Integer(1), pdf.Integer(2)}, "TD": {pdf.Integer(1), pdf.Integer(-2)},
	"Tm": {pdf.Integer(1), pdf.Integer(0), pdf.Integer(0), pdf.Integer(1), pdf.Integer(0), pdf.Integer(0)},
	"Tj": {pdf.String("A(")}, "TJ": {pdf.Array{pdf.String("A"), pdf.Integer(-50), pdf.String(")")}},
	"'": {pdf.String("B")}, "\"": {pdf.Integer(1), pdf.Integer(2), pdf.String("C")},
	"d0": {pdf.Integer(500), pdf.Integer(0)}, "d1": {pdf.Integer(500), pdf.Integer(0), pdf.Integer(0), pdf.Integer(0), pdf.Integer(400), pdf.Integer(700)},
	"CS": {pdf.Name("DeviceRGB")}, "cs": {pdf.Name("DeviceGray")},
	"SC": {pdf.Real(.5)}, "sc": {pdf.Real(.5)}, "SCN": {pdf.Real(.5), pdf.Name("P1")}, "scn": {pdf.Real(.5)},
	"G": {pdf.Real(.5)}, "g": {pdf.Integer(1)}, "RG": {pdf.Integer(1), pdf.Integer(0), pdf.Integer(0)},
	"rg": {pdf.Integer(0), pdf.Real(.25), pdf.Integer(1)}, "K": {pdf.Integer(0), pdf.Integer(0), pdf.Integer(0), pdf.Integer(1)},
	"k":  {pdf.Integer(0), pdf.Integer(0), pdf.Integer(0), pdf.Real(.75)},
	"sh": {pdf.Name("S1")}, "Do": {pdf.Name("X1")},
	"MP": {pdf.Name("Pt")}, "DP": {pdf.Name("Pt"), pdf.Dict{"MCID": pdf.Integer(1)}},
	"BMC": {pdf.Name("Span")}, "BDC": {pdf.Name("P"), pdf.Dict{"ActualText": pdf.String("a(b"), "K": pdf.Array{pdf.Integer(1), nil}}},
	"%image%": {pdf.Dict{"W": pdf.Integer(2), "H": pdf.Integer(1), "BPC": pdf.Integer(8), "CS": pdf.Name("G")}, pdf.String("\x00\xff")},
}

// conformance compares, in the state reached by ops, the verdict of
// State.ApplyOperator on every operator of Table 50 with the verdict of the
// automaton. The result is informative (the property only speaks about
// Builder output).
func conformance(v pdf.Version, ops []content.Operator, res *content.Resources, names []string, tally map[string]int) {
	for _, n := range names {
		a := newFig9(v >= pdf.V2_0)
		st := content.NewState(content.Page, res)
		st.Version = v
		for _, op := range ops {
			a.step(string(op.Name))
			st.ApplyOperator(op.Name, op.Args)
		}
		objBefore := a.obj
		why := a.step(n)
		err := st.ApplyOperator(content.OpName(n), naturalArgs[n])
		switch {
		case why == "" && err == nil:
			tally["agree:accept"]++
		case why != "" && err != nil:
			tally["agree:reject"]++
		case why != "" && err == nil:
			tally["library-accepts-what-fig9-rejects:"+why]++
		default:
			tally[fmt.Sprintf("library-rejects-what-fig9-accepts:%s-in-%s:%s", table50[n], objBefore, errClass(err))]++
		}
	}
}

// builderBFS is part (d).
func builderBFS(r *ev.Run, v pdf.Version, depth int, confNames []string) {
	type node struct{ hist []uint8 }
	seen := map[string]bool{}
	frontier := []node{{}}
	{
		res := runHistory(r, v, nil)
		if res.fail != nil {
			r.Infra("C15 builder: empty history fails: " + res.fail.what)
			return
		}
		seen[res.key] = true
		r.State(1)
	}
	tally := map[string]int{}
	closerSeqs := map[string]int{}
	readerSkipped := map[string]int{}
	perDepth := []int{1}
	nc := len(calls)
	for d := 1; d <= depth && len(frontier) > 0; d++ {
		if r.Expired() {
			r.Dim(fmt.Sprintf("builder_%s_depth_completed", v), d-1)
			break
		}
		results := make([]histResult, len(frontier)*nc)
		r.Par(len(results), func(i int) {
			parent := frontier[i/nc].hist
			h := make([]uint8, len(parent)+1)
			copy(h, parent)
			h[len(parent)] = uint8(i % nc)
			results[i] = runHistory(r, v, h)
		})
		var next []node
		for i := range results {
			res := &results[i]
			parent := frontier[i/nc].hist
			h := append(append([]uint8{}, parent...), uint8(i%nc))
			r.Trans(1)
			r.Trace(1)
			r.Eval(int64(res.runs) + 1)
			switch {
			case res.fail != nil:
				r.Outcome("builder:fail:" + res.fail.fp)
				if strings.HasPrefix(res.fail.fp, "harness:") {
					r.Infra(res.fail.what)
				} else {
					r.Violation(res.fail.fp, res.fail.what, Case{Space: "builder", Builder: ptr(mkBuilderCase(v, h))})
				}
			case res.pruned != "":
				r.Outcome("builder:rejected-call:" + res.pruned)
			default:
				if res.closeOK {
					r.Outcome("builder:accepted,complete")
				} else {
					r.Outcome("builder:accepted,open")
				}
				closerSeqs[res.closers]++
				if res.closers == "" {
					r.Outcome("builder:closers:none-needed")
				} else {
					r.Outcome("builder:closers:completed-valid")
				}
				if res.readerSkipped != "" {
					readerSkipped[res.readerSkipped]++
				}
				if !seen[res.key] {
					seen[res.key] = true
					r.State(1)
					next = append(next, node{h})
					if r.WantSample() && d == 3 {
						r.Sample(Case{Space: "builder", Builder: ptr(mkBuilderCase(v, h))})
					}
				}
			}
		}
		perDepth = append(perDepth, len(next))
		// conformance probe in every new state
		if len(confNames) > 0 {
			var mu sync.Mutex
			r.Par(len(next), func(i int) {
				e := envPool.Get().(*env)
				b := builder.New(content.Page, nil, v)
				for _, h := range next[i].hist {
					calls[h].do(b, e)
				}
				envPool.Put(e)
				local := map[string]int{}
				conformance(v, b.Stream, b.Resources, confNames, local)
				mu.Lock()
				for k, n := range local {
					tally[k] += n
				}
				mu.Unlock()
			})
		}
		frontier = next
	}
	r.Dim(fmt.Sprintf("builder_%s_new_states_per_depth", v), perDepth)
	{
		longest, histories := "", 0
		for k, n := range closerSeqs {
			histories += n
			if len(strings.Fields(k)) > len(strings.Fields(longest)) || (len(strings.Fields(k)) == len(strings.Fields(longest)) && k < longest) {
				longest = k
			}
		}
		r.Dim(fmt.Sprintf("builder_%s_closers", v), map[string]any{
			"histories_completed":          histories,
			"of_them_nothing_to_close":     closerSeqs[""],
			"distinct_closer_sequences":    len(closerSeqs),
			"longest_closer_sequence":      longest,
			"reader_source_not_judged":     readerSkipped,
			"judged_sequences_per_history": len(closerSources),
		})
	}
	keys := make([]string, 0, len(tally))
	for k := range tally {
		keys = append(keys, k)
	}
	sort.Strings(keys)
	var lines []string
	for _, k := range keys {
		lines = append(lines, fmt.Sprintf("%s x%d", k, tally[k]))
	}
	r.Dim(fmt.Sprintf("builder_%s_ApplyOperator_vs_fig9", v), lines)
}

func ptr[T any](v T) *T { return &v }
