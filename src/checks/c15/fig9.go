//go:build verif

package c15

// An automaton for ISO 32000-1:2008 / ISO 32000-2:2020 Figure 9 ("Graphics
// objects"), written from the figure and from Table 50 (operator
// categories); it shares nothing with graphics/content/operators.go.
//
// States: page description level, path object, clipping path object, text
// object (the shading, external and in-line image objects of the figure are
// entered and left by one operator and need no state of their own; in this
// harness an in-line image is the single pseudo operator %image%).
//
//	page:  general graphics state, special graphics state, colour, text state,
//	       marked content;  BT -> text;  m, re -> path;  sh, Do, BI..EI stay
//	path:  path construction;  W, W* -> clip;  path painting -> page
//	clip:  path painting -> page
//	text:  general graphics state, colour, text state, text showing,
//	       text positioning, marked content;  ET -> page
//
// BX/EX are not part of the figure (Table 50 "compatibility"): accepted
// everywhere.  d0/d1 are only legal as the first operator of a glyph
// description.
//
// Balance: q/Q, BT/ET and BMC|BDC/EMC never close something that is not open;
// ISO 32000-1 14.6.1: "each pair of matching operators (BMC…EMC, BDC…EMC, or
// BT…ET) shall be properly (separately) nested. Therefore, the sequences
// BMC BT ET EMC and BT BMC EMC ET are valid, but BMC BT EMC ET and
// BT BMC ET EMC are not valid."  Nothing is required about the nesting of
// q/Q relative to marked content (the standard is silent).

type category uint8

const (
	catUnknown category = iota
	catGeneralGS
	catSpecialGS
	catPathConstruct
	catPathPaint
	catClip
	catTextObject
	catTextState
	catTextPos
	catTextShow
	catType3
	catColour
	catShading
	catInlineImage
	catXObject
	catMarked
	catCompat
)

var catNames = [...]string{"unknown", "general-graphics-state", "special-graphics-state", "path-construction",
	"path-painting", "clipping-path", "text-object", "text-state", "text-positioning", "text-showing", "type3",
	"colour", "shading", "inline-image", "xobject", "marked-content", "compatibility"}

func (c category) String() string { return catNames[c] }

// table50 lists the 73 operators of ISO 32000-2 Table 50 by category
// (BI, ID, EI appear as the pseudo operator %image%).
var table50 = map[string]category{
	"w": catGeneralGS, "J": catGeneralGS, "j": catGeneralGS, "M": catGeneralGS, "d": catGeneralGS,
	"ri": catGeneralGS, "i": catGeneralGS, "gs": catGeneralGS,
	"q": catSpecialGS, "Q": catSpecialGS, "cm": catSpecialGS,
	"m": catPathConstruct, "l": catPathConstruct, "c": catPathConstruct, "v": catPathConstruct,
	"y": catPathConstruct, "h": catPathConstruct, "re": catPathConstruct,
	"S": catPathPaint, "s": catPathPaint, "f": catPathPaint, "F": catPathPaint, "f*": catPathPaint,
	"B": catPathPaint, "B*": catPathPaint, "b": catPathPaint, "b*": catPathPaint, "n": catPathPaint,
	"W": catClip, "W*": catClip,
	"BT": catTextObject, "ET": catTextObject,
	"Tc": catTextState, "Tw": catTextState, "Tz": catTextState, "TL": catTextState, "Tf": catTextState,
	"Tr": catTextState, "Ts": catTextState,
	"Td": catTextPos, "TD": catTextPos, "Tm": catTextPos, "T*": catTextPos,
	"Tj": catTextShow, "TJ": catTextShow, "'": catTextShow, "\"": catTextShow,
	"d0": catType3, "d1": catType3,
	"CS": catColour, "cs": catColour, "SC": catColour, "SCN": catColour, "sc": catColour, "scn": catColour,
	"G": catColour, "g": catColour, "RG": catColour, "rg": catColour, "K": catColour, "k": catColour,
	"sh":      catShading,
	"%image%": catInlineImage, "BI": catInlineImage, "ID": catInlineImage, "EI": catInlineImage,
	"Do": catXObject,
	"MP": catMarked, "DP": catMarked, "BMC": catMarked, "BDC": catMarked, "EMC": catMarked,
	"BX": catCompat, "EX": catCompat,
}

type objState uint8

const (
	stPage objState = iota
	stPath
	stClip
	stText
	stGlyphStart
)

var stNames = [...]string{"page", "path", "clipping-path", "text", "glyph-start"}

func (s objState) String() string { return stNames[s] }

// fig9 is the automaton state.
type fig9 struct {
	obj     objState
	qDepth  int
	mcDepth int
	bxDepth int
	// nest holds the open BT ('t') and BMC/BDC ('m') frames in opening order
	nest []byte
	// qInText: PDF 2.0 reading in which q/Q may occur inside a text object
	// (the library's reading; accepted, not demanded)
	qInText bool
}

func newFig9(qInText bool) *fig9 { return &fig9{qInText: qInText} }

func (a *fig9) clone() *fig9 {
	b := *a
	b.nest = append([]byte{}, a.nest...)
	return &b
}

// key is the automaton's part of the BFS state key.
func (a *fig9) key() string {
	return stNames[a.obj] + "/" + string(rune('0'+a.qDepth)) + "/" + string(a.nest) + "/" + string(rune('0'+a.bxDepth))
}

// step consumes one operator name. It returns "" if the operator is allowed
// here, otherwise the class of the objection (used in fingerprints). The
// state is only advanced when the operator is allowed.
func (a *fig9) step(name string) string {
	cat, known := table50[name]
	if !known {
		if a.bxDepth > 0 {
			return ""
		}
		return "unknown-operator-outside-BX"
	}
	if cat == catCompat {
		if name == "BX" {
			a.bxDepth++
		} else {
			if a.bxDepth == 0 {
				return "EX-without-BX"
			}
			a.bxDepth--
		}
		return ""
	}
	allowed := false
	switch a.obj {
	case stGlyphStart:
		allowed = cat == catType3
	case stPage:
		switch cat {
		case catGeneralGS, catSpecialGS, catColour, catTextState, catMarked,
			catShading, catXObject, catInlineImage:
			allowed = true
		case catTextObject:
			allowed = name == "BT"
		case catPathConstruct:
			allowed = name == "m" || name == "re"
		}
	case stPath:
		allowed = cat == catPathConstruct || cat == catClip || cat == catPathPaint
	case stClip:
		allowed = cat == catPathPaint
	case stText:
		switch cat {
		case catGeneralGS, catColour, catTextState, catTextShow, catTextPos, catMarked:
			allowed = true
		case catTextObject:
			allowed = name == "ET"
		case catSpecialGS:
			allowed = a.qInText && (name == "q" || name == "Q")
		}
	}
	if !allowed {
		return cat.String() + "-in-" + a.obj.String()
	}
	// balance
	switch name {
	case "Q":
		if a.qDepth == 0 {
			return "Q-without-q"
		}
	case "EMC":
		if a.mcDepth == 0 {
			return "EMC-without-BMC"
		}
		if a.nest[len(a.nest)-1] != 'm' {
			return "cross-nested-BT-BMC:EMC-closes-sequence-opened-outside-the-text-object"
		}
	case "ET":
		if a.nest[len(a.nest)-1] != 't' {
			return "cross-nested-BT-BMC:ET-inside-marked-content-sequence-opened-in-the-text-object"
		}
	}
	// advance
	switch name {
	case "q":
		a.qDepth++
	case "Q":
		a.qDepth--
	case "BMC", "BDC":
		a.mcDepth++
		a.nest = append(a.nest, 'm')
	case "EMC":
		a.mcDepth--
		a.nest = a.nest[:len(a.nest)-1]
	case "BT":
		a.obj = stText
		a.nest = append(a.nest, 't')
	case "ET":
		a.obj = stPage
		a.nest = a.nest[:len(a.nest)-1]
	case "m", "re":
		a.obj = stPath
	case "W", "W*":
		a.obj = stClip
	case "d0", "d1":
		a.obj = stPage
	default:
		if cat == catPathPaint {
			a.obj = stPage
		}
	}
	return ""
}

// closed reports whether the sequence consumed so far is complete: page
// description level, nothing open.
func (a *fig9) closed() string {
	switch {
	case a.obj != stPage:
		return "ends-in-" + a.obj.String()
	case a.qDepth != 0:
		return "unbalanced-q"
	case a.mcDepth != 0:
		return "unbalanced-BMC"
	}
	return ""
}

// selfTest runs the automaton on sequences whose status is stated in the
// standard (14.6.1 example, Figure 9).
func fig9SelfTest() string {
	type tc struct {
		seq  []string
		fail int // index of the first rejected operator, -1 = accepted
		done bool
	}
	tests := []tc{
		{[]string{"BMC", "BT", "ET", "EMC"}, -1, true},
		{[]string{"BT", "BMC", "EMC", "ET"}, -1, true},
		{[]string{"BMC", "BT", "EMC", "ET"}, 2, false},
		{[]string{"BT", "BMC", "ET", "EMC"}, 2, false},
		{[]string{"q", "m", "l", "W", "n", "Q"}, -1, true},
		{[]string{"m", "W", "l"}, 2, false},
		{[]string{"m", "Tc"}, 1, false},
		{[]string{"m", "q"}, 1, false},
		{[]string{"l"}, 0, false},
		{[]string{"BT", "Tj", "q"}, 2, false},
		{[]string{"BT", "m"}, 1, false},
		{[]string{"Q"}, 0, false},
		{[]string{"EMC"}, 0, false},
		{[]string{"ET"}, 0, false},
		{[]string{"BT", "BT"}, 1, false},
		{[]string{"Tf", "BT", "Tf", "Tj", "ET", "%image%", "sh", "Do", "cm"}, -1, true},
		{[]string{"BT", "%image%"}, 1, false},
		{[]string{"BT", "cm"}, 1, false},
		{[]string{"re", "re", "h", "f*"}, -1, true},
		{[]string{"q", "BT"}, -1, false},
		{[]string{"xx"}, 0, false},
		{[]string{"BX", "xx", "EX"}, -1, true},
		{[]string{"d0"}, 0, false},
	}
	for _, t := range tests {
		a := newFig9(false)
		fail := -1
		for i, n := range t.seq {
			if a.step(n) != "" {
				fail = i
				break
			}
		}
		if fail != t.fail {
			return "fig9 self-test: sequence " + join(t.seq) + ": first rejected operator index differs"
		}
		if fail < 0 && (a.closed() == "") != t.done {
			return "fig9 self-test: sequence " + join(t.seq) + ": closed() differs"
		}
	}
	g := newFig9(false)
	g.obj = stGlyphStart
	if g.step("d1") != "" || g.step("m") != "" || g.obj != stPath {
		return "fig9 self-test: glyph start"
	}
	if len(table50) != 73+1 {
		return "fig9 self-test: Table 50 has 73 operators"
	}
	return ""
}

func join(s []string) string {
	out := ""
	for i, x := range s {
		if i > 0 {
			out += " "
		}
		out += x
	}
	return out
}
