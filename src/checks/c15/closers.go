//go:build verif

package c15

import (
	"bytes"
	"fmt"
	"io"
	"strings"

	"seehuhn.de/go/pdf"
	"seehuhn.de/go/pdf/graphics/content"
	"seehuhn.de/go/pdf/graphics/content/builder"
	"seehuhn.de/go/pdf/internal/debug/mock"
	"seehuhn.de/go/pdf/reader"
)

// Completion by the library's closing operators ("closers" family).
//
// A Builder stream may end inside open constructs (a segment taken with
// Harvest, a history that is not complete yet).  The library offers one way
// to finish such a stream: State.ClosingOperators ("the operator names
// needed to close any open contexts ... in the order they should be
// emitted"); reader.Reader appends exactly these when it re-reads a stream
// (ProcessIter).  For EVERY accepted history of the BFS the re-read Builder
// stream is completed with the closers of every State that describes its end
// and the completed sequence is judged by the same Figure 9 automaton and
// balance rules as the stream itself: every closer must be allowed where it
// stands (no ET inside a marked-content sequence opened in the text object,
// no Q/EMC/ET that closes nothing), and after the last closer the automaton
// must be at page level with nothing open.
//
// Sources of the State (closerSources):
//
//	builder     the Builder's own State after the last call
//	strict      a fresh State advanced over the re-read stream with
//	            State.ApplyOperator (the Builder's path)
//	permissive  a fresh State advanced over the re-read stream with
//	            State.ApplyStateChanges (the path of reader.Reader)
//	reader      reader.Reader.ProcessIter over the written bytes: the
//	            operators reported to EveryOp after the last operator of the
//	            stream are the closers the reader synthesised
//
// Nothing is demanded about which closers are chosen beyond that: any
// sequence of closers that completes the stream to a valid, balanced
// sequence is accepted.
var closerSources = []string{"builder", "strict", "permissive", "reader"}

type closersResult struct {
	fail *failure
	runs int
	// closers of the Builder's own State, space separated ("" = none needed)
	own string
	// why the reader source could not be judged ("" = judged): the reader
	// stopped with an error or did not report the stream's own operators one
	// to one
	readerSkipped string
}

// judgeClosers runs the closers through a copy of the automaton that has
// consumed the stream.  It returns "" or the class of the objection and the
// index of the offending closer (len(closers) = left open at the end).
func judgeClosers(a *fig9, closers []string) (string, int) {
	c := a.clone()
	for i, n := range closers {
		if why := c.step(n); why != "" {
			return why, i
		}
	}
	if why := c.closed(); why != "" {
		return "completed-sequence-" + why, len(closers)
	}
	return "", -1
}

func opNames(l []content.OpName) []string {
	out := make([]string, len(l))
	for i, n := range l {
		out[i] = string(n)
	}
	return out
}

// closersVariants is called for an accepted history whose re-read stream got
// (bytes data) has been consumed by the automaton a without objection.
func closersVariants(v pdf.Version, hist []uint8, b *builder.Builder, a *fig9, strict *content.State, got []content.Operator, data []byte) closersResult {
	var res closersResult
	names := func() string { return strings.Join(mkBuilderCase(v, hist).Names, ", ") }
	judge := func(source string, closers []string) *failure {
		res.runs++
		why, at := judgeClosers(a, closers)
		if why == "" {
			return nil
		}
		where := "after the last closer"
		if at < len(closers) {
			where = fmt.Sprintf("closer %d (%s)", at, closers[at])
		}
		return &failure{"closing-operators-invalid:" + why,
			fmt.Sprintf("Builder (PDF %s) accepted %s; its output %q ends in %s; State.ClosingOperators (state source: %s) = [%s]; the stream completed with these closers is not a valid, balanced operator sequence: %s: %s",
				v, names(), clip(data), a.key(), source, strings.Join(closers, " "), where, why)}
	}

	own := opNames(b.State.ClosingOperators())
	res.own = strings.Join(own, " ")
	if f := judge("builder", own); f != nil {
		res.fail = f
		return res
	}
	if f := judge("strict", opNames(strict.ClosingOperators())); f != nil {
		res.fail = f
		return res
	}

	perm := content.NewState(content.Page, b.Resources)
	perm.Version = v
	for _, op := range got {
		perm.ApplyStateChanges(op.Name, op.Args) // errors: the reader's path ignores none of these for valid streams; the closers are judged whatever it returns
	}
	if f := judge("permissive", opNames(perm.ClosingOperators())); f != nil {
		res.fail = f
		return res
	}

	// the real reader
	rd := reader.New(pdf.NewExtractor(mock.Getter))
	rd.State = content.NewState(content.Page, b.Resources)
	rd.State.Version = v
	var seen []string
	rd.EveryOp = func(op string, args []pdf.Object) error {
		seen = append(seen, op)
		return nil
	}
	err := func() (err error) {
		defer func() {
			if p := recover(); p != nil {
				err = fmt.Errorf("panic: %v", p)
			}
		}()
		return rd.ProcessIter(content.NewScanner(func() (io.ReadCloser, error) {
			return io.NopCloser(bytes.NewReader(data)), nil
		}).NewIter())
	}()
	switch {
	case err != nil:
		res.readerSkipped = "reader-error:" + readerErrClass(err)
	case len(seen) < len(got):
		res.readerSkipped = "reader-reports-fewer-operators"
	default:
		for i, op := range got {
			if seen[i] != string(op.Name) {
				res.readerSkipped = "reader-reports-other-operator-for:" + string(op.Name)
				break
			}
		}
	}
	if res.readerSkipped != "" {
		return res
	}
	if f := judge("reader", seen[len(got):]); f != nil {
		res.fail = f
	}
	return res
}

func readerErrClass(err error) string {
	s := err.Error()
	if i := strings.IndexAny(s, ":("); i > 0 {
		s = s[:i]
	}
	if len(s) > 40 {
		s = s[:40]
	}
	return s
}

// closersSelfTest: the judgement on sequences whose status ISO 32000 states.
func closersSelfTest() string {
	type tc struct {
		stream, closers []string
		ok              bool
	}
	tests := []tc{
		{[]string{"q", "BT", "BMC", "Td"}, []string{"EMC", "ET", "Q"}, true},
		{[]string{"q", "BT", "BMC", "Td"}, []string{"ET", "EMC", "Q"}, false}, // BT BMC ET EMC (14.6.1)
		{[]string{"BMC", "BT"}, []string{"ET", "EMC"}, true},
		{[]string{"BMC", "BT"}, []string{"EMC", "ET"}, false}, // BMC BT EMC ET (14.6.1)
		{[]string{"q", "m", "l"}, []string{"n", "Q"}, true},
		{[]string{"q", "m", "l"}, []string{"Q"}, false},
		{[]string{"m", "W"}, []string{"n"}, true},
		{[]string{"m", "W"}, nil, false},
		{[]string{"q"}, []string{"Q", "Q"}, false},
		{[]string{"BT"}, nil, false},
		{nil, nil, true},
	}
	for _, t := range tests {
		a := newFig9(false)
		for _, n := range t.stream {
			if a.step(n) != "" {
				return "closers self-test: stream " + join(t.stream) + " rejected"
			}
		}
		why, _ := judgeClosers(a, t.closers)
		if (why == "") != t.ok {
			return "closers self-test: " + join(t.stream) + " + " + join(t.closers) + ": verdict " + why
		}
	}
	return ""
}
