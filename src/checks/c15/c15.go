//go:build verif

// Package c15 decides C15: content-stream operators written with the content
// writer are the operators read by the content scanner (whole or split over
// several content streams), and streams produced by the Builder re-read as
// balanced, valid operator sequences.
package c15

import (
	"bytes"
	"encoding/json"
	"fmt"
	"math"
	"sort"
	"strings"
	"time"

	"seehuhn.de/go/pdf"
	"seehuhn.de/go/pdf/graphics/content"
	"seehuhn.de/go/pdf/zzverif/checks/hx"
	"seehuhn.de/go/pdf/zzverif/engine/ev"
)

// Case is one replayable case.
type Case struct {
	Space   string       `json:"space"`
	Ops     []OpJ        `json:"ops,omitempty"`
	Builder *BuilderCase `json:"builder,omitempty"`
}

var fullOpts = seqOpts{chunks: []int{1, 7}, split: 3, independent: true}

type runner struct {
	r *ev.Run
}

// one runs the (a)-(c) oracle on one operator sequence.
func (rn *runner) one(space string, ops []content.Operator, o seqOpts) {
	r := rn.r
	runs, data, f := checkSeq(ops, o)
	r.Eval(int64(runs) + 1)
	if f != nil {
		if f.fp == "format-error" && writerMayRefuse(ops) {
			// the writer refuses data it cannot represent: not accepted
			r.Outcome("rejected:" + space + ":writer-refuses-unrepresentable-inline-image-data")
			return
		}
		r.Outcome("fail:" + f.fp)
		r.Violation(f.fp, f.what, Case{Space: space, Ops: encOps(ops)})
		return
	}
	r.Outcome("ok:" + space)
	if len(ops) > 1 || (len(ops) == 1 && len(ops[0].Args) > 0) {
		r.Distinct(data)
	}
}

// ---------------------------------------------------------------------------
// alphabets

// operands14 is the operand alphabet for tuples of length <= 3: one
// representative per token class and per "needs escaping / many digits /
// nesting" class.
func operands14() []pdf.Object {
	return []pdf.Object{
		pdf.Integer(12),
		pdf.Integer(math.MinInt64),
		pdf.Real(0.1 + 0.2),
		pdf.Real(-1e-7),
		pdf.Name("A"),
		pdf.Name("a b#2F(\x00"),
		pdf.String("x"),
		pdf.String("(\r\n\\)7"),
		pdf.String("\x80\x00\xff"),
		pdf.Array{pdf.Array{pdf.Integer(1), pdf.Array{pdf.Name("N"), pdf.String(")")}}, pdf.Array{}},
		pdf.Dict{"K": pdf.Array{pdf.Integer(1), pdf.Dict{"L#": pdf.Name("")}}, "M": pdf.String("x")},
		nil,
		pdf.Boolean(true),
		pdf.Boolean(false),
	}
}

// operandsWide is the larger alphabet used for tuples of length <= 2.
func operandsWide() []pdf.Object {
	out := operands14()
	out = append(out,
		pdf.Integer(0), pdf.Integer(-3), pdf.Integer(math.MaxInt64), pdf.Real(0), pdf.Real(math.Copysign(0, -1)),
		pdf.Real(-2), pdf.Real(1e20), pdf.Real(123456789.125), pdf.Real(math.MaxFloat64), pdf.Real(math.SmallestNonzeroFloat64),
		pdf.Real(3.0000000000000004), pdf.Name(""), pdf.Name("#"), pdf.Name("true"), pdf.Name("BI"), pdf.Name("EI"),
		pdf.String(""), pdf.String(")"), pdf.String("\\"), pdf.String("\nEI "), pdf.String("<>"), pdf.String("\r"),
		pdf.Array{}, pdf.Dict{}, pdf.Array{nil, pdf.Boolean(true)}, pdf.Dict{"": pdf.Name("")},
		pdf.Array{pdf.String("A"), pdf.Integer(-50), pdf.String("(")},
		nested(20, pdf.Integer(1)), nested(200, pdf.Name("N")),
	)
	return out
}

func nested(depth int, inner pdf.Object) pdf.Object {
	o := inner
	for i := 0; i < depth; i++ {
		if i%3 == 2 {
			o = pdf.Dict{"K": o}
		} else {
			o = pdf.Array{o}
		}
	}
	return o
}

var unknownNames = []string{"x", "BIx", "true1", "EIx", "IDx", "R", "-", "nul", "f**", "T"}

func allStrings(alpha []byte, maxLen int, f func(s []byte)) {
	buf := make([]byte, 0, maxLen)
	var rec func()
	rec = func() {
		f(buf)
		if len(buf) == maxLen {
			return
		}
		for _, c := range alpha {
			buf = append(buf, c)
			rec()
			buf = buf[:len(buf)-1]
		}
	}
	rec()
}

var nameAlpha = []byte{'a', '1', '#', '/', '(', '%', ' ', 0, '\n', 0x7f, 0x80, 0xff}
var strAlpha = []byte{'(', ')', '\\', '\r', '\n', 'a', '7', 0, 0x80}
var imgAlpha = []byte{'E', 'I', '\n', '\r', ' ', 'a', 0}
var whiteBytes = []byte{0, 9, 10, 12, 13, 32}

func op(name string, args ...pdf.Object) content.Operator {
	return content.Operator{Name: content.OpName(name), Args: args}
}

func cloneArgs(a []pdf.Object) []pdf.Object {
	out := make([]pdf.Object, len(a))
	for i, x := range a {
		out[i] = hx.Clone(x)
	}
	return out
}

// ---------------------------------------------------------------------------

func selfTest() string {
	if s := fig9SelfTest(); s != "" {
		return s
	}
	if s := closersSelfTest(); s != "" {
		return s
	}
	// the independent reader on a stream written by hand from the standard's syntax
	src := []byte("q 1 0 0 1 .5 -2 cm\r/F1 12 Tf BT (a\\)\\051) Tj [(A) -50 <4142>]TJ ET % c\nBI /W 2/H 1 /BPC 8 ID \x00\xff\nEI Q\n/P <</MCID 1>> BDC EMC")
	got, err := independentOps(src, []int{2})
	want := []content.Operator{
		op("q"), op("cm", pdf.Integer(1), pdf.Integer(0), pdf.Integer(0), pdf.Integer(1), pdf.Real(.5), pdf.Integer(-2)),
		op("Tf", pdf.Name("F1"), pdf.Integer(12)), op("BT"), op("Tj", pdf.String("a))")),
		op("TJ", pdf.Array{pdf.String("A"), pdf.Integer(-50), pdf.String("AB")}), op("ET"),
		op("%image%", pdf.Dict{"W": pdf.Integer(2), "H": pdf.Integer(1), "BPC": pdf.Integer(8)}, pdf.String("\x00\xff")),
		op("Q"), op("BDC", pdf.Name("P"), pdf.Dict{"MCID": pdf.Integer(1)}), op("EMC"),
	}
	if err != nil {
		return "independent reader self-test: " + err.Error()
	}
	if k, d := compareOps(got, want); k != "" {
		return "independent reader self-test: " + k + ": " + d
	}
	for _, t := range []struct {
		s string
		w bool
	}{{"a\nEI ", true}, {"\nEI", true}, {"\rEI(", true}, {"EI ", false}, {"a\nEIa", false}, {"\n EI ", false}, {"aEI ", false}, {"\nEI\x00x", true}} {
		if hasEOLEIDelim([]byte(t.s)) != t.w {
			return fmt.Sprintf("hasEOLEIDelim(%q) self-test", t.s)
		}
	}
	return ""
}

// Run is the check.
func Run(tier string) int {
	budget := 4 * time.Minute
	if tier == "thorough" {
		budget = 25 * time.Minute
	}
	r := ev.New("C15", tier, "model_checking", budget)
	rn := &runner{r}
	r.Rule("(a)-(c): a case is an operator sequence written with Operators.RawBytes/Operator.Format and read back by the content scanner whole, in chunks, as 1, 2 and 3 content streams of a page cut at every operator boundary, and by an independent tokenizer; (d): a case is a history of Builder calls executed on a fresh Builder, its output re-read and run through an independent automaton for ISO 32000 Figure 9 + balance rules, and, for every accepted history, the re-read output completed with the closing operators the library offers for its end state (State.ClosingOperators of the Builder's State, of a strict and of a permissive replay State, and the closers reader.Reader.ProcessIter synthesises) judged by the same automaton: every closer allowed where it stands, nothing open after the last one. distinct = distinct serialised byte strings of cases that have at least one operand or more than one operator (Builder: non-empty output)")
	r.Assume("independent tokenizer ref/pdfsyn (content mode) written from ISO 32000-2 7.2/7.3/7.8.2/8.9.7",
		"Figure 9 automaton written from ISO 32000-1 Figure 9, Table 51 and 14.6.1; q/Q inside text objects accepted for PDF 2.0 (the library's reading), nothing demanded about q/Q relative to marked content",
		"inline image data under an ASCII filter (first filter AHx/A85) is compared modulo white space (8.9.7 lets any white space follow ID there)",
		"operands are direct objects of the native types without references; inline image data <= 600 bytes, plus the lengths 4080..4096 at the reader limit of 4096 when the dictionary states /L",
		"BFS state key = State.VerifKey (object state, nesting stack, usable/set bits, every graphics-state value a Builder setter compares with, the same for every saved q level) + automaton state; coordinates, matrices and resource names do not decide acceptance")

	if s := selfTest(); s != "" {
		r.Infra(s)
		return r.Finish()
	}

	// known findings are run explicitly
	for _, k := range r.KnownWitnesses() {
		var c Case
		if json.Unmarshal(k.Witness, &c) == nil {
			rn.replayCase(c)
		}
	}

	// operator names -----------------------------------------------------------
	var names []string
	inTable := map[string]bool{}
	for _, n := range content.VerifOperatorTable() {
		inTable[n] = true
		if n == "BI" || n == "ID" || n == "EI" {
			continue
		}
		names = append(names, n)
	}
	var missing []string
	for n := range table50 {
		if n != "%image%" && !inTable[n] {
			missing = append(missing, n)
			names = append(names, n)
		}
	}
	sort.Strings(missing)
	if len(missing) > 0 {
		r.Dim("table50_operators_not_in_scanner_table", missing)
	}
	r.Dim("scanner_table_operators", len(inTable))
	names = append(names, unknownNames...)
	sort.Strings(names)
	N := len(names)
	r.Dim("operator_names", N)
	r.Dim("unknown_names", unknownNames)

	secs := map[string]float64{}
	t0 := time.Now()
	lap := func(part string) {
		secs[part] = math.Round(time.Since(t0).Seconds()*10) / 10
		t0 = time.Now()
	}
	o14 := operands14()
	wide := operandsWide()
	r.Dim("operand_classes", len(o14))
	r.Dim("operand_classes_wide", len(wide))

	// (d) Builder ---------------------------------------------------------------
	if s := checkCallsDistinct(); s != "" {
		r.Infra(s)
		return r.Finish()
	}
	r.Dim("builder_calls", len(calls))
	var cn []string
	for _, c := range calls {
		cn = append(cn, c.name)
	}
	r.Dim("builder_call_names", cn)
	r.Dim("builder_closers_state_sources", closerSources)
	var confNames []string
	for n := range table50 {
		if n != "BI" && n != "ID" && n != "EI" {
			confNames = append(confNames, n)
		}
	}
	sort.Strings(confNames)
	depth17 := ev.Pick(r, 6, 7)
	depth20 := ev.Pick(r, 5, 6)
	r.Dim("builder_depth", map[string]int{"1.7": depth17, "2.0": depth20})
	builderBFS(r, pdf.V1_7, depth17, confNames)
	lap("d_builder_1.7")
	builderBFS(r, pdf.V2_0, depth20, confNames)
	lap("d_builder_2.0")

	// (b) inline images -------------------------------------------------------
	rn.images()
	lap("b_images")

	// (a) single operators ----------------------------------------------------
	var tuples [][]pdf.Object
	tuples = append(tuples, nil)
	for _, a := range o14 {
		tuples = append(tuples, []pdf.Object{a})
		for _, b := range o14 {
			tuples = append(tuples, []pdf.Object{a, b})
			for _, c := range o14 {
				tuples = append(tuples, []pdf.Object{a, b, c})
			}
		}
	}
	nShort := len(tuples)
	for i, a := range wide {
		if i >= len(o14) {
			tuples = append(tuples, []pdf.Object{a})
		}
		for j, b := range wide {
			if i >= len(o14) || j >= len(o14) {
				tuples = append(tuples, []pdf.Object{a, b})
			}
		}
	}
	// the scanner keeps operators with up to 63 operands (DeviceN with 32 colorants needs 33)
	for _, n := range []int{33, 63} {
		t := make([]pdf.Object, n)
		for i := range t {
			t[i] = o14[i%len(o14)]
		}
		tuples = append(tuples, t)
	}
	r.Dim("operand_tuples_len<=3", nShort)
	r.Dim("operand_tuples_total", len(tuples))
	singleOpts := seqOpts{chunks: ev.Pick(r, []int{1}, []int{1, 7}), split: 3, independent: true}
	r.Par(N*len(tuples), func(i int) {
		rn.one("single", []content.Operator{op(names[i/len(tuples)], cloneArgs(tuples[i%len(tuples)])...)}, singleOpts)
	})
	r.Sample(Case{Space: "single", Ops: encOps([]content.Operator{op("TJ", tuples[700]...)})})

	lap("a_single")
	// strings, names and numbers as operands, exhaustively over the critical bytes
	var strs [][]byte
	allStrings(strAlpha, ev.Pick(r, 4, 5), func(s []byte) { strs = append(strs, append([]byte{}, s...)) })
	for L := 0; L <= 18; L++ {
		for pos := 0; pos <= L; pos++ {
			for _, c := range []string{"(", ")", "\\", "\r", "\n", "\r\n", "()", ")("} {
				s := bytes.Repeat([]byte{'a'}, L)
				s = append(s[:pos:pos], append([]byte(c), s[pos:]...)...)
				strs = append(strs, s)
			}
		}
	}
	strs = append(strs, bytes.Repeat([]byte{'('}, 600), bytes.Repeat([]byte{0xff}, 5000), bytes.Repeat([]byte("\\\r"), 300))
	r.Dim("string_operands", len(strs))
	r.Par(len(strs), func(i int) {
		s := strs[i]
		rn.one("string", []content.Operator{op("Tj", pdf.String(s))}, seqOpts{chunks: []int{1}, split: 1, independent: true})
		rn.one("string", []content.Operator{op("TJ", pdf.Array{pdf.String(s), pdf.Integer(-1), pdf.String(s)}), op("'", pdf.String(s))}, seqOpts{split: 2, independent: true})
		rn.one("string", []content.Operator{op("BDC", pdf.Name("P"), pdf.Dict{"ActualText": pdf.String(s)})}, seqOpts{split: 1, independent: true})
	})
	var nms [][]byte
	allStrings(nameAlpha, 3, func(s []byte) { nms = append(nms, append([]byte{}, s...)) })
	for _, n := range []int{127, 128, 1000, 4095} {
		nms = append(nms, bytes.Repeat([]byte{'a'}, n))
	}
	for _, n := range []int{127, 128, 1000, 4095} {
		nms = append(nms, bytes.Repeat([]byte{'#'}, n), bytes.Repeat([]byte{0}, n))
	}
	r.Dim("name_operands", len(nms))
	r.Par(len(nms), func(i int) {
		n := pdf.Name(nms[i])
		rn.one("name", []content.Operator{op("gs", n), op("Do", n)}, seqOpts{chunks: []int{1}, split: 2, independent: true})
		rn.one("name", []content.Operator{op("BDC", n, pdf.Dict{n: n}), op("Tf", n, pdf.Integer(1))}, seqOpts{split: 2, independent: true})
	})
	nums := []pdf.Object{pdf.Integer(0), pdf.Integer(1), pdf.Integer(-1), pdf.Integer(9), pdf.Integer(10),
		pdf.Integer(math.MaxInt32), pdf.Integer(math.MaxInt32 + 1), pdf.Integer(math.MinInt64), pdf.Integer(math.MaxInt64),
		pdf.Integer(-math.MaxInt32 - 1), pdf.Integer(1 << 53), pdf.Integer(65535),
		pdf.Real(0), pdf.Real(math.Copysign(0, -1)), pdf.Real(.5), pdf.Real(-1.5), pdf.Real(1e-7),
		pdf.Real(123456789.125), pdf.Real(1e20), pdf.Real(1<<53 + 2), pdf.Real(math.MaxFloat64),
		pdf.Real(math.SmallestNonzeroFloat64), pdf.Real(0.1 + 0.2), pdf.Real(-math.MaxFloat64), pdf.Real(1), pdf.Real(-2),
		pdf.Real(9.223372036854775807e18), pdf.Real(1e19), pdf.Real(3.0000000000000004), pdf.Real(1e-320),
		pdf.Number(2), pdf.Number(-0.25), pdf.Number(1e-7), pdf.Number(1e15)}
	r.Dim("number_operands", len(nums))
	r.Par(len(nums)*len(nums), func(i int) {
		a, b := nums[i/len(nums)], nums[i%len(nums)]
		rn.one("number", []content.Operator{op("Td", a, b), op("d", pdf.Array{a, b}, a)}, seqOpts{chunks: []int{1}, split: 2, independent: true})
	})

	// reals by digit structure: every number of significant digits x every position of the decimal point
	reals, rst := realFamily(r.Thorough())
	r.Dim("real_significant_digits", []int{1, realMaxDigits})
	r.Dim("real_digit_strings_per_length", rst.digitStringsPerN)
	r.Dim("real_digit_string_families", ev.Pick(r,
		[]string{"all 9", "1 0..0 1", "1234567890123456789 cut", "neighbours of 2^53 (3) and 2^63 (2) cut / scaled by 10^k"},
		[]string{"all 9", "1 0..0 1", "1234567890123456789 cut", "neighbours of 2^53 (3) and 2^63 (2) cut / scaled by 10^k", "every digit 1..8 repeated", "digits of 1/7", "6..67"}))
	r.Dim("real_point_positions", "integer part of 1..n digits; no integer part with 0..3 zeros after the point")
	r.Dim("real_decimal_literals", rst.literals)
	r.Dim("real_float64_neighbours_of_each_literal", 2)
	r.Dim("real_pow53_values", map[string]any{"exponents": []int{-4, 20}, "neighbours_each_side": ev.Pick(r, 1, 32), "values": rst.pow53})
	r.Dim("real_signs", 2)
	r.Dim("real_operands", rst.values)
	r.Dim("real_operands_by_written_digits", rst.byWrittenDigits)
	r.Dim("real_contexts", []string{"operand", "two in a row", "in array", "in dict", "in array in dict", "in inline image dict"})
	realOpts := seqOpts{chunks: []int{1, 7}, split: 2, independent: true}
	r.Par(len(reals), func(i int) {
		rn.one("real", realSeq(reals[i]), realOpts)
	})
	r.Sample(Case{Space: "real", Ops: encOps(realSeq(reals[len(reals)/2]))})

	lap("a_strings_names_numbers")
	// (a) adjacency: every ordered pair of names x (last operand, first operand)
	pairNames := names
	classes := append([]pdf.Object{}, o14...)
	nc := len(classes) + 1 // + "no operand"
	r.Dim("adjacency_operand_classes", nc)
	pairOpts := seqOpts{split: ev.Pick(r, 2, 3), independent: true}
	r.Par(len(pairNames)*len(pairNames), func(ij int) {
		if r.Expired() {
			return
		}
		n1, n2 := pairNames[ij/len(pairNames)], pairNames[ij%len(pairNames)]
		for a := 0; a < nc; a++ {
			for b := 0; b < nc; b++ {
				var a1, a2 []pdf.Object
				if a < len(classes) {
					a1 = []pdf.Object{hx.Clone(classes[a])}
				}
				if b < len(classes) {
					a2 = []pdf.Object{hx.Clone(classes[b])}
				}
				rn.one("pair", []content.Operator{op(n1, a1...), op(n2, a2...)}, pairOpts)
			}
		}
	})
	r.Sample(Case{Space: "pair", Ops: encOps([]content.Operator{op("Tj", o14[7]), op("'", o14[5])})})

	lap("a_pairs")
	// (a) every ordered triple of names with fixed operands
	tripleNames := names
	T := len(tripleNames)
	r.Dim("triple_names", T)
	natural := func(n string) []pdf.Object { return cloneArgs(naturalArgs[n]) }
	r.Par(T*T, func(ij int) {
		if r.Expired() {
			return
		}
		n1, n2 := tripleNames[ij/T], tripleNames[ij%T]
		for _, n3 := range tripleNames {
			rn.one("triple", []content.Operator{op(n1, natural(n1)...), op(n2, natural(n2)...), op(n3, natural(n3)...)}, seqOpts{split: 3})
		}
	})
	r.Sample(Case{Space: "triple", Ops: encOps([]content.Operator{op("re", natural("re")...), op("W*"), op("n")})})

	lap("a_triples")

	// thorough: wider alphabets with a reduced oracle, last so that a deadline on a loaded machine cuts only these
	if r.Thorough() {
		W := len(wide)
		r.Dim("operand_tuples_len3_wide", W*W*W)
		r.Par(N*W*W, func(i int) {
			if r.Expired() {
				return
			}
			n, a, b := names[i/(W*W)], wide[(i/W)%W], wide[i%W]
			for _, c := range wide {
				rn.one("single-wide3", []content.Operator{op(n, hx.Clone(a), hx.Clone(b), hx.Clone(c))}, seqOpts{split: 1})
			}
		})
		lap("a_single_wide3")
		wc := wide[:len(wide)-1] // without the 200-deep nesting
		nw := len(wc) + 1
		inBase := func(x int) bool { return x < len(o14) || x == len(wc) }
		r.Dim("adjacency_operand_classes_wide", nw)
		r.Par(N*N, func(ij int) {
			if r.Expired() {
				return
			}
			n1, n2 := names[ij/N], names[ij%N]
			for a := 0; a < nw; a++ {
				for b := 0; b < nw; b++ {
					if inBase(a) && inBase(b) {
						continue // done above
					}
					var a1, a2 []pdf.Object
					if a < len(wc) {
						a1 = []pdf.Object{hx.Clone(wc[a])}
					}
					if b < len(wc) {
						a2 = []pdf.Object{hx.Clone(wc[b])}
					}
					rn.one("pair-wide", []content.Operator{op(n1, a1...), op(n2, a2...)}, seqOpts{split: 2})
				}
			}
		})
		lap("a_pairs_wide")
	}
	r.Dim("seconds_per_part", secs)
	return r.Finish()
}

func checkCallsDistinct() string {
	seen := map[string]bool{}
	for _, c := range calls {
		if seen[c.name] {
			return "duplicate Builder call name " + c.name
		}
		seen[c.name] = true
	}
	if len(calls) > 255 {
		return "too many calls"
	}
	return ""
}

// ---------------------------------------------------------------------------
// (b) inline images

func imgOp(d pdf.Dict, data []byte) content.Operator {
	return content.Operator{Name: content.OpInlineImage, Args: []pdf.Object{d, pdf.String(data)}}
}

type dictVariant struct {
	desc string
	mk   func(n int) pdf.Dict
}

// data returns the image data for this variant: under an ASCII filter the
// enumerated bytes are followed by the end-of-data marker of the encoding, as
// in every valid ASCIIHex / ASCII85 stream.
func (v dictVariant) data(d []byte) []byte {
	switch {
	case strings.Contains(v.desc, "F=/AHx"):
		return append(append([]byte{}, d...), '>')
	case strings.Contains(v.desc, "F=[/A85"):
		return append(append([]byte{}, d...), '~', '>')
	}
	return d
}

func dictVariants(all bool) []dictVariant {
	var out []dictVariant
	type kv struct {
		desc string
		set  func(d pdf.Dict, n int)
	}
	bpc := []kv{{"BPC=8", func(d pdf.Dict, n int) { d["BPC"] = pdf.Integer(8) }}, {"BPC=absent", func(d pdf.Dict, n int) {}}}
	cs := []kv{{"CS=/G", func(d pdf.Dict, n int) { d["CS"] = pdf.Name("G") }}, {"CS=absent", func(d pdf.Dict, n int) {}},
		{"CS=indexed", func(d pdf.Dict, n int) {
			d["CS"] = pdf.Array{pdf.Name("I"), pdf.Name("RGB"), pdf.Integer(1), pdf.String("\x00\x00\x00\xff\xff\xff")}
		}}}
	fl := []kv{{"F=absent", func(d pdf.Dict, n int) {}}, {"F=/AHx(data+'>')", func(d pdf.Dict, n int) { d["F"] = pdf.Name("AHx") }},
		{"F=/Fl", func(d pdf.Dict, n int) { d["F"] = pdf.Name("Fl") }},
		{"F=[/A85 /Fl](data+'~>')", func(d pdf.Dict, n int) {
			d["F"] = pdf.Array{pdf.Name("A85"), pdf.Name("Fl")}
			d["DP"] = pdf.Array{nil, pdf.Dict{"Predictor": pdf.Integer(12), "Columns": pdf.Integer(2)}}
		}}}
	ln := []kv{{"L=absent", func(d pdf.Dict, n int) {}}, {"L=present", func(d pdf.Dict, n int) { d["L"] = pdf.Integer(n) }}}
	for bi, b := range bpc {
		for ci, c := range cs {
			for fi, f := range fl {
				for _, l := range ln {
					if !all && (bi != 0 || ci != 0 || fi > 1) {
						continue
					}
					b, c, f, l := b, c, f, l
					out = append(out, dictVariant{strings.Join([]string{b.desc, c.desc, f.desc, l.desc}, ";"), func(n int) pdf.Dict {
						d := pdf.Dict{"W": pdf.Integer(2), "H": pdf.Integer(1)}
						b.set(d, n)
						c.set(d, n)
						f.set(d, n)
						l.set(d, n)
						return d
					}})
				}
			}
		}
	}
	if all {
		for _, l := range ln {
			l := l
			out = append(out, dictVariant{"IM=true;D=[1 0];" + l.desc, func(n int) pdf.Dict {
				d := pdf.Dict{"W": pdf.Integer(8), "H": pdf.Integer(1), "IM": pdf.Boolean(true), "D": pdf.Array{pdf.Integer(1), pdf.Integer(0)}, "I": pdf.Boolean(false)}
				l.set(d, n)
				return d
			}})
		}
		out = append(out, dictVariant{"full-key-names;Length=present", func(n int) pdf.Dict {
			return pdf.Dict{"Width": pdf.Integer(2), "Height": pdf.Integer(1), "BitsPerComponent": pdf.Integer(8),
				"ColorSpace": pdf.Name("DeviceGray"), "Filter": pdf.Name("FlateDecode"), "Length": pdf.Integer(n), "Intent": pdf.Name("Perceptual")}
		}}, dictVariant{"full-key-names;Length=absent", func(n int) pdf.Dict {
			return pdf.Dict{"Width": pdf.Integer(2), "Height": pdf.Integer(1), "BitsPerComponent": pdf.Integer(8),
				"ColorSpace": pdf.Name("DeviceGray"), "Filter": pdf.Name("FlateDecode")}
		}})
	}
	return out
}

func (rn *runner) images() {
	r := rn.r
	var data [][]byte
	maxLen := ev.Pick(r, 5, 6)
	allStrings(imgAlpha, maxLen, func(s []byte) { data = append(data, append([]byte{}, s...)) })
	// shortest first, so that the witness recorded for a class is minimal
	sort.SliceStable(data, func(i, j int) bool { return len(data[i]) < len(data[j]) })
	nAll := len(data)
	for _, w := range whiteBytes {
		for _, base := range []string{"a", "", "aEI", "\nE", "a\nEI"} {
			data = append(data, append([]byte(base), w), append([]byte{w}, base...))
		}
	}
	// around the scanner's 512 byte buffer
	for k := 490; k <= 515; k++ {
		for _, tail := range []string{"", "\n", "\nE", "\nEIa", "EI", "\rEIa\n", "\nEI"} {
			data = append(data, append(bytes.Repeat([]byte{'a'}, k), tail...))
		}
	}
	// around the reader's limit on inline image data (4096 bytes, the
	// specification's recommendation): every length up to the limit itself
	// must survive when the dictionary states the length (PDF 2.0 /L)
	nLimit := len(data)
	for k := 4080; k <= 4096; k++ {
		for _, tail := range []string{"a", "\n", "I"} {
			data = append(data, append(bytes.Repeat([]byte{'a'}, k-1), tail...))
		}
	}
	r.Dim("image_data_lengths_at_reader_limit", "4080..4096 x last byte {a, LF, I}; dictionary variants with L=present")
	r.Dim("image_data_alphabet", "E I LF CR SP a NUL")
	r.Dim("image_data_max_len", maxLen)
	r.Dim("image_data_strings_exhaustive", nAll)
	r.Dim("image_data_strings", len(data))
	core := dictVariants(false)
	all := dictVariants(true)
	var cd, ad []string
	for _, v := range core {
		cd = append(cd, v.desc)
	}
	for _, v := range all {
		ad = append(ad, v.desc)
	}
	r.Dim("image_dict_variants_full_data", cd)
	r.Dim("image_dict_variants_short_data", len(ad))
	contexts := 4
	r.Dim("image_contexts", []string{"alone", "followed by Q", "between q and Q", "two images"})
	imgOpts := seqOpts{chunks: []int{1, 3}, split: 3, independent: true}
	var nClass, nTotal int64
	for _, d := range data {
		if hasEOLEIDelim(d) {
			nClass++
		}
	}
	nTotal = int64(len(data))
	r.Dim("image_data_with_EOL_EI_delimiter", nClass)
	_ = nTotal
	// sequential pre-pass over the shortest data (minimal witnesses)
	for i := 0; i < len(data) && len(data[i]) <= 3; i++ {
		for _, v := range core {
			d := v.data(data[i])
			rn.one("image", []content.Operator{imgOp(v.mk(len(d)), d)}, imgOpts)
		}
	}
	r.Par(len(data), func(i int) {
		if r.Expired() {
			return
		}
		d := data[i]
		for _, v := range core {
			if i >= nLimit && (!strings.Contains(v.desc, "L=present") || len(v.data(d)) > 4096) {
				continue // beyond the reader's documented limit (with the end-of-data marker of an ASCII filter)
			}
			for c := 0; c < contexts; c++ {
				d := v.data(d)
				im := imgOp(v.mk(len(d)), d)
				var ops []content.Operator
				switch c {
				case 0:
					ops = []content.Operator{im}
				case 1:
					ops = []content.Operator{im, op("Q")}
				case 2:
					ops = []content.Operator{op("q"), im, op("Q")}
				case 3:
					ops = []content.Operator{im, imgOp(v.mk(len(d)), d)}
				}
				rn.one("image", ops, imgOpts)
			}
		}
		if len(data[i]) <= 3 || (i >= nAll && i < nLimit) {
			for _, v := range all {
				d := v.data(d)
				rn.one("image-dict", []content.Operator{op("cm", pdf.Integer(1), pdf.Integer(0), pdf.Integer(0), pdf.Integer(1), pdf.Integer(0), pdf.Integer(0)),
					imgOp(v.mk(len(d)), d), op("EMC")}, seqOpts{split: 2, independent: true})
			}
		}
	})
	r.Sample(Case{Space: "image", Ops: encOps([]content.Operator{imgOp(core[0].mk(4), []byte("E\nIa")), op("Q")})})
}

// ---------------------------------------------------------------------------

func (rn *runner) replayCase(c Case) {
	r := rn.r
	if c.Builder != nil {
		v, err := pdf.ParseVersion(c.Builder.Version)
		if err != nil {
			r.Infra("replay: bad version " + c.Builder.Version)
			return
		}
		h := make([]uint8, len(c.Builder.Calls))
		for i, x := range c.Builder.Calls {
			if x < 0 || x >= len(calls) || (i < len(c.Builder.Names) && calls[x].name != c.Builder.Names[i]) {
				r.Infra("replay: the Builder call table changed")
				return
			}
			h[i] = uint8(x)
		}
		// every prefix must be accepted for the history to be in the domain
		for k := 1; k <= len(h); k++ {
			res := runHistory(r, v, h[:k])
			r.Eval(int64(res.runs) + 1)
			if res.fail != nil {
				r.Outcome("builder:fail:" + res.fail.fp)
				r.Violation(res.fail.fp, res.fail.what, Case{Space: "builder", Builder: ptr(mkBuilderCase(v, h[:k]))})
				return
			}
			if res.pruned != "" {
				r.Outcome("builder:rejected-call:" + res.pruned)
				return
			}
		}
		r.Outcome("builder:accepted")
		return
	}
	rn.one(c.Space, decOps(c.Ops), fullOpts)
}

// Replay re-executes the case of a replay file.
func Replay(path string) int {
	var c Case
	if err := ev.ReplayCase(path, &c); err != nil {
		fmt.Println("replay:", err)
		return 2
	}
	r := ev.New("C15", "quick", "model_checking", time.Minute)
	r.SetReplayMode()
	(&runner{r}).replayCase(c)
	return r.Finish()
}
