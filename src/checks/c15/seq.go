//go:build verif

package c15

import (
	"bytes"
	"fmt"
	"io"

	"seehuhn.de/go/pdf"
	"seehuhn.de/go/pdf/graphics/content"
	"seehuhn.de/go/pdf/page"
	"seehuhn.de/go/pdf/zzverif/checks/hx"
	"seehuhn.de/go/pdf/zzverif/ref/pdfsyn"
)

type failure struct {
	fp, what string
}

// OpJ is the JSON form of one operator.
type OpJ struct {
	Name string `json:"name"`
	Args []any  `json:"args"`
}

func encOps(ops []content.Operator) []OpJ {
	out := make([]OpJ, len(ops))
	for i, o := range ops {
		out[i] = OpJ{Name: string(o.Name), Args: hx.EncList(o.Args)}
	}
	return out
}

func decOps(l []OpJ) []content.Operator {
	out := make([]content.Operator, len(l))
	for i, o := range l {
		out[i] = content.Operator{Name: content.OpName(o.Name), Args: hx.DecList(o.Args)}
	}
	return out
}

func showOps(ops []content.Operator) string {
	var b bytes.Buffer
	for i, o := range ops {
		if i > 0 {
			b.WriteString(" ; ")
		}
		for _, a := range o.Args {
			b.WriteString(hx.Show(a))
			b.WriteByte(' ')
		}
		b.WriteString(string(o.Name))
	}
	s := b.String()
	if len(s) > 400 {
		s = s[:400] + "..."
	}
	return s
}

// serialise writes ops with the content writer (Operators.RawBytes, which
// calls Operator.Format per operator).
func serialise(ops []content.Operator) ([]byte, error) {
	rc, err := (&content.Operators{Ops: ops}).RawBytes()
	if err != nil {
		return nil, err
	}
	defer rc.Close()
	return io.ReadAll(rc)
}

// chunkReader hands out at most n bytes per Read.
type chunkReader struct {
	data []byte
	n    int
}

func (c *chunkReader) Read(p []byte) (int, error) {
	if len(c.data) == 0 {
		return 0, io.EOF
	}
	k := c.n
	if k > len(p) {
		k = len(p)
	}
	if k > len(c.data) {
		k = len(c.data)
	}
	copy(p, c.data[:k])
	c.data = c.data[k:]
	return k, nil
}

func collect(it content.Iter) ([]content.Operator, error) {
	var out []content.Operator
	for name, args := range it.All() {
		out = append(out, content.Operator{Name: name, Args: append([]pdf.Object(nil), args...)})
	}
	return out, it.Err()
}

// scan runs the content scanner over data; chunk > 0 delivers the bytes in
// pieces of that size.
func scan(data []byte, chunk int) ([]content.Operator, error) {
	st := content.NewScanner(func() (io.ReadCloser, error) {
		if chunk > 0 {
			return io.NopCloser(&chunkReader{data: data, n: chunk}), nil
		}
		return io.NopCloser(bytes.NewReader(data)), nil
	})
	return collect(st.NewIter())
}

// scanSegments reads the operators as the content streams of one page.
func scanSegments(parts [][]content.Operator) ([]content.Operator, error) {
	segs := make([]page.Segment, len(parts))
	for i, p := range parts {
		segs[i] = &content.Operators{Ops: p}
	}
	pg := &page.Page{Contents: segs}
	return collect(pg.NewIter())
}

func isImage(o content.Operator) bool { return o.Name == content.OpInlineImage }

func imageParts(o content.Operator) (pdf.Dict, []byte, bool) {
	if len(o.Args) != 2 {
		return nil, nil, false
	}
	d, ok1 := o.Args[0].(pdf.Dict)
	s, ok2 := o.Args[1].(pdf.String)
	return d, []byte(s), ok1 && ok2
}

// firstFilterIsASCII reports whether the data of the inline image is in an
// ASCII encoding (the first filter of the chain is the outermost encoding).
func firstFilterIsASCII(d pdf.Dict) bool {
	f, ok := d["F"]
	if !ok {
		f = d["Filter"]
	}
	if a, ok := f.(pdf.Array); ok && len(a) > 0 {
		f = a[0]
	}
	n, _ := f.(pdf.Name)
	switch n {
	case "AHx", "ASCIIHexDecode", "A85", "ASCII85Decode":
		return true
	}
	return false
}

func stripWS(b []byte) []byte {
	out := make([]byte, 0, len(b))
	for _, c := range b {
		if !pdfsyn.IsWhite(c) {
			out = append(out, c)
		}
	}
	return out
}

func hasLength(d pdf.Dict) bool {
	_, a := d["L"]
	_, b := d["Length"]
	return a || b
}

// hasEOLEIDelim reports whether data, as framed by the writer (followed by
// LF "EI"), contains an end-of-line, "EI" and a non-regular byte: the
// sequence by which a reader without a length recognises the end of the
// image.
func hasEOLEIDelim(data []byte) bool {
	for i := 0; i+2 < len(data); i++ {
		if (data[i] == '\n' || data[i] == '\r') && data[i+1] == 'E' && data[i+2] == 'I' {
			if i+3 == len(data) || !pdfsyn.IsRegular(data[i+3]) {
				return true
			}
		}
	}
	return false
}

// writerMayRefuse reports whether the sequence has an inline image without
// length whose data contains white space, "EI" and a non-regular byte (or
// the end): data for which the format has no representation before PDF 2.0.
// A writer that answers such a sequence with an error has "not accepted" it.
func writerMayRefuse(ops []content.Operator) bool {
	for _, o := range ops {
		if !isImage(o) {
			continue
		}
		d, data, ok := imageParts(o)
		if !ok || hasLength(d) {
			continue
		}
		for i := 0; i+2 < len(data); i++ {
			if pdfsyn.IsWhite(data[i]) && data[i+1] == 'E' && data[i+2] == 'I' && (i+3 == len(data) || !pdfsyn.IsRegular(data[i+3])) {
				return true
			}
		}
	}
	return false
}

const fpEIKnown = "inline-image-data-contains-EOL-EI-delimiter;L=absent"
const fpASCIILen = "inline-image-lost;F=ASCII;L=present;data-starts-with-2-white-space-bytes"

// lastFilterIsASCII is the scanner's own test for "ASCII filter".
func lastFilterIsASCII(d pdf.Dict) bool {
	f, ok := d["F"]
	if !ok {
		f = d["Filter"]
	}
	if a, ok := f.(pdf.Array); ok && len(a) > 0 {
		f = a[len(a)-1]
	}
	n, _ := f.(pdf.Name)
	switch n {
	case "AHx", "ASCIIHexDecode", "A85", "ASCII85Decode":
		return true
	}
	return false
}

// imageClass returns the fingerprint of the understood inline-image defect
// class if some image of the sequence belongs to it.
func imageClass(ops []content.Operator) string {
	for _, o := range ops {
		if !isImage(o) {
			continue
		}
		d, data, ok := imageParts(o)
		if ok && !hasLength(d) && hasEOLEIDelim(data) {
			return fpEIKnown
		}
		if ok && hasLength(d) && lastFilterIsASCII(d) && len(data) >= 2 && pdfsyn.IsWhite(data[0]) && pdfsyn.IsWhite(data[1]) {
			return fpASCIILen
		}
	}
	return ""
}

// compareOps compares scanned operators with the operators written.
func compareOps(got, want []content.Operator) (string, string) {
	if len(got) != len(want) {
		return "operator-count", fmt.Sprintf("%d operators written, %d read: %s", len(want), len(got), showOps(got))
	}
	for i := range want {
		if got[i].Name != want[i].Name {
			return "operator-name", fmt.Sprintf("operator %d: wrote %q read %q", i, want[i].Name, got[i].Name)
		}
		if len(got[i].Args) != len(want[i].Args) {
			return "operand-count", fmt.Sprintf("operator %d (%s): %d operands written, %d read: %s", i, want[i].Name, len(want[i].Args), len(got[i].Args), showOps(got[i:i+1]))
		}
		if isImage(want[i]) {
			wd, wdata, _ := imageParts(want[i])
			gd, gdata, ok := imageParts(got[i])
			if !ok {
				return "image-operand-types", fmt.Sprintf("operator %d: image read back with operand types %T", i, got[i].Args)
			}
			if !hx.Equal(gd, wd) {
				return "image-dict", fmt.Sprintf("operator %d: image dict written %s read %s", i, hx.Show(wd), hx.Show(gd))
			}
			if firstFilterIsASCII(wd) {
				wdata, gdata = stripWS(wdata), stripWS(gdata)
			}
			if !bytes.Equal(wdata, gdata) {
				return "image-data", fmt.Sprintf("operator %d: image data written %q read %q", i, wdata, gdata)
			}
			continue
		}
		for k := range want[i].Args {
			if !hx.Equal(got[i].Args[k], want[i].Args[k]) {
				return "operand:" + operandClass(want[i].Args[k]), fmt.Sprintf("operator %d (%s) operand %d: wrote %s read %s", i, want[i].Name, k, hx.Show(want[i].Args[k]), hx.Show(got[i].Args[k]))
			}
		}
	}
	return "", ""
}

// operandClass is kindOf, with the number of significant digits for reals.
func operandClass(o pdf.Object) string {
	if x, ok := o.(pdf.Real); ok {
		return "real;" + sigDigitBucket(float64(x))
	}
	return kindOf(o)
}

func kindOf(o pdf.Object) string {
	switch o.(type) {
	case nil:
		return "null"
	case pdf.Array:
		return "array"
	case pdf.Dict:
		return "dict"
	case pdf.String:
		return "string"
	case pdf.Name:
		return "name"
	case pdf.Integer:
		return "integer"
	case pdf.Real:
		return "real"
	case pdf.Boolean:
		return "boolean"
	default:
		return fmt.Sprintf("%T", o)
	}
}

// independentOps reads data with the independent tokenizer and groups the
// tokens into operators.  Inline images are framed with the knowledge of the
// expected data length (imgLens, in order of appearance) when the
// dictionary has no L: the point is to judge the writer's framing.
func independentOps(data []byte, imgLens []int) ([]content.Operator, error) {
	p := pdfsyn.NewParser(data)
	p.ContentMode = true
	var out []content.Operator
	var args []pdf.Object
	img := 0
	for !p.AtEnd() {
		v, err := p.Object()
		if err != nil {
			return out, err
		}
		if v.K != pdfsyn.Keyword {
			args = append(args, hx.ToPdf(v))
			continue
		}
		name := string(v.S)
		if name != "BI" {
			out = append(out, content.Operator{Name: content.OpName(name), Args: args})
			args = nil
			continue
		}
		d := pdf.Dict{}
		for {
			k, err := p.Object()
			if err != nil {
				return out, err
			}
			if k.K == pdfsyn.Keyword && string(k.S) == "ID" {
				break
			}
			if k.K != pdfsyn.Name {
				return out, fmt.Errorf("inline image key is not a name")
			}
			val, err := p.Object()
			if err != nil {
				return out, err
			}
			if val.K != pdfsyn.Null {
				d[pdf.Name(k.S)] = hx.ToPdf(val)
			}
		}
		if p.Pos >= len(p.Buf) || !pdfsyn.IsWhite(p.Buf[p.Pos]) {
			return out, fmt.Errorf("ID not followed by white space")
		}
		p.Pos++
		n := -1
		if l, ok := d["L"].(pdf.Integer); ok {
			n = int(l)
		} else if img < len(imgLens) {
			n = imgLens[img]
		}
		img++
		if n < 0 || p.Pos+n > len(p.Buf) {
			return out, fmt.Errorf("inline image data runs past the end")
		}
		body := append([]byte{}, p.Buf[p.Pos:p.Pos+n]...)
		p.Pos += n
		for p.Pos < len(p.Buf) && pdfsyn.IsWhite(p.Buf[p.Pos]) {
			p.Pos++
		}
		if !bytes.HasPrefix(p.Buf[p.Pos:], []byte("EI")) {
			return out, fmt.Errorf("no EI after %d bytes of inline image data", n)
		}
		p.Pos += 2
		if p.Pos < len(p.Buf) && pdfsyn.IsRegular(p.Buf[p.Pos]) {
			return out, fmt.Errorf("EI runs into the next token")
		}
		out = append(out, content.Operator{Name: content.OpInlineImage, Args: []pdf.Object{d, pdf.String(body)}})
		args = nil
	}
	if len(args) > 0 {
		return out, fmt.Errorf("%d operands without operator at the end", len(args))
	}
	return out, nil
}

// seqOpts selects the parts of the oracle to run.
type seqOpts struct {
	chunks      []int // additional chunk sizes for re-scanning
	split       int   // maximal number of content streams (1, 2 or 3)
	independent bool
}

// checkSeq is the oracle for parts (a)-(c): the operators written are the
// operators read. It returns the number of scanner runs.
func checkSeq(ops []content.Operator, o seqOpts) (int, []byte, *failure) {
	runs := 0
	fail := func(stage, kind, detail string, data []byte) *failure {
		fp := imageClass(ops)
		if fp == "" {
			fp = stage + ":" + kind
		}
		return &failure{fp, fmt.Sprintf("%s: %s; written %q", stage, detail, clip(data))}
	}
	data, err := serialise(ops)
	if err != nil {
		return runs, nil, &failure{"format-error", "the content writer returned " + err.Error() + " for " + showOps(ops)}
	}
	// Operator.Format one by one gives the same bytes
	var fb bytes.Buffer
	for _, op := range ops {
		if err := op.Format(&fb); err != nil {
			return runs, data, &failure{"format-error", "Operator.Format returned " + err.Error()}
		}
	}
	if !bytes.Equal(fb.Bytes(), data) {
		return runs, data, &failure{"rawbytes-differs-from-format", fmt.Sprintf("RawBytes %q, Format %q", clip(data), clip(fb.Bytes()))}
	}

	got, err := scan(data, 0)
	runs++
	if err != nil {
		return runs, data, &failure{"scan-error", fmt.Sprintf("scanner reports %v for %q", err, clip(data))}
	}
	if k, d := compareOps(got, ops); k != "" {
		return runs, data, fail("reread", k, d, data)
	}
	for _, c := range o.chunks {
		got, err := scan(data, c)
		runs++
		if err != nil {
			return runs, data, &failure{"scan-error", fmt.Sprintf("scanner reports %v for %q in chunks of %d", err, clip(data), c)}
		}
		if k, d := compareOps(got, ops); k != "" {
			return runs, data, fail(fmt.Sprintf("reread-chunk%d", c), k, d, data)
		}
	}
	if o.independent {
		var lens []int
		for _, op := range ops {
			if isImage(op) {
				_, body, _ := imageParts(op)
				lens = append(lens, len(body))
			}
		}
		iops, err := independentOps(data, lens)
		if err != nil {
			return runs, data, &failure{"independent-reader:error", fmt.Sprintf("independent reader rejects %q: %v", clip(data), err)}
		}
		if k, d := compareOps(iops, ops); k != "" {
			return runs, data, &failure{"independent-reader:" + k, fmt.Sprintf("independent reader: %s; written %q", d, clip(data))}
		}
	}
	n := len(ops)
	if o.split >= 2 {
		for i := 0; i <= n; i++ {
			got, err := scanSegments([][]content.Operator{ops[:i], ops[i:]})
			runs++
			if err != nil {
				return runs, data, &failure{"scan-error", fmt.Sprintf("split %d|: %v", i, err)}
			}
			if k, d := compareOps(got, ops); k != "" {
				return runs, data, fail(fmt.Sprintf("split2@%d", bucket(i, n)), k, d, data)
			}
		}
	}
	if o.split >= 3 {
		for i := 0; i <= n; i++ {
			for j := i; j <= n; j++ {
				got, err := scanSegments([][]content.Operator{ops[:i], ops[i:j], ops[j:]})
				runs++
				if err != nil {
					return runs, data, &failure{"scan-error", fmt.Sprintf("split %d|%d: %v", i, j, err)}
				}
				if k, d := compareOps(got, ops); k != "" {
					return runs, data, fail("split3", k, d, data)
				}
			}
		}
	}
	return runs, data, nil
}

// bucket classifies a cut position for fingerprints: start, inside, end.
func bucket(i, n int) int {
	switch {
	case i == 0:
		return 0
	case i == n:
		return 2
	}
	return 1
}

func clip(b []byte) []byte {
	if len(b) > 300 {
		return append(append([]byte{}, b[:300]...), "..."...)
	}
	return b
}
