//go:build verif

package c15

import (
	"math"
	"strconv"
	"strings"

	"seehuhn.de/go/pdf"
	"seehuhn.de/go/pdf/graphics/content"
)

// Real operands by digit structure.
//
// The family is the finite set of float64 values nearest to the decimals
//
//	sign  x  digit string  x  position of the decimal point
//
// for every number of significant digits n in 1..19, every digit string of
// realDigitStrings(n) and every position of the point: an integer part of
// k = 1..n digits, or no integer part and z = 0..3 zeros between the point
// and the first digit; each value with its two float64 neighbours
// (math.Nextafter: the values whose shortest decimal form needs 16 or 17
// digits and ends next to a short decimal). On top of that come the float64
// values around 2^53 * 10^-e for every e in -4..20 (the values whose
// shortest decimal form has a mantissa next to 2^53, at every position of
// the point).
//
// The decimal -> float64 step of the harness is strconv.ParseFloat (trusted
// base, correctly rounded); the writer then chooses its own digits for the
// float64, the scanner has to give back that float64 exactly.

const realMaxDigits = 19

// the bases of digit family (d): the 16 digit neighbours of 2^53 and the
// 19 digit neighbours of 2^63
var realBases = []string{
	"9007199254740991", "9007199254740992", "9007199254740993",
	"9223372036854775807", "9223372036854775808",
}

// realDigitStrings returns the digit strings with n significant digits.
func realDigitStrings(n int, thorough bool) []string {
	var out []string
	// (a) all nines
	out = append(out, strings.Repeat("9", n))
	// (b) 1, zeros, 1
	if n == 1 {
		out = append(out, "1")
	} else {
		out = append(out, "1"+strings.Repeat("0", n-2)+"1")
	}
	// (c) 1234567890123456789 cut to n digits
	out = append(out, "1234567890123456789"[:n])
	// (d) the neighbours of 2^53 and 2^63 cut to n digits, or scaled by a
	// power of ten to n digits
	for _, b := range realBases {
		if n <= len(b) {
			out = append(out, b[:n])
		} else {
			out = append(out, b+strings.Repeat("0", n-len(b)))
		}
	}
	if thorough {
		// (e) every other digit repeated; (f) the digits of 1/7 and of 2/3
		for d := byte('1'); d <= '8'; d++ {
			out = append(out, strings.Repeat(string(d), n))
		}
		out = append(out, "1428571428571428571"[:n], "6666666666666666667"[19-n:])
	}
	return out
}

// realPointPositions returns the decimal literals for the digit string d at
// every position of the decimal point.
func realPointPositions(d string, maxLeadingZeros int) []string {
	var out []string
	for z := 0; z <= maxLeadingZeros; z++ {
		out = append(out, "0."+strings.Repeat("0", z)+d)
	}
	for k := 1; k <= len(d); k++ {
		out = append(out, d[:k]+"."+d[k:])
	}
	return out
}

type realStats struct {
	digitStringsPerN int
	literals         int
	pow53            int
	values           int
	byWrittenDigits  map[string]int
}

// realFamily returns the distinct float64 values of the family in a fixed
// order.
func realFamily(thorough bool) ([]float64, realStats) {
	var st realStats
	seen := map[uint64]bool{}
	var out []float64
	add := func(x float64) {
		if math.IsInf(x, 0) || math.IsNaN(x) {
			return
		}
		for _, y := range []float64{x, -x} {
			b := math.Float64bits(y)
			if !seen[b] {
				seen[b] = true
				out = append(out, y)
			}
		}
	}
	for n := 1; n <= realMaxDigits; n++ {
		ds := realDigitStrings(n, thorough)
		st.digitStringsPerN = len(ds)
		for _, d := range ds {
			for _, lit := range realPointPositions(d, 3) {
				x, err := strconv.ParseFloat(lit, 64)
				if err != nil {
					continue
				}
				st.literals++
				add(x)
				add(math.Nextafter(x, 0))
				add(math.Nextafter(x, math.Inf(1)))
			}
		}
	}
	// 2^53 * 10^-e rounded to nearest, with its neighbours
	nb := 1
	if thorough {
		nb = 32
	}
	for e := -4; e <= 20; e++ {
		x, err := strconv.ParseFloat("9007199254740992e"+strconv.Itoa(-e), 64)
		if err != nil {
			continue
		}
		st.pow53++
		add(x)
		up, down := x, x
		for k := 0; k < nb; k++ {
			up = math.Nextafter(up, math.Inf(1))
			down = math.Nextafter(down, 0)
			add(up)
			add(down)
			st.pow53 += 2
		}
	}
	st.values = len(out)
	st.byWrittenDigits = map[string]int{}
	for _, x := range out {
		st.byWrittenDigits[sigDigitBucket(x)]++
	}
	return out, st
}

// sigDigits is the number of significant digits of the shortest decimal form
// of x (the form the content writer uses).
func sigDigits(x float64) int {
	s := strconv.FormatFloat(math.Abs(x), 'e', -1, 64)
	if i := strings.IndexByte(s, 'e'); i >= 0 {
		s = s[:i]
	}
	return len(strings.ReplaceAll(s, ".", ""))
}

// sigDigitBucket classifies a real for fingerprints: up to 15 significant
// digits every decimal mantissa is an exact float64, 16 and 17 digit
// mantissas may lie above 2^53.
func sigDigitBucket(x float64) string {
	switch n := sigDigits(x); {
	case n <= 15:
		return "sig-digits<=15"
	default:
		return "sig-digits=" + strconv.Itoa(n)
	}
}

// realSeq is the operator sequence in which a value of the family is
// written: as a top-level operand, twice in a row, inside an array, inside a
// dictionary and inside the dictionary of an inline image.
func realSeq(x float64) []content.Operator {
	v := pdf.Real(x)
	return []content.Operator{
		op("w", v),
		op("d", pdf.Array{v, pdf.Integer(2)}, v),
		op("Td", v, v),
		op("BDC", pdf.Name("P"), pdf.Dict{"K": v, "A": pdf.Array{pdf.Integer(1), v}}),
		imgOp(pdf.Dict{"W": pdf.Integer(8), "H": pdf.Integer(1), "IM": pdf.Boolean(true), "D": pdf.Array{v, pdf.Integer(0)}}, []byte{0x55}),
		op("EMC"),
	}
}
