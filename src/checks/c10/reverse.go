//go:build verif

package c10

import (
	"bytes"
	"compress/zlib"
	"errors"
	"fmt"
	"io"
	"sort"
	"strings"

	"golang.org/x/text/language"
	"seehuhn.de/go/pdf"
	"seehuhn.de/go/pdf/zzverif/checks/hx"
	"seehuhn.de/go/pdf/zzverif/ref/pdffile"
	"seehuhn.de/go/pdf/zzverif/ref/pdfsyn"
	"seehuhn.de/go/pdf/zzverif/ref/stdsec"
	"seehuhn.de/go/xmp"
)

// ---------------------------------------------------------------------------
// the model of direction 2

// revGraph is the object graph of the reference-written files.  Every item
// has an explicit (number, generation); together they cover the whole
// (number, generation) alphabet in one file, which costs nothing because the
// serialiser writes cross-reference subsections.  The generation of object 7
// is the case's Gen.
type revItem struct {
	item
	num, gen int
	flate    bool
}

const (
	revCatalog = 2
	revPages   = 3
	revInfo    = 4
	revMeta    = 5
)

func reverseGraph() *graph {
	// the items proper are produced by revItems (they depend on the case)
	return &graph{title: string(marker(70, 0, 24)), xmpTitle: string(marker(71, 0, 32))}
}

func revItems(gen7 int) []revItem {
	big := append(bytes.Repeat([]byte("compressible body 0123456789 "), 40), marker(66, 9, 40)...)
	return []revItem{
		{num: 1, item: item{name: "dict", obj: pdf.Dict{"S": mstr(60, 0, 24), "D": pdf.Dict{"S2": mstr(60, 1, 25), "D3": pdf.Dict{"S3": mstr(60, 2, 26)}},
			"B15": mstr(60, 3, 15), "B16": mstr(60, 4, 16), "B17": mstr(60, 5, 17), "B31": mstr(60, 6, 31), "B32": mstr(60, 7, 32), "B33": mstr(60, 8, 33),
			"E": pdf.String(""), "Same1": sameString, "Same2": sameString, "N": pdf.Name("Nm"), "I": pdf.Integer(-3)}}},
		{num: 255, item: item{name: "top-level string", obj: mstr(61, 0, 24)}},
		{num: 256, item: item{name: "array", obj: pdf.Array{mstr(62, 0, 24), pdf.String(allBytes()), pdf.Array{mstr(62, 1, 24), pdf.Array{sameString}}, pdf.String("")}}},
		{num: 65535, item: item{name: "plain stream", stream: &streamSpec{dict: pdf.Dict{"Key": mstr(63, 0, 24), "Arr": pdf.Array{mstr(63, 1, 24)}}, body: marker(63, 9, 100)}}},
		{num: 65536, item: item{name: "dict at 2^16", obj: pdf.Dict{"S": mstr(64, 0, 24), "Same": sameString}}},
		{num: maxObjNum, item: item{name: "flate stream at 2^24-1", stream: &streamSpec{dict: pdf.Dict{"Note": mstr(66, 0, 24)}, body: big}}, flate: true},
		{num: 7, gen: gen7, item: item{name: "dict with generation", obj: pdf.Dict{"S": mstr(67, 0, 24), "A": pdf.Array{mstr(67, 1, 17), sameString}}}},
		{num: 8, gen: 255, item: item{name: "stream with generation 255", stream: &streamSpec{dict: pdf.Dict{"Same": sameString}, body: sameBody}}},
		{num: 9, gen: 256, item: item{name: "string with generation 256", obj: mstr(68, 0, 24)}},
		{num: 10, gen: 65535, item: item{name: "array with generation 65535", obj: pdf.Array{mstr(69, 0, 24), mstr(69, 1, 16)}}},
		{num: 11, item: item{name: "empty stream", stream: &streamSpec{dict: pdf.Dict{}, body: nil}}},
		{num: 12, item: item{name: "15-byte stream", stream: &streamSpec{dict: pdf.Dict{}, body: marker(72, 9, 15)}}},
		{num: 13, item: item{name: "16-byte stream", stream: &streamSpec{dict: pdf.Dict{}, body: marker(73, 9, 16)}}},
		{num: 14, item: item{name: "17-byte stream", stream: &streamSpec{dict: pdf.Dict{}, body: marker(74, 9, 17)}}},
		{num: 15, item: item{name: "equal body", stream: &streamSpec{dict: pdf.Dict{}, body: sameBody}}},
		{num: 16, item: item{name: "2000-byte stream", stream: &streamSpec{dict: pdf.Dict{"Note": mstr(75, 0, 24)}, body: marker(75, 9, 2000)}}},
		// component-level metadata: encrypted like every other stream, also
		// when /EncryptMetadata is false (that entry is about the
		// document-level metadata stream only)
		{num: 17, item: item{name: "component metadata stream (Metadata/XML)", stream: &streamSpec{dict: pdf.Dict{"Type": pdf.Name("Metadata"), "Subtype": pdf.Name("XML"), "Note": mstr(76, 0, 24)}, body: marker(76, 9, 200)}}},
		{num: 18, item: item{name: "component metadata stream (Metadata/XML, Flate)", stream: &streamSpec{dict: pdf.Dict{"Type": pdf.Name("Metadata"), "Subtype": pdf.Name("XML")},
			body: append(bytes.Repeat([]byte("<rdf:li>compressible packet text</rdf:li> "), 30), marker(77, 9, 40)...)}}, flate: true},
	}
}

// revItemsFor gives the items of the file of a direction-2 case.
func revItemsFor(c *Case) []revItem {
	if c.Graph == "len" {
		return lenRevItems(c.LenLo, c.LenHi)
	}
	return revItems(c.Gen)
}

// ---------------------------------------------------------------------------
// the serialiser (classic cross-reference table with subsections)

type serObj struct {
	num, gen int
	val      pdfsyn.Value
	isStream bool
	data     []byte // stream data as stored (already encoded and encrypted)
}

func serialise(header string, objs []serObj, trailer pdfsyn.Value, st pdfsyn.Style) []byte {
	var b bytes.Buffer
	b.WriteString("%PDF-" + header + "\n%\xE2\xE3\xCF\xD3\n")
	sort.Slice(objs, func(i, j int) bool { return objs[i].num < objs[j].num })
	offs := make([]int, len(objs))
	for i, o := range objs {
		offs[i] = b.Len()
		fmt.Fprintf(&b, "%d %d obj\n", o.num, o.gen)
		pdfsyn.Print(&b, o.val, st)
		if o.isStream {
			b.WriteString("\nstream\n")
			b.Write(o.data)
			b.WriteString("\nendstream")
		}
		b.WriteString("\nendobj\n")
	}
	xref := b.Len()
	b.WriteString("xref\n0 1\n0000000000 65535 f \n")
	for i := 0; i < len(objs); {
		j := i
		for j+1 < len(objs) && objs[j+1].num == objs[j].num+1 {
			j++
		}
		fmt.Fprintf(&b, "%d %d\n", objs[i].num, j-i+1)
		for k := i; k <= j; k++ {
			fmt.Fprintf(&b, "%010d %05d n \n", offs[k], objs[k].gen)
		}
		i = j + 1
	}
	tr := trailer
	tr.D = append([]pdfsyn.Entry{{Key: []byte("Size"), Val: pdfsyn.IntV(int64(objs[len(objs)-1].num) + 1)}}, tr.D...)
	b.WriteString("trailer\n")
	pdfsyn.Print(&b, tr, st)
	fmt.Fprintf(&b, "\nstartxref\n%d\n%%%%EOF\n", xref)
	return b.Bytes()
}

// encValue converts the plain-value form of an Encrypt dictionary.
func encValue(m map[string]any) pdfsyn.Value {
	keys := make([]string, 0, len(m))
	for k := range m {
		keys = append(keys, k)
	}
	sort.Strings(keys)
	v := pdfsyn.Value{K: pdfsyn.Dict}
	for _, k := range keys {
		var e pdfsyn.Value
		switch x := m[k].(type) {
		case int:
			e = pdfsyn.IntV(int64(x))
		case int64:
			e = pdfsyn.IntV(x)
		case bool:
			e = pdfsyn.BoolV(x)
		case string:
			e = pdfsyn.NameV(x)
		case []byte:
			e = pdfsyn.Value{K: pdfsyn.String, S: x}
		case map[string]any:
			e = encValue(x)
		default:
			panic(fmt.Sprintf("encValue: %T", x))
		}
		v.D = append(v.D, pdfsyn.Entry{Key: []byte(k), Val: e})
	}
	return v
}

// encryptValue encrypts every string of v for object (num, gen).
func encryptValue(h *stdsec.Handler, num, gen int, v pdfsyn.Value) (pdfsyn.Value, error) {
	switch v.K {
	case pdfsyn.String:
		ct, err := h.EncryptString(num, gen, v.S)
		if err != nil {
			return v, err
		}
		return pdfsyn.Value{K: pdfsyn.String, S: ct}, nil
	case pdfsyn.Array:
		out := pdfsyn.Value{K: pdfsyn.Array, A: make([]pdfsyn.Value, len(v.A))}
		for i, e := range v.A {
			x, err := encryptValue(h, num, gen, e)
			if err != nil {
				return v, err
			}
			out.A[i] = x
		}
		return out, nil
	case pdfsyn.Dict:
		out := pdfsyn.Value{K: pdfsyn.Dict, D: make([]pdfsyn.Entry, len(v.D))}
		for i, e := range v.D {
			x, err := encryptValue(h, num, gen, e.Val)
			if err != nil {
				return v, err
			}
			out.D[i] = pdfsyn.Entry{Key: e.Key, Val: x}
		}
		return out, nil
	}
	return v, nil
}

func deflate(p []byte) []byte {
	var b bytes.Buffer
	w := zlib.NewWriter(&b)
	w.Write(p)
	w.Close()
	return b.Bytes()
}

func revXMP(g *graph) ([]byte, *pdf.MetadataStream, error) {
	packet := xmp.NewPacket()
	dc := &xmp.DublinCore{}
	dc.Title.Set(language.Und, g.xmpTitle)
	if err := packet.Set(dc); err != nil {
		return nil, nil, err
	}
	var b bytes.Buffer
	if err := packet.Write(&b, &xmp.PacketOptions{}); err != nil {
		return nil, nil, err
	}
	return b.Bytes(), &pdf.MetadataStream{Data: packet}, nil
}

func revID(mode string) [][]byte {
	switch mode {
	case "empty":
		return [][]byte{{}, {}}
	case "16":
		return [][]byte{marker(80, 0, 16), marker(80, 1, 16)}
	case "32":
		return [][]byte{marker(81, 0, 32), marker(81, 1, 32)}
	}
	panic("bad id mode " + mode)
}

type built struct {
	data  []byte
	items []revItem
	xmp   []byte
	ms    *pdf.MetadataStream
	h     *stdsec.Handler
}

var errNotPreparable = errors.New("password not preparable for the revision")

// buildFile writes the file of a direction-2 case with ref/stdsec and the
// serialiser above.
func buildFile(g *graph, c *Case) (*built, error) {
	id := revID(c.ID)
	enc, h, err := stdsec.New(stdsec.Params{R: c.R, V: c.V, KeyBits: c.KeyBits, AES: c.AES, User: c.User, Owner: c.Owner, P: int32(c.Perm),
		PlaintextMetadata: c.Meta == "plaintext", ID0: id[0], OwnerKeyFirstN: c.OwnerN})
	if err != nil {
		if errors.Is(err, stdsec.ErrPassword) {
			return nil, errNotPreparable
		}
		return nil, err
	}
	bl := &built{items: revItemsFor(c), h: h}
	var objs []serObj
	add := func(num, gen int, v pdfsyn.Value) error {
		ev, err := encryptValue(h, num, gen, v)
		if err != nil {
			return err
		}
		objs = append(objs, serObj{num: num, gen: gen, val: ev})
		return nil
	}
	addStream := func(num, gen int, dict pdfsyn.Value, stored []byte, encrypt bool) error {
		ev, err := encryptValue(h, num, gen, dict)
		if err != nil {
			return err
		}
		if encrypt {
			stored, err = h.EncryptStream(num, gen, stored)
			if err != nil {
				return err
			}
		}
		ev.D = append(ev.D, pdfsyn.Entry{Key: []byte("Length"), Val: pdfsyn.IntV(int64(len(stored)))})
		objs = append(objs, serObj{num: num, gen: gen, val: ev, isStream: true, data: stored})
		return nil
	}
	cat := pdfsyn.DictV("Type", pdfsyn.NameV("Catalog"), "Pages", pdfsyn.RefV(revPages, 0))
	if c.Meta != "none" {
		bl.xmp, bl.ms, err = revXMP(g)
		if err != nil {
			return nil, err
		}
		cat.D = append(cat.D, pdfsyn.Entry{Key: []byte("Metadata"), Val: pdfsyn.RefV(revMeta, 0)})
		md := pdfsyn.DictV("Type", pdfsyn.NameV("Metadata"), "Subtype", pdfsyn.NameV("XML"))
		if err := addStream(revMeta, 0, md, bl.xmp, c.Meta != "plaintext"); err != nil {
			return nil, err
		}
	}
	if err := add(revCatalog, 0, cat); err != nil {
		return nil, err
	}
	if err := add(revPages, 0, pdfsyn.DictV("Type", pdfsyn.NameV("Pages"), "Kids", pdfsyn.ArrV(), "Count", pdfsyn.IntV(0))); err != nil {
		return nil, err
	}
	if err := add(revInfo, 0, pdfsyn.DictV("Title", pdfsyn.StrV(g.title))); err != nil {
		return nil, err
	}
	for _, it := range bl.items {
		if it.stream == nil {
			if err := add(it.num, it.gen, hx.FromPdf(it.obj)); err != nil {
				return nil, err
			}
			continue
		}
		d := hx.FromPdf(it.stream.dict)
		if d.K != pdfsyn.Dict {
			d = pdfsyn.Value{K: pdfsyn.Dict}
		}
		stored := it.stream.body
		if it.flate {
			stored = deflate(stored)
			d.D = append(d.D, pdfsyn.Entry{Key: []byte("Filter"), Val: pdfsyn.NameV("FlateDecode")})
		}
		if err := addStream(it.num, it.gen, d, stored, true); err != nil {
			return nil, err
		}
	}
	tr := pdfsyn.DictV("Root", pdfsyn.RefV(revCatalog, 0), "Info", pdfsyn.RefV(revInfo, 0),
		"ID", pdfsyn.ArrV(pdfsyn.Value{K: pdfsyn.String, S: id[0]}, pdfsyn.Value{K: pdfsyn.String, S: id[1]}),
		"Encrypt", encValue(enc))
	bl.data = serialise(c.Version, objs, tr, pdfsyn.Style{HexStrings: c.Hex})
	return bl, nil
}

// ---------------------------------------------------------------------------
// the oracle of direction 2

func (c *Case) revCfg() string {
	ci := "RC4"
	switch {
	case c.R == 4 && c.AES:
		ci = "AESV2"
	case c.R >= 5:
		ci = "AESV3"
	}
	s := fmt.Sprintf("R%d/V%d/%s-%d", c.R, c.V, ci, c.KeyBits)
	if c.R == 3 && c.KeyBits < 128 {
		if c.OwnerN {
			s += "/O-de-facto"
		} else {
			s += "/O-by-the-letter"
		}
	}
	return s
}

// verifyRead compares what the Reader returns with the model.
func verifyRead(g *graph, c *Case, bl *built, rd *pdf.Reader) *failure {
	cfg := c.revCfg()
	lenBad := map[string][]string{}
	for _, it := range bl.items {
		ref := pdf.NewReference(uint32(it.num), uint16(it.gen))
		cls := cfg + ":" + numClass(it.num) + ":" + genClass(it.gen)
		if it.stream != nil {
			if t := streamTag(it.stream.dict); t != "" {
				cls += ":stream-tagged-" + t
			}
		}
		if c.Graph == "len" {
			cls = cfg + ":stream-length-space"
		}
		got, err := rd.Get(ref, true)
		if err != nil {
			return &failure{"reader:get-error:" + cls, fmt.Sprintf("%s %d %d: %v", it.name, it.num, it.gen, err)}
		}
		if it.stream == nil {
			if !hx.Equal(got, it.obj) {
				return &failure{"reader:object-differs:" + cls, fmt.Sprintf("%s %d %d reads %s, reference wrote %s", it.name, it.num, it.gen, hx.Show(got), hx.Show(it.obj))}
			}
			continue
		}
		stm, ok := got.(*pdf.Stream)
		if !ok {
			return &failure{"reader:stream-type:" + cls, fmt.Sprintf("%s %d %d reads as %T", it.name, it.num, it.gen, got)}
		}
		keys := make([]string, 0, len(it.stream.dict))
		for k := range it.stream.dict {
			keys = append(keys, string(k))
		}
		sort.Strings(keys)
		for _, k := range keys {
			if !hx.Equal(stm.Dict[pdf.Name(k)], it.stream.dict[pdf.Name(k)]) {
				return &failure{"reader:stream-dict-differs:" + cls, fmt.Sprintf("%s %d %d /%s reads %s, reference wrote %s", it.name, it.num, it.gen, k, hx.Show(stm.Dict[pdf.Name(k)]), hx.Show(it.stream.dict[pdf.Name(k)]))}
			}
		}
		body, err := readStreamBuf(rd, stm, c.IO)
		if c.Graph == "len" {
			// every length of the file is judged; one failure per symptom
			// lists the lengths
			switch {
			case err != nil:
				lenBad["read-error"] = append(lenBad["read-error"], fmt.Sprintf("%d (%v)", len(it.stream.body), err))
			case bytes.Equal(body, it.stream.body):
			case len(body) < len(it.stream.body) && bytes.HasPrefix(it.stream.body, body):
				lenBad["truncated"] = append(lenBad["truncated"], fmt.Sprintf("%d (%d bytes read)", len(it.stream.body), len(body)))
			case len(body) > len(it.stream.body) && bytes.HasPrefix(body, it.stream.body):
				lenBad["extra-bytes"] = append(lenBad["extra-bytes"], fmt.Sprintf("%d (%d bytes read)", len(it.stream.body), len(body)))
			default:
				lenBad["differs"] = append(lenBad["differs"], fmt.Sprintf("%d (%d bytes read)", len(it.stream.body), len(body)))
			}
			continue
		}
		if err != nil {
			return &failure{"reader:stream-read-error:" + cls, fmt.Sprintf("%s %d %d: %v", it.name, it.num, it.gen, err)}
		}
		if !bytes.Equal(body, it.stream.body) {
			return &failure{"reader:stream-body-differs:" + cls, fmt.Sprintf("%s %d %d: read %d bytes %q, reference wrote %d bytes %q", it.name, it.num, it.gen, len(body), clip(body, 32), len(it.stream.body), clip(it.stream.body, 32))}
		}
	}
	for _, sym := range []string{"truncated", "extra-bytes", "differs", "read-error"} {
		if l := lenBad[sym]; len(l) > 0 {
			return &failure{"reader:stream-body-" + sym + ":" + cfg + ":stream-length-space", fmt.Sprintf("streams written by the reference with these lengths are not read back (%s): %s", sym, strings.Join(l, ", "))}
		}
	}
	m := rd.GetMeta()
	if m.Info == nil || string(m.Info.Title) != g.title {
		return &failure{"reader:info-title:" + cfg, fmt.Sprintf("Info.Title reads %+v, reference wrote %q", m.Info, g.title)}
	}
	if c.Meta != "none" {
		got, err := rd.Get(pdf.NewReference(revMeta, 0), true)
		stm, ok := got.(*pdf.Stream)
		if err != nil || !ok {
			return &failure{"reader:metadata-get:" + cfg, fmt.Sprintf("metadata stream (%s): %T %v", c.Meta, got, err)}
		}
		body, err := readStream(rd, stm)
		if err != nil || !bytes.Equal(body, bl.xmp) {
			return &failure{"reader:metadata-body-differs:" + c.Meta + ":" + cfg, fmt.Sprintf("metadata stream (%s) reads %d bytes %q (%v), reference wrote %d bytes", c.Meta, len(body), clip(body, 32), err, len(bl.xmp))}
		}
		if m.Catalog == nil || m.Catalog.Metadata == nil || !m.Catalog.Metadata.Equal(bl.ms) {
			return &failure{"reader:catalog-metadata-differs:" + c.Meta + ":" + cfg, "Catalog.Metadata does not equal the packet the reference wrote (" + c.Meta + ")"}
		}
	}
	return nil
}

// readStreamBuf reads the decoded stream through a buffer of n bytes (n = 0:
// io.ReadAll).
func readStreamBuf(rd *pdf.Reader, stm *pdf.Stream, n int) ([]byte, error) {
	if n <= 0 {
		return readStream(rd, stm)
	}
	r, err := pdf.DecodeStream(rd, nil, stm)
	if err != nil {
		return nil, err
	}
	defer r.Close()
	var out []byte
	buf := make([]byte, n)
	for idle := 0; ; {
		k, err := r.Read(buf)
		out = append(out, buf[:k]...)
		if err == io.EOF {
			return out, nil
		}
		if err != nil {
			return out, err
		}
		if k == 0 {
			if idle++; idle > 100 {
				return out, io.ErrNoProgress
			}
		} else {
			idle = 0
		}
	}
}

func readStream(rd *pdf.Reader, stm *pdf.Stream) ([]byte, error) {
	r, err := pdf.DecodeStream(rd, nil, stm)
	if err != nil {
		return nil, err
	}
	defer r.Close()
	return io.ReadAll(r)
}

// checkRead is direction 2 for one file.
func (rn *runner) checkRead(c *Case) []failure {
	r := rn.r
	g := rn.rev
	r.Eval(1)
	bl, err := buildFile(g, c)
	if err == errNotPreparable {
		r.Outcome("reference:password-not-preparable-for-revision")
		return nil
	}
	if err != nil {
		r.Infra(fmt.Sprintf("reference cannot build %s: %v", c.describe(), err))
		return nil
	}
	cfg := c.revCfg()
	pu, _ := stdsec.Prepare(c.User, c.R)
	po, _ := stdsec.Prepare(c.Owner, c.R)
	r.DistinctS(fmt.Sprintf("r|%s|%s|%s|%s|%d|%d|%v|%x|%x|%s|%d|%d|%d", cfg, c.Version, c.Meta, c.ID, c.Perm, c.Gen, c.Hex, pu, po, c.Graph, c.LenLo, c.LenHi, c.IO))

	effOwner := c.Owner
	if effOwner == "" && c.R <= 4 {
		effOwner = c.User
	}
	var out []failure
	for _, t := range []struct{ role, pw string }{{"user", c.User}, {"owner", effOwner}} {
		r.Eval(1)
		rd, err := pdf.NewReader(bytes.NewReader(bl.data), int64(len(bl.data)), &pdf.ReaderOptions{Password: t.pw})
		if err != nil {
			if t.role == "owner" && c.R == 3 && c.KeyBits < 128 && !c.OwnerN && !bytes.Equal(pu, po) {
				// /O made by the letter of Algorithm 3 (c); the library follows the de-facto reading
				r.Outcome("reader:" + cfg + ":owner:rejected (grey zone: reading of Algorithm 3 (c))")
				continue
			}
			r.Outcome("reader:" + cfg + ":" + t.role + ":REJECTED")
			out = append(out, failure{"reader:rejects-" + t.role + "-password:" + cfg + pwClass(c, t.pw, c.R), fmt.Sprintf("file written by the reference handler does not open with the %s password %q: %v", t.role, t.pw, err)})
			continue
		}
		if f := verifyRead(g, c, bl, rd); f != nil {
			r.Outcome("reader:" + cfg + ":" + t.role + ":CONTENT-DIFFERS")
			f.what = "opened with the " + t.role + " password: " + f.what
			out = append(out, *f)
			continue
		}
		r.Outcome("reader:" + cfg + ":" + t.role + ":ok")
	}
	if len(out) == 0 {
		r.Count("files_ok reference-written "+cfg, 1)
	}
	return out
}

// reverseConfigs are the handler configurations of direction 2.
type revConfig struct {
	R, V, bits int
	aes, ownN  bool
	header     string
}

var reverseConfigs = []revConfig{
	{R: 2, V: 1, bits: 40, header: "1.3"},
	{R: 3, V: 1, bits: 40, ownN: true, header: "1.3"},
	{R: 3, V: 1, bits: 40, header: "1.3"},
	{R: 3, V: 2, bits: 40, ownN: true, header: "1.4"},
	{R: 3, V: 2, bits: 56, ownN: true, header: "1.4"},
	{R: 3, V: 2, bits: 120, header: "1.4"},
	{R: 3, V: 2, bits: 128, header: "1.4"},
	{R: 4, V: 4, bits: 128, header: "1.5"},
	{R: 4, V: 4, bits: 128, aes: true, header: "1.6"},
	{R: 5, V: 5, bits: 256, header: "1.7"},
	{R: 6, V: 5, bits: 256, header: "2.0"},
}

func reverseJobs(thorough bool) []Case {
	var jobs []Case
	mk := func(rc revConfig, u, o string, p int, meta, id string, gen int, hexs bool) {
		if meta == "plaintext" && rc.R < 4 {
			return
		}
		header := rc.header
		if header == "2.0" && id == "empty" {
			header = "1.7" // PDF 2.0 requires ID strings of at least 16 bytes
		}
		jobs = append(jobs, Case{Dir: "read", Space: "reference-written", Version: header, User: u, Owner: o, Perm: p, Meta: meta, ID: id,
			Gen: gen, R: rc.R, V: rc.V, KeyBits: rc.bits, AES: rc.aes, OwnerN: rc.ownN, Hex: hexs})
	}
	ids := []string{"empty", "16", "32"}
	const midP = -1340 // 0xFFFFFAC4
	for _, rc := range reverseConfigs {
		// (a) passwords x metadata x ID x string syntax
		for _, u := range passwords {
			for _, o := range passwords {
				for _, meta := range metaModes {
					for _, id := range ids {
						syntaxes := []bool{false}
						if thorough || id == "16" {
							// quick tier: hexadecimal strings only with the 16-byte ID
							syntaxes = []bool{false, true}
						}
						for _, hexs := range syntaxes {
							mk(rc, u, o, midP, meta, id, 1, hexs)
						}
					}
				}
			}
		}
		// (b) generation of object 7 x permission word
		for _, gen := range []int{1, 255, 256, 65535} {
			for _, p := range []int{-4, -3904, midP, -64} {
				for _, hexs := range []bool{false, true} {
					mk(rc, "ab", asciiBase[:33], p, "none", "16", gen, hexs)
				}
			}
		}
	}
	return jobs
}

// reverseSelfTest checks the serialiser against the independent reader: a
// file of every revision must be strictly readable by ref/pdffile and
// decrypt to the model with ref/stdsec.
func reverseSelfTest() error {
	g := reverseGraph()
	for _, rc := range reverseConfigs {
		for _, meta := range []string{"none", "encrypted", "plaintext"} {
			if meta == "plaintext" && rc.R < 4 {
				continue
			}
			c := &Case{Dir: "read", Version: rc.header, User: "ab", Owner: "cd", Perm: -1340, Meta: meta, ID: "16", Gen: 255, R: rc.R, V: rc.V, KeyBits: rc.bits, AES: rc.aes, OwnerN: rc.ownN, Hex: rc.R%2 == 0}
			bl, err := buildFile(g, c)
			if err != nil {
				return err
			}
			for _, pw := range []string{"ab", "cd"} {
				pw := pw
				tr, _, _, err := lightTrailer(bl.data)
				if err != nil {
					return err
				}
				d, err := stdsec.ParseDict(pdffile.EncryptMap(tr.Get("Encrypt")))
				if err != nil {
					return err
				}
				d.OwnerKeyFirstN = rc.ownN
				pp, _ := stdsec.Prepare(pw, rc.R)
				h, ok := stdsec.OpenPrepared(d, tr.Get("ID").A[0].S, pp)
				if !ok || h.IsOwner != (pw == "cd") || h.IsUser != (pw == "ab") || h.PermsErr != nil {
					return fmt.Errorf("%s: reference handler does not open its own file with %q", c.revCfg(), pw)
				}
				f, perr := pdffile.Read(bl.data, pdffile.Options{})
				if perr != nil {
					return fmt.Errorf("%s: %v", c.revCfg(), perr)
				}
				for _, it := range bl.items {
					o := f.Objects[it.num]
					if o == nil || o.Gen != it.gen {
						return fmt.Errorf("%s: object %d %d not found", c.revCfg(), it.num, it.gen)
					}
					v, raw, err := f.Plain(h, o)
					if err != nil {
						return fmt.Errorf("%s: object %d: %v", c.revCfg(), it.num, err)
					}
					if it.stream == nil {
						if !pdfsyn.Equal(v, hx.FromPdf(it.obj)) {
							return fmt.Errorf("%s: object %d differs", c.revCfg(), it.num)
						}
						continue
					}
					body, err := pdffile.DecodeFilters(v, raw)
					if err != nil || !bytes.Equal(body, it.stream.body) {
						return fmt.Errorf("%s: stream %d differs (%v)", c.revCfg(), it.num, err)
					}
				}
			}
		}
	}
	return nil
}
