//go:build verif

// Package c10 decides C10: encrypted files follow the standard algorithms
// and leak no plaintext.
//
// Direction 1: every file of the bounded space (password pair x version x
// metadata mode x ID x permission set, and object (number, generation) pairs
// x version x password pair) is written with the real Writer; the bytes are
// parsed by ref/pdffile, authenticated with the user AND with the owner
// password by ref/stdsec (written from ISO 32000; shares nothing with the
// library), every string and stream is decrypted and compared with what was
// written; the raw bytes are searched for the plaintexts; ciphertexts of
// equal plaintexts and AES initialisation vectors are compared.
//
// Direction 2: files built by ref/stdsec and the small serialiser of this
// package (revisions 2, 3, 4, 5, 6) are opened with the real Reader, with
// the user and with the owner password, and must yield the model.
package c10

import (
	"bytes"
	"encoding/hex"
	"errors"
	"fmt"
	"strings"
	"time"
	"unicode/utf8"

	"seehuhn.de/go/pdf"
	"seehuhn.de/go/pdf/zzverif/engine/ev"
	"seehuhn.de/go/pdf/zzverif/ref/stdsec"
)

// maxObjNum is the largest object number of a PDF file that the library
// (and Algorithm 1) can express.
const maxObjNum = 1<<24 - 1

// Case is one replayable case: one file.
type Case struct {
	Dir     string `json:"direction"` // "write" (library writes, reference reads) | "read" (reference writes, library reads)
	Space   string `json:"space"`     // informational
	Version string `json:"version"`   // "1.4"; header version for direction "read"
	User    string `json:"user"`
	Owner   string `json:"owner"`
	Perm    int    `json:"perm"`
	Meta    string `json:"meta"` // none | encrypted | plaintext
	ID      string `json:"id"`   // absent | empty | one16 | 16 | 32
	Human   bool   `json:"human_readable,omitempty"`
	Graph   string `json:"graph"` // full | num | len
	Num     uint32 `json:"num,omitempty"`
	Gen     int    `json:"gen,omitempty"`
	Light   bool   `json:"light_reader,omitempty"` // cross-reference data too large for ref/pdffile: objects located by walking the body
	Order   *Order `json:"order,omitempty"`        // the order of the Writer calls (absent = sequential); see model.go
	LenLo   int    `json:"len_lo,omitempty"`       // graph "len": one unfiltered stream of every length in [LenLo, LenHi]; see lengths.go
	LenHi   int    `json:"len_hi,omitempty"`
	IO      int    `json:"io_bytes,omitempty"` // direction "write": stream bodies are written in pieces of IO bytes; direction "read": streams are read through a buffer of IO bytes (0 = one Write / io.ReadAll)

	// direction "read"
	R       int    `json:"r,omitempty"`
	V       int    `json:"v,omitempty"`
	KeyBits int    `json:"key_bits,omitempty"`
	AES     bool   `json:"aes,omitempty"`
	OwnerN  bool   `json:"owner_key_first_n,omitempty"` // /O by the de-facto reading of Algorithm 3 (c)
	Hex     bool   `json:"hex_strings,omitempty"`
	Note    string `json:"note,omitempty"`
}

const asciiBase = "0123456789abcdefghijklmnopqrstuvwxyzABCDEFGHIJKLMNOPQRSTUVWXYZ-_"

// passwords is the reduced password alphabet: empty, short ASCII, the 32/33
// byte truncation edge of revisions 2-4, Latin-1 (one PDFDocEncoding byte,
// two UTF-8 bytes), not PDFDoc-encodable (legal at revision 6 only).
var passwords = []string{"", "ab", asciiBase[:32], asciiBase[:33], "ä", "日本"}

var versions = []string{"1.0", "1.1", "1.2", "1.3", "1.4", "1.5", "1.6", "1.7", "2.0"}

var metaModes = []string{"none", "encrypted", "plaintext"}

// permSets returns the permission sets: a boundary subset (nothing, all,
// every single permission, all but Print (degraded printing only), the two
// sets that revision 2 cannot express besides that) in the quick tier; in
// the thorough tier all 64 subsets of the six permissions that interact
// (Print/PrintDegraded, Annotate/Forms, Modify/Assemble), with Copy set in
// every other one.
func permSets(thorough bool) []int {
	if !thorough {
		return []int{0, int(pdf.PermAll), int(pdf.PermCopy), int(pdf.PermPrintDegraded), int(pdf.PermPrint), int(pdf.PermForms),
			int(pdf.PermAnnotate), int(pdf.PermAssemble), int(pdf.PermModify), int(pdf.PermAll &^ pdf.PermPrint)}
	}
	var out []int
	for k := 0; k < 64; k++ {
		p := k << 1
		if bitsSet(k)%2 == 1 {
			p |= int(pdf.PermCopy)
		}
		out = append(out, p)
	}
	return out
}

func bitsSet(k int) int {
	n := 0
	for ; k != 0; k &= k - 1 {
		n++
	}
	return n
}

// numPairs is the (number, generation) alphabet of the object-number space.
// The Writer cannot complete a file that uses object number 2^24-1 (it
// allocates the catalog above the largest number seen and panics at 2^24),
// so the largest base is 2^24-1-24; see bigPairs.
var numPairs = [][2]int{{1, 0}, {255, 0}, {256, 0}, {65535, 0}, {65536, 0}, {7, 1}, {7, 255}, {7, 256}, {7, 65535}}

var bigPairs = [][2]int{{maxObjNum - 24, 0}, {maxObjNum - 24, 65535}, {maxObjNum, 0}}

type runner struct {
	r    *ev.Run
	full *graph
	num  *graph
	rev  *graph
}

func (rn *runner) graphOf(c *Case) *graph {
	switch c.Graph {
	case "num":
		return rn.num
	case "len":
		return lenGraph(c.LenLo, c.LenHi)
	}
	return rn.full
}

// one executes a case and records its violations.
func (rn *runner) one(c Case) {
	var fs []failure
	switch c.Dir {
	case "write":
		fs = rn.checkWritten(&c)
	case "read":
		fs = rn.checkRead(&c)
	default:
		rn.r.Infra("bad direction in case: " + c.Dir)
	}
	for _, f := range fs {
		rn.r.Violation(f.fp, safe(f.what)+" ["+safe(c.describe())+"]", c)
	}
}

func (c *Case) describe() string {
	if c.Dir == "read" {
		s := fmt.Sprintf("reference-written R%d V%d %d bits aes=%v header %s user %q owner %q P %#x meta %s id %s hex=%v ownerFirstN=%v", c.R, c.V, c.KeyBits, c.AES, c.Version, c.User, c.Owner, c.Perm, c.Meta, c.ID, c.Hex, c.OwnerN)
		if c.Graph == "len" {
			s += fmt.Sprintf(" streams of every length %d..%d, read through %s", c.LenLo, c.LenHi, ioName(c.IO, "io.ReadAll", "a buffer of %d bytes"))
		}
		if c.Note != "" {
			s += " (" + c.Note + ")"
		}
		return s
	}
	s := fmt.Sprintf("version %s user %q owner %q perm %#x meta %s id %s graph %s", c.Version, c.User, c.Owner, c.Perm, c.Meta, c.ID, c.Graph)
	if c.Graph == "num" {
		s += fmt.Sprintf(" base %d %d", c.Num, c.Gen)
	}
	if c.Graph == "len" {
		s += fmt.Sprintf(" streams of every length %d..%d, each written in %s", c.LenLo, c.LenHi, ioName(c.IO, "one Write", "pieces of %d bytes"))
	}
	if c.Human {
		s += " human-readable"
	}
	if c.Order != nil {
		s += " write order " + c.Order.String()
	}
	if c.Note != "" {
		s += " (" + c.Note + ")"
	}
	return s
}

func ioName(n int, zero, format string) string {
	if n == 0 {
		return zero
	}
	return fmt.Sprintf(format, n)
}

// checkWritten is direction 1 for one file.
func (rn *runner) checkWritten(c *Case) []failure {
	r := rn.r
	g := rn.graphOf(c)
	r.Eval(1)
	wr, stage, err := write(g, c)
	if err != nil {
		switch stage {
		case "case", "xmp":
			r.Infra("cannot run case: " + err.Error())
		case "options":
			// not accepted by the Writer: outside the statement
			var ve *pdf.VersionError
			switch {
			case errors.As(err, &ve):
				r.Outcome("rejected:version:" + ve.Operation)
			case strings.Contains(err.Error(), "password"):
				r.Outcome("rejected:password")
			case strings.Contains(err.Error(), "identifier"):
				r.Outcome("rejected:id")
			default:
				r.Outcome("rejected:other:" + err.Error())
			}
		case "panic":
			r.Outcome("rejected:" + err.Error())
		default:
			r.Outcome("rejected:" + stage + ":" + err.Error())
		}
		return nil
	}
	fa, fs := judgeWritten(g, c, wr)
	if !fa.encrypted {
		r.Outcome("unencrypted")
		return fs
	}
	pu, _ := stdsec.Prepare(c.User, fa.R)
	po, _ := stdsec.Prepare(c.Owner, fa.R)
	r.DistinctS(fmt.Sprintf("w|%s|%s|%s|%d|%v|%s|%d|%d|%x|%x|%s|%d|%d|%d", c.Version, c.Meta, c.ID, c.Perm, c.Human, c.Graph, c.Num, c.Gen, pu, po, c.Order.key(), c.LenLo, c.LenHi, c.IO))
	kind := "table"
	if fa.xrefStream {
		kind = "xrefstream"
	}
	if len(fs) > 0 {
		r.Outcome("FAIL:" + fa.cfg())
		return fs
	}
	o := "ok:" + fa.cfg() + ":" + kind
	if fa.ownerDeFacto {
		o += ":O-by-de-facto-reading-of-algorithm-3"
	}
	r.Outcome(o)
	r.Count("files_ok "+fa.cfg(), 1)
	return nil
}

func selfTest(r *ev.Run) bool {
	if err := stdsec.SelfTest(); err != nil {
		r.Infra("ref/stdsec self-test: " + err.Error())
		return false
	}
	// markers: unique, none a substring of another
	seen := map[string]bool{}
	for o := 0; o < 60; o++ {
		for p := 0; p < 10; p++ {
			for _, n := range []int{15, 16, 17, 24, 33, 100} {
				m := string(marker(o, p, n))
				if len(m) != n || seen[m] {
					r.Infra("marker self-test")
					return false
				}
				seen[m] = true
			}
		}
	}
	// closure / permsOfP: reading the all-ones word gives every permission, the
	// word with all defined permission bits clear gives none
	if permsOfP(0xFFFFFFFC, 3) != pdf.PermAll || permsOfP(0xFFFFFFFC, 2) != pdf.PermAll || permsOfP(0xFFFFF0C0, 3) != 0 || permsOfP(0xFFFFF0C0, 2) != 0 {
		r.Infra("permsOfP self-test")
		return false
	}
	if pdf.PermAll != 127 {
		r.Infra("the library no longer has 7 permission bits; the permission alphabet must be revised")
		return false
	}
	// the leak search finds what it is meant to find
	{
		body := marker(3, 9, 100)
		file := []byte("1 0 obj\n(" + string(marker(1, 0, 24)) + ")\nendobj\n2 0 obj\n<" + hex.EncodeToString(marker(2, 4, 15)) + ">\nendobj\n3 0 obj\n<" +
			strings.ToUpper(hex.EncodeToString(marker(2, 5, 16))) + ">\nendobj\nstream\n" + string(body[30:]) + "\nendstream\n")
		up := bytes.ToUpper(file)
		for _, t := range []struct {
			plain []byte
			want  string
		}{{marker(1, 0, 24), "verbatim"}, {marker(2, 4, 15), "hex"}, {marker(2, 5, 16), "hex"}, {body, "verbatim"},
			{marker(1, 1, 24), ""}, {marker(2, 6, 17), ""}, {marker(3, 8, 100), ""}, {[]byte("short"), ""}} {
			if kind, _, _ := searchLeak(file, up, t.plain); kind != t.want {
				r.Infra(fmt.Sprintf("leak search self-test: %q found %q, want %q", t.plain, kind, t.want))
				return false
			}
		}
	}
	// the serialiser of direction 2 must be readable by the independent
	// reader, with the independent handler
	if err := reverseSelfTest(); err != nil {
		r.Infra("serialiser self-test: " + err.Error())
		return false
	}
	if err := longPwSelfTest(); err != nil {
		r.Infra(err.Error())
		return false
	}
	if err := lenSelfTest(); err != nil {
		r.Infra(err.Error())
		return false
	}
	return true
}

// Run is the check.
func Run(tier string) int {
	budget := 4 * time.Minute
	if tier == "thorough" {
		budget = 25 * time.Minute
	}
	r := ev.New("C10", tier, "exploration", budget)
	rn := &runner{r: r, full: fullGraph(), num: numGraph(), rev: reverseGraph()}
	r.Rule("a case is one file. Direction 'write': (version, user password, owner password [drawn from the reduced alphabet or from the length-structure family around the truncation bounds 32 and 127], permission set, metadata mode, ID mode[, base object number and generation][, write order = order of the Put/OpenStream/Write/Close/WriteCompressed calls][, a run of consecutive stream lengths from the stream-length family: every length up to a bound and every length in a window around the powers of two above it, and the size of the pieces in which the bodies are written]) written by the Writer and judged by ref/pdffile + ref/stdsec; direction 'read': (revision, V, key length, cipher, passwords, P, metadata mode, ID mode, string syntax[, a run of stream lengths and the consumer's read buffer size]) written by ref/stdsec + the serialiser of this package and opened by the Reader with the user and with the owner password. evaluations = files written (+ Reader opens in direction 'read'); distinct = distinct tuples of encrypted files with the passwords replaced by their prepared form (passwords the standard's preparation identifies count once); files the Writer refuses are counted under rejected:* and are not distinct cases")
	r.Assume("ref/stdsec (Algorithms 1-13 from ISO 32000-2 7.6 / ISO 32000-1 / Adobe Supplement ExtensionLevel 3 for revision 5) and ref/pdffile are self-tested at start",
		"Algorithm 3 (c): both the letter (MD5 over 16 bytes) and the de-facto reading (first n bytes) are accepted for /O of revision 3 files with keys shorter than 128 bits; the reading found is reported as an outcome",
		"crypt filter /Length in bytes or in bits is accepted (table 27 vs. deployed practice)",
		"which of R 2 / R 3 is chosen for V 1 is not judged",
		"random material (IDs chosen by the Writer, salts, IVs, file keys) is never compared against expectations; IVs are only compared with each other and with zero",
		"leak search: every plaintext of >= 15 bytes (24-byte pieces of longer ones), verbatim and hexadecimal, outside startxref..EOF (trailer or cross-reference stream with Encrypt dictionary and ID) and outside the metadata stream when plaintext metadata was requested")
	if !selfTest(r) {
		return r.Finish()
	}

	perms := permSets(r.Thorough())
	r.Dim("passwords", len(passwords))
	r.Dim("versions", versions)
	r.Dim("metadata_modes", metaModes)
	ids := idModes(r.Thorough())
	r.Dim("id_modes", ids)
	r.Dim("permission_sets", perms)
	r.Dim("num_gen_pairs", numPairs)
	r.Dim("num_gen_pairs_big", bigPairs)
	r.Dim("full_graph_objects", len(rn.full.items))
	r.Dim("full_graph_streams_tagged_like_exempt_kinds", taggedKinds)

	var jobs []Case
	// (a) passwords x versions x metadata x ID x permissions, full graph
	for _, v := range versions {
		for _, m := range metaModes {
			for _, id := range ids {
				for _, p := range perms {
					for _, u := range passwords {
						for _, o := range passwords {
							jobs = append(jobs, Case{Dir: "write", Space: "config", Version: v, User: u, Owner: o, Perm: p, Meta: m, ID: id, Graph: "full"})
						}
					}
				}
			}
		}
	}
	nA := len(jobs)
	// (b) object numbers and generations
	numPw := [][2]string{{"ab", asciiBase[:32]}, {"", "ab"}, {"ä", ""}}
	for _, v := range versions {
		for _, human := range []bool{false, true} {
			for _, pr := range numPw {
				for _, ng := range numPairs {
					for _, id := range []string{"16", "absent"} {
						jobs = append(jobs, Case{Dir: "write", Space: "numbers", Version: v, User: pr[0], Owner: pr[1], Perm: int(pdf.PermCopy | pdf.PermForms), Meta: "none", ID: id, Human: human, Graph: "num", Num: uint32(ng[0]), Gen: ng[1]})
					}
				}
			}
		}
	}
	nB := len(jobs) - nA
	// (e) write orders: every order of the family (model.go, Order) for both
	// graphs.  The key of a string must be the key of its own object whatever
	// was "current" when it was formatted.  (All permissions with the full
	// graph: revision 2 at 1.1-1.3; the permission set of the number space
	// with the number graph: revision 3 with 40-bit keys there.)
	fullOrders, numOrders := orders(rn.full), orders(rn.num)
	countKind := func(os []*Order) map[string]int {
		m := map[string]int{}
		for _, o := range os {
			if o == nil {
				m["sequential"]++
			} else {
				m[o.Kind]++
			}
		}
		return m
	}
	r.Dim("write_orders_full_graph", countKind(fullOrders))
	r.Dim("write_orders_num_graph", countKind(numOrders))
	r.Dim("write_order_split_points_by_body_length", map[string][]int{"0": splitsFor(0), "100": splitsFor(100), "2000": splitsFor(2000)})
	ordPw := ev.Pick(r, numPw[:1], numPw)
	ordIDs := ev.Pick(r, []string{"16"}, []string{"16", "absent"})
	ordHumanFull := ev.Pick(r, []bool{false}, []bool{false, true})
	r.Dim("write_order_password_pairs", len(ordPw))
	r.Dim("write_order_id_modes", ordIDs)
	for _, v := range versions {
		for _, pr := range ordPw {
			for _, id := range ordIDs {
				for _, human := range ordHumanFull {
					for _, o := range fullOrders[1:] {
						jobs = append(jobs, Case{Dir: "write", Space: "orders", Version: v, User: pr[0], Owner: pr[1], Perm: int(pdf.PermAll), Meta: "none", ID: id, Human: human, Graph: "full", Order: o})
					}
				}
				for _, human := range []bool{false, true} {
					for _, ng := range numPairs {
						for _, o := range numOrders[1:] {
							jobs = append(jobs, Case{Dir: "write", Space: "orders", Version: v, User: pr[0], Owner: pr[1], Perm: int(pdf.PermCopy | pdf.PermForms), Meta: "none", ID: id, Human: human, Graph: "num", Num: uint32(ng[0]), Gen: ng[1], Order: o})
						}
					}
				}
			}
		}
	}
	nE := len(jobs) - nA - nB
	// (f) passwords by length structure (longpw.go): direction 1
	lpw := longPwWriteJobs(r.Thorough())
	jobs = append(jobs, lpw...)
	nF := len(lpw)
	r.Dim("long_password_truncation_bounds", pwBounds)
	r.Dim("long_password_rule", "for each bound b: ascii(L) = L ASCII bytes for every L in [b-7, b+8]; char(w,s,t) = s ASCII bytes + one character of UTF-8 width w + t ASCII bytes for every w in 1..4, every start offset s in [b-3, b], every t in the tail lengths; all ASCII prefixes are prefixes of one string")
	r.Dim("long_password_character_widths", []int{1, 2, 3, 4})
	r.Dim("long_password_character_start_offsets_relative_to_bound", []int{-3, -2, -1, 0})
	r.Dim("long_password_tail_lengths", pwTails)
	r.Dim("long_password_ascii_lengths_relative_to_bound", []int{-7, 8})
	for _, b := range pwBounds {
		r.Dim(fmt.Sprintf("long_passwords_bound_%d", b), len(longPasswords(b)))
	}
	r.Dim("long_password_roles", ev.Pick(r, pwRoles, append(append([]string{}, pwRoles...), "every (user, owner) pair of the same bound")))
	// (g) stream lengths (lengths.go): direction 1
	lenW := lenWriteJobs(r.Thorough())
	jobs = append(jobs, lenW...)
	nG := len(lenW)
	nLenStreams := len(lenFamily(r.Thorough()))
	r.Dim("stream_length_rule", fmt.Sprintf("one unfiltered stream of every length in [0, %d] and in [2^k-%d, 2^k+%d] for every k in the powers; consecutive lengths share a file (at most %d streams, %d bytes of bodies)", lenFullRange(r.Thorough()), lenWindow, lenWindow, lenPerFile, lenBytesPerFile))
	r.Dim("stream_length_full_range_upto", lenFullRange(r.Thorough()))
	r.Dim("stream_length_window_powers_of_two", lenPowers(r.Thorough()))
	r.Dim("stream_length_window_halfwidth", lenWindow)
	r.Dim("stream_lengths", nLenStreams)
	r.Dim("stream_length_files_per_configuration", len(lenBlocks(r.Thorough())))
	r.Dim("stream_length_write_versions", lenWriteVersions(r.Thorough()))
	r.Dim("stream_length_write_piece_sizes", lenWritePieces)
	r.Dim("stream_length_read_buffer_sizes", lenReadBuffers)
	r.Dim("stream_length_read_configurations", len(lenReadConfigs(r.Thorough())))
	// (c) the largest object numbers: cross-reference streams only in the
	// quick tier (a classic table has 2^24 entries of 20 bytes)
	bigVersions := ev.Pick(r, []string{"1.5", "1.7", "2.0"}, []string{"1.3", "1.4", "1.5", "1.6", "1.7", "2.0"})
	var big []Case
	for _, v := range bigVersions {
		for _, ng := range bigPairs {
			big = append(big, Case{Dir: "write", Space: "big-numbers", Version: v, User: "ab", Owner: asciiBase[:32], Perm: int(pdf.PermCopy), Meta: "none", ID: "16", Graph: "num", Num: uint32(ng[0]), Gen: ng[1], Light: true})
		}
	}
	// (d) direction 2
	rjobs := reverseJobs(r.Thorough())
	lpr := longPwReadJobs(r.Thorough())
	rjobs = append(rjobs, lpr...)
	lenR := lenReadJobs(r.Thorough())
	rjobs = append(rjobs, lenR...)
	r.Dim("files_stream_length_space_written", nG)
	r.Dim("files_stream_length_space_reference_written", len(lenR))
	r.Dim("files_long_password_space_written", nF)
	r.Dim("files_long_password_space_reference_written", len(lpr))
	r.Dim("files_config_space", nA)
	r.Dim("files_number_space", nB)
	r.Dim("files_big_number_space", len(big))
	r.Dim("files_write_order_space", nE)
	r.Dim("files_reference_written", len(rjobs))
	jobs = append(jobs, rjobs...)

	// expensive (revision 6) files are spread evenly over the workers by
	// visiting the jobs in a strided order
	order := make([]int, 0, len(jobs))
	const stride = 101
	for s := 0; s < stride; s++ {
		for i := s; i < len(jobs); i += stride {
			order = append(order, i)
		}
	}
	stop := func() bool {
		if r.Expired() {
			return true
		}
		if r.TooManyViolations() {
			r.Capped("stopped enumerating after 25 distinct violation fingerprints")
			return true
		}
		return false
	}
	r.Par(len(order), func(k int) {
		if stop() {
			return
		}
		rn.one(jobs[order[k]])
	})
	// the big files hold hundreds of megabytes each: one at a time
	for _, c := range big {
		if stop() {
			break
		}
		rn.one(c)
	}
	// samples: real (accepted) cases of every space
	pick := func(from, to int, ok func(c *Case) bool) {
		for i := from; i < to; i++ {
			if ok(&jobs[i]) {
				r.Sample(jobs[i])
				return
			}
		}
	}
	pick(0, nA, func(c *Case) bool {
		return c.Version == "1.6" && c.User == asciiBase[:33] && c.Owner == "ä" && c.Meta == "plaintext" && c.ID == "32" && c.Perm == int(pdf.PermPrintDegraded)
	})
	pick(0, nA, func(c *Case) bool {
		return c.Version == "2.0" && c.User == "" && c.Owner == "日本" && c.Meta == "encrypted" && c.ID == "absent" && c.Perm == 0
	})
	pick(0, nA, func(c *Case) bool {
		return c.Version == "1.2" && c.User == "ab" && c.Owner == "" && c.ID == "empty" && c.Perm != 0
	})
	pick(nA, nA+nB, func(c *Case) bool { return c.Version == "1.7" && c.Num == 7 && c.Gen == 65535 && !c.Human })
	r.Sample(big[0])
	pick(nA+nB, nA+nB+nE, func(c *Case) bool {
		return c.Version == "1.6" && c.Graph == "full" && c.Order.Kind == "inside" && c.Order.Host == 11 && c.Order.Split == 1008 && c.Order.K == 2
	})
	pick(nA+nB, nA+nB+nE, func(c *Case) bool {
		return c.Version == "1.3" && c.Graph == "num" && c.Num == 65535 && c.Order.Kind == "as-stream"
	})
	pick(nA+nB+nE+nF+nG, len(jobs), func(c *Case) bool {
		return c.R == 5 && c.User == "ä" && c.Owner == "ab" && c.Meta == "plaintext" && c.Hex
	})
	pick(nA+nB+nE, nA+nB+nE+nF, func(c *Case) bool {
		return c.Version == "2.0" && len(c.User) > 127 && !utf8.RuneStart(c.User[127]) && c.Owner == ""
	})
	pick(nA+nB+nE+nF+nG, len(jobs), func(c *Case) bool {
		return c.Space == "long-passwords" && c.R == 6 && len(c.Owner) > 127 && !utf8.RuneStart(c.Owner[127])
	})
	pick(nA+nB+nE+nF, nA+nB+nE+nF+nG, func(c *Case) bool {
		return c.Version == "1.7" && c.LenLo <= 4096 && 4096 <= c.LenHi && c.IO != 0
	})
	pick(nA+nB+nE+nF+nG, len(jobs), func(c *Case) bool {
		return c.Space == "stream-lengths" && c.R == 6 && c.LenLo <= 4096 && 4096 <= c.LenHi && c.IO == 37
	})
	return r.Finish()
}

// Replay re-executes the case of a replay file.
func Replay(path string) int {
	var c Case
	if err := ev.ReplayCase(path, &c); err != nil {
		fmt.Println("replay:", err)
		return 2
	}
	r := ev.New("C10", "quick", "exploration", 2*time.Minute)
	r.SetReplayMode()
	if !selfTest(r) {
		return r.Finish()
	}
	fmt.Println("case:", c.describe())
	(&runner{r: r, full: fullGraph(), num: numGraph(), rev: reverseGraph()}).one(c)
	return r.Finish()
}

// safe makes a message printable (violation texts quote ciphertext).
func safe(s string) string {
	var b strings.Builder
	for i := 0; i < len(s); i++ {
		c := s[i]
		if c < 0x20 || c > 0x7e {
			fmt.Fprintf(&b, "\\x%02x", c)
		} else {
			b.WriteByte(c)
		}
	}
	if b.Len() > 700 {
		return b.String()[:700] + "..."
	}
	return b.String()
}
