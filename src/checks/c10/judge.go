//go:build verif

package c10

import (
	"bytes"
	"encoding/hex"
	"fmt"
	"regexp"
	"sort"
	"strconv"
	"strings"

	"seehuhn.de/go/pdf"
	"seehuhn.de/go/pdf/zzverif/checks/hx"
	"seehuhn.de/go/pdf/zzverif/ref/pdffile"
	"seehuhn.de/go/pdf/zzverif/ref/pdfsyn"
	"seehuhn.de/go/pdf/zzverif/ref/stdsec"
)

type failure struct{ fp, what string }

// facts describes the encryption the Writer chose (read from the file by the
// independent parser, never predicted).
type facts struct {
	R, V, length int
	cfm          string
	xrefStream   bool
	encrypted    bool
	ownerDeFacto bool // /O follows the de-facto reading of Algorithm 3 (R3 with keys < 128 bits)
}

func (fa facts) cipher() string {
	switch {
	case fa.cfm != "":
		return fa.cfm
	case fa.V == 1 || fa.V == 2:
		return "RC4"
	}
	return "?"
}

func (fa facts) cfg() string {
	if !fa.encrypted {
		return "unencrypted"
	}
	bits := fa.length
	if bits == 0 {
		switch fa.V {
		case 1:
			bits = 40
		case 4:
			bits = 128
		case 5:
			bits = 256
		}
	}
	return fmt.Sprintf("R%d/V%d/%s-%d", fa.R, fa.V, fa.cipher(), bits)
}

// ---------------------------------------------------------------------------
// locating the trailer and objects without cross-reference data

// lightTrailer returns the trailer dictionary (or the dictionary of the
// cross-reference stream) and the startxref offset.
func lightTrailer(data []byte) (pdfsyn.Value, int64, bool, error) {
	s := bytes.LastIndex(data, []byte("startxref"))
	if s < 0 {
		return pdfsyn.Value{}, 0, false, fmt.Errorf("no startxref")
	}
	q := s + len("startxref")
	for q < len(data) && pdfsyn.IsWhite(data[q]) {
		q++
	}
	e := q
	for e < len(data) && data[e] >= '0' && data[e] <= '9' {
		e++
	}
	off, err := strconv.ParseInt(string(data[q:e]), 10, 64)
	if err != nil || off < 0 || off >= int64(len(data)) {
		return pdfsyn.Value{}, 0, false, fmt.Errorf("bad startxref")
	}
	if bytes.HasPrefix(data[off:], []byte("xref")) {
		t := bytes.LastIndex(data[:s], []byte("trailer"))
		if int64(t) < off {
			return pdfsyn.Value{}, 0, false, fmt.Errorf("no trailer keyword after the table")
		}
		ps := &pdfsyn.Parser{Buf: data, Pos: t + len("trailer")}
		v, err := ps.Object()
		if err != nil || v.K != pdfsyn.Dict {
			return pdfsyn.Value{}, 0, false, fmt.Errorf("trailer dictionary: %v", err)
		}
		return v, off, false, nil
	}
	o, perr := pdffile.ParseObjectAt(data, off, false, nil)
	if perr != nil {
		return pdfsyn.Value{}, 0, false, perr
	}
	if !o.IsStream || string(o.Val.Get("Type").S) != "XRef" {
		return pdfsyn.Value{}, 0, false, fmt.Errorf("startxref does not point at a table or a cross-reference stream")
	}
	return o.Val, off, true, nil
}

var objHeaderRe = regexp.MustCompile(`(?m)^[0-9]+ [0-9]+ obj\b`)
var intObjRe = regexp.MustCompile(`(?m)^([0-9]{1,8}) 0 obj\n([0-9]{1,12})\nendobj`)

// lightRead builds a pdffile.File by walking the object headers of the body
// from the start of the file (object by object, so that nothing inside an
// object is mistaken for a header).  It is used for files whose
// cross-reference data has millions of entries; it does not validate the
// cross-reference data.
func lightRead(data []byte, tr pdfsyn.Value, startxref int64, h *stdsec.Handler) (*pdffile.File, []failure) {
	var fails []failure
	f := &pdffile.File{Data: data, XRef: map[int]pdffile.XEntry{}, Objects: map[int]*pdffile.Object{}, Trailer: tr, StartXRef: startxref, H: h}
	lens := map[int]int64{}
	pos := 0
	body := data[:startxref]
	// indirect /Length objects follow their stream: collect all integer objects first
	for _, m := range intObjRe.FindAllSubmatch(body, -1) {
		n, _ := strconv.Atoi(string(m[1]))
		l, _ := strconv.ParseInt(string(m[2]), 10, 64)
		lens[n] = l
	}
	var pending []int
	for pos < len(body) {
		m := objHeaderRe.FindIndex(body[pos:])
		if m == nil {
			break
		}
		off := int64(pos + m[0])
		o, perr := pdffile.ParseObjectAt(data, off, false, func(num, gen int) (int64, bool) {
			l, ok := lens[num]
			return l, ok
		})
		if perr != nil {
			fails = append(fails, failure{"structure:" + perr.Code, "light reader: " + perr.Msg})
			pos = int(off) + 1
			continue
		}
		f.Objects[o.Num] = o
		pending = append(pending, o.Num)
		pos = int(o.End)
	}
	for _, n := range pending {
		o := f.Objects[n]
		if !o.IsStream || string(o.Val.Get("Type").S) != "ObjStm" {
			continue
		}
		st := o
		if h != nil {
			raw, err := h.DecryptStream(o.Num, o.Gen, o.Raw)
			if err != nil {
				fails = append(fails, failure{"independent-decrypt-error:object-stream", fmt.Sprintf("object stream %d %d: %v", o.Num, o.Gen, err)})
				continue
			}
			c := *o
			c.Raw = raw
			st = &c
		}
		members, perr := pdffile.ParseObjStm(st, false)
		if perr != nil {
			fails = append(fails, failure{"structure:" + perr.Code, perr.Msg})
			continue
		}
		for i := range members {
			m := members[i]
			f.Objects[m.Num] = &m
		}
	}
	return f, fails
}

// ---------------------------------------------------------------------------
// the Encrypt dictionary

func isInt(v pdfsyn.Value) bool { return v.K == pdfsyn.Int }

// validateDict checks the Encrypt dictionary against tables 20, 21, 25 and
// 27 of ISO 32000-2 (and ISO 32000-1 for revisions 2-4) for the revision it
// declares.  Only requirements ("shall") are judged.
func validateDict(enc pdfsyn.Value, c *Case, fa *facts) []failure {
	var out []failure
	bad := func(fp, format string, a ...any) {
		out = append(out, failure{"dict:" + fp, fmt.Sprintf(format, a...) + " [" + enc.String() + "]"})
	}
	if f := enc.Get("Filter"); f.K != pdfsyn.Name || string(f.S) != "Standard" {
		bad("Filter", "/Filter is %s", f.String())
	}
	V, R := enc.Get("V"), enc.Get("R")
	if !isInt(V) || !isInt(R) {
		bad("V-R-type", "/V %s /R %s are not integers", V.String(), R.String())
		return out
	}
	fa.V, fa.R = int(V.I), int(R.I)
	L := enc.Get("Length")
	if L.K != pdfsyn.Null {
		if !isInt(L) {
			bad("Length-type", "/Length is %s", L.String())
		} else {
			fa.length = int(L.I)
		}
	}
	switch {
	case fa.V == 1 && (fa.R == 2 || fa.R == 3):
		if L.K != pdfsyn.Null && fa.length != 40 {
			bad("Length:V1", "/Length %d with V 1 (the key length is 40 bits)", fa.length)
		}
	case fa.V == 2 && fa.R == 3:
		if L.K != pdfsyn.Null && (fa.length < 40 || fa.length > 128 || fa.length%8 != 0) {
			bad("Length:V2", "/Length %d is not a multiple of 8 in 40..128", fa.length)
		}
	case fa.V == 4 && fa.R == 4:
		if L.K != pdfsyn.Null && (fa.length < 40 || fa.length > 128 || fa.length%8 != 0) {
			bad("Length:V4", "/Length %d is not a multiple of 8 in 40..128", fa.length)
		}
	case fa.V == 5 && fa.R == 6:
		if L.K != pdfsyn.Null && fa.length != 256 {
			bad("Length:V5", "/Length %d with V 5", fa.length)
		}
	case fa.V == 5 && fa.R == 5:
		bad("R5-written", "the Writer produced the deprecated revision 5")
	default:
		bad("V-R-combination", "V %d with R %d", fa.V, fa.R)
		return out
	}

	// /P: a signed 32-bit quantity (table 21) with the reserved bits of table 22
	P := enc.Get("P")
	switch {
	case !isInt(P):
		bad("P-type", "/P is %s", P.String())
	case P.I < -(1<<31) || P.I > 1<<31-1:
		bad("P-not-signed-32-bit", "/P %d is outside the signed 32-bit range", P.I)
	default:
		p := uint32(P.I)
		if p&stdsec.PReserved1 != stdsec.PReserved1 {
			bad("P-reserved-ones", "/P %#x: bits 7, 8, 13-32 must be 1", p)
		}
		if p&3 != 0 {
			bad("P-reserved-zeros", "/P %#x: bits 1, 2 must be 0", p)
		}
		// the permissions a conforming reader derives from /P (table 22)
		// must be the requested ones closed under the implications
		// documented at pdf.Perm
		got := permsOfP(p, fa.R)
		want := closure(pdf.Perm(c.Perm))
		if got != want {
			bad(fmt.Sprintf("P-semantics:R%d:%s", fa.R, permDiff(got, want)), "/P %#x grants %#x under revision %d; requested %#x (closure %#x)", p, int(got), fa.R, c.Perm, int(want))
		}
	}

	strLen := func(key string, n int) {
		v := enc.Get(key)
		if v.K != pdfsyn.String {
			bad(key+"-type", "/%s is %s", key, v.String())
			return
		}
		if len(v.S) != n {
			bad(fmt.Sprintf("%s-length:R%d", key, fa.R), "/%s has %d bytes, revision %d requires %d", key, len(v.S), fa.R, n)
		}
	}
	if fa.R <= 4 {
		strLen("O", 32)
		strLen("U", 32)
		for _, k := range []string{"OE", "UE", "Perms"} {
			if enc.Has(k) {
				bad("R6-entry-below-R5", "/%s present with revision %d", k, fa.R)
			}
		}
	} else {
		strLen("O", 48)
		strLen("U", 48)
		strLen("OE", 32)
		strLen("UE", 32)
		strLen("Perms", 16)
	}

	em := enc.Get("EncryptMetadata")
	switch {
	case em.K == pdfsyn.Null:
		if c.Meta == "plaintext" {
			bad("EncryptMetadata-missing", "plaintext metadata requested but /EncryptMetadata is absent (= true)")
		}
	case em.K != pdfsyn.Bool:
		bad("EncryptMetadata-type", "/EncryptMetadata is %s", em.String())
	default:
		if fa.V < 4 {
			bad("EncryptMetadata-below-V4", "/EncryptMetadata present with V %d", fa.V)
		}
		if em.B == (c.Meta == "plaintext") {
			bad("EncryptMetadata-value", "/EncryptMetadata %v, metadata mode %s", em.B, c.Meta)
		}
	}

	if fa.V >= 4 {
		stm, str := enc.Get("StmF"), enc.Get("StrF")
		if stm.K != pdfsyn.Name || str.K != pdfsyn.Name {
			bad("StmF-StrF", "/StmF %s /StrF %s: without them streams and strings are not encrypted at all (Identity)", stm.String(), str.String())
			return out
		}
		cf := enc.Get("CF")
		if cf.K != pdfsyn.Dict {
			bad("CF-missing", "/CF is %s", cf.String())
			return out
		}
		for _, nm := range []pdfsyn.Value{stm, str} {
			if string(nm.S) == "Identity" {
				bad("Identity-filter", "/StmF or /StrF is Identity: content is not encrypted")
				continue
			}
			fd := cf.Get(string(nm.S))
			if fd.K != pdfsyn.Dict {
				bad("CF-entry-missing", "crypt filter %s not in /CF", nm.String())
				continue
			}
			cfm := fd.Get("CFM")
			want := map[int][]string{4: {"V2", "AESV2"}, 5: {"AESV3"}}[fa.V]
			ok := false
			for _, w := range want {
				ok = ok || (cfm.K == pdfsyn.Name && string(cfm.S) == w)
			}
			if !ok {
				bad(fmt.Sprintf("CFM:V%d", fa.V), "crypt filter %s has /CFM %s", nm.String(), cfm.String())
			} else {
				fa.cfm = string(cfm.S)
			}
			if ae := fd.Get("AuthEvent"); ae.K != pdfsyn.Null && !(ae.K == pdfsyn.Name && string(ae.S) == "DocOpen") {
				bad("AuthEvent", "crypt filter %s has /AuthEvent %s", nm.String(), ae.String())
			}
			if tp := fd.Get("Type"); tp.K != pdfsyn.Null && !(tp.K == pdfsyn.Name && string(tp.S) == "CryptFilter") {
				bad("CF-Type", "crypt filter %s has /Type %s", nm.String(), tp.String())
			}
			// /Length of a crypt filter: table 27 says bytes, deployed
			// writers (and Acrobat) use bits; both are accepted
			if l := fd.Get("Length"); l.K != pdfsyn.Null {
				bytesWant := map[int]int64{4: 16, 5: 32}[fa.V]
				if !isInt(l) || (l.I != bytesWant && l.I != 8*bytesWant) {
					bad(fmt.Sprintf("CF-Length:V%d", fa.V), "crypt filter %s has /Length %s", nm.String(), l.String())
				}
			}
		}
	} else {
		for _, k := range []string{"CF", "StmF", "StrF", "EFF"} {
			if enc.Has(k) {
				bad("crypt-filter-below-V4", "/%s present with V %d", k, fa.V)
			}
		}
	}
	return out
}

// permsOfP reads /P the way table 22 says a reader of revision R does.
func permsOfP(p uint32, R int) pdf.Perm {
	bit := func(n int) bool { return p&(1<<(n-1)) != 0 }
	var out pdf.Perm
	set := func(b bool, q pdf.Perm) {
		if b {
			out |= q
		}
	}
	if R == 2 {
		set(bit(3), pdf.PermPrint|pdf.PermPrintDegraded)
		set(bit(4), pdf.PermModify|pdf.PermAssemble)
		set(bit(5), pdf.PermCopy)
		set(bit(6), pdf.PermAnnotate|pdf.PermForms)
		return out
	}
	set(bit(3), pdf.PermPrintDegraded)
	set(bit(3) && bit(12), pdf.PermPrint)
	set(bit(4), pdf.PermModify|pdf.PermAssemble)
	set(bit(11), pdf.PermAssemble)
	set(bit(5), pdf.PermCopy)
	set(bit(6), pdf.PermAnnotate|pdf.PermForms)
	set(bit(9), pdf.PermForms)
	return out
}

// closure closes a permission set under the implications documented at
// pdf.Perm: Print => PrintDegraded, Annotate => Forms, Modify => Assemble.
func closure(p pdf.Perm) pdf.Perm {
	if p&pdf.PermPrint != 0 {
		p |= pdf.PermPrintDegraded
	}
	if p&pdf.PermAnnotate != 0 {
		p |= pdf.PermForms
	}
	if p&pdf.PermModify != 0 {
		p |= pdf.PermAssemble
	}
	return p
}

var permNames = []struct {
	p pdf.Perm
	n string
}{{pdf.PermCopy, "Copy"}, {pdf.PermPrintDegraded, "PrintDegraded"}, {pdf.PermPrint, "Print"}, {pdf.PermForms, "Forms"},
	{pdf.PermAnnotate, "Annotate"}, {pdf.PermAssemble, "Assemble"}, {pdf.PermModify, "Modify"}}

func permDiff(got, want pdf.Perm) string {
	var miss, extra []string
	for _, pn := range permNames {
		switch {
		case want&pn.p != 0 && got&pn.p == 0:
			miss = append(miss, pn.n)
		case want&pn.p == 0 && got&pn.p != 0:
			extra = append(extra, pn.n)
		}
	}
	return "missing=" + strings.Join(miss, "+") + ";extra=" + strings.Join(extra, "+")
}

// ---------------------------------------------------------------------------
// the de-facto reading of Algorithm 3 / 7
//
// Step (c) of Algorithm 3 says "take the output from the previous MD5 hash
// and pass it as input into a new MD5 hash", i.e. all 16 bytes; Algorithm 2
// (h) says "the first n bytes".  Acrobat and every deployed implementation
// (qpdf, PDFBox, ...) use the first n bytes in both places; PDFBox documents
// that files made by the letter cannot be opened by Acrobat with the owner
// password when the key has 40 bits.  For 128-bit keys the readings coincide.
// ref/stdsec follows the letter unless Dict.OwnerKeyFirstN is set; both
// readings are accepted for /O at revision 3 with n < 16, and which one the
// Writer follows is recorded as an outcome.

func keyBytesOf(d *stdsec.Dict) int {
	switch d.R {
	case 2:
		return 5
	case 3, 4:
		if d.Length != 0 {
			return d.Length / 8
		}
		if d.R == 4 {
			return 16
		}
		return 5
	}
	return 32
}

// ---------------------------------------------------------------------------
// judging a written file

type ctSample struct {
	where string
	obj   int
	ct    []byte
}

func numClass(n int) string {
	switch {
	case n < 256:
		return "num<2^8"
	case n < 65536:
		return "num<2^16"
	}
	return "num>=2^16"
}

func genClass(g int) string {
	switch {
	case g == 0:
		return "gen=0"
	case g < 256:
		return "gen<2^8"
	}
	return "gen>=2^8"
}

// walkStrings calls fn for every string of the model value together with the
// string found at the same place of the raw (still encrypted) value.
func walkStrings(model, raw pdfsyn.Value, path string, fn func(path string, plain []byte, raw pdfsyn.Value)) {
	switch model.K {
	case pdfsyn.String:
		fn(path, model.S, raw)
	case pdfsyn.Array:
		for i, e := range model.A {
			var r pdfsyn.Value
			if raw.K == pdfsyn.Array && i < len(raw.A) {
				r = raw.A[i]
			}
			walkStrings(e, r, fmt.Sprintf("%s[%d]", path, i), fn)
		}
	case pdfsyn.Dict:
		for _, e := range model.D {
			var r pdfsyn.Value
			if raw.K == pdfsyn.Dict {
				r = raw.Get(string(e.Key))
			}
			walkStrings(e.Val, r, path+"/"+string(e.Key), fn)
		}
	}
}

// allStrings calls fn for every string in v.
func allStrings(v pdfsyn.Value, fn func(s []byte)) {
	switch v.K {
	case pdfsyn.String:
		fn(v.S)
	case pdfsyn.Array:
		for _, e := range v.A {
			allStrings(e, fn)
		}
	case pdfsyn.Dict:
		for _, e := range v.D {
			allStrings(e.Val, fn)
		}
	}
}

func clip(b []byte, n int) []byte {
	if len(b) > n {
		return b[:n]
	}
	return b
}

// needles returns what is searched for in the file for one plaintext: the
// plaintext itself when it is short, else its 24-byte pieces.
func needles(plain []byte) [][]byte {
	if len(plain) < 15 {
		return nil
	}
	if len(plain) <= 48 {
		return [][]byte{plain}
	}
	var out [][]byte
	for i := 0; i+24 <= len(plain); i += 24 {
		out = append(out, plain[i:i+24])
	}
	return out
}

// needlesSparse: the first and the last 24 bytes of a long plaintext only
// (graphs with sparseLeak).
func needlesSparse(plain []byte) [][]byte {
	if len(plain) <= 48 {
		return needles(plain)
	}
	return [][]byte{plain[:24], plain[len(plain)-24:]}
}

// searchLeak looks for plain in the file bytes: verbatim (a literal string or
// stream data) and as hexadecimal digits of either case (upper is the
// upper-cased copy of clear).
func searchLeak(clear, upper, plain []byte) (kind string, off int, needle []byte) {
	return searchNeedles(clear, upper, needles(plain))
}

func searchNeedles(clear, upper []byte, nds [][]byte) (kind string, off int, needle []byte) {
	for _, nd := range nds {
		if k := bytes.Index(clear, nd); k >= 0 {
			return "verbatim", k, nd
		}
		if k := bytes.Index(upper, []byte(strings.ToUpper(hex.EncodeToString(nd)))); k >= 0 {
			return "hex", k, nd
		}
	}
	return "", 0, nil
}

// judgeWritten is the oracle of direction 1.
func judgeWritten(g *graph, c *Case, wr *written) (fa facts, out []failure) {
	data := wr.data
	fail := func(fp, format string, a ...any) {
		out = append(out, failure{fp, fmt.Sprintf(format, a...)})
	}

	tr, startxref, isStm, err := lightTrailer(data)
	if err != nil {
		fail("structure:trailer", "%v", err)
		return
	}
	fa.xrefStream = isStm
	encV := tr.Get("Encrypt")
	if encV.K == pdfsyn.Null {
		if c.User != "" || c.Owner != "" {
			fail("not-encrypted", "passwords were given but the trailer has no /Encrypt")
		}
		return
	}
	fa.encrypted = true
	if encV.K != pdfsyn.Dict {
		// allowed by the standard, but not what this Writer does; the
		// light parser cannot follow it
		fail("encrypt-dict-indirect", "trailer /Encrypt is %s", encV.String())
		return
	}

	// (1a) the dictionary
	out = append(out, validateDict(encV, c, &fa)...)
	d, derr := stdsec.ParseDict(pdffile.EncryptMap(encV))
	if derr != nil {
		fail("dict:unusable", "the independent handler cannot use the Encrypt dictionary: %v [%s]", derr, encV.String())
		return
	}

	// the file identifier
	idv := tr.Get("ID")
	var id0 []byte
	if idv.K != pdfsyn.Array || len(idv.A) != 2 || idv.A[0].K != pdfsyn.String || idv.A[1].K != pdfsyn.String {
		fail("id:missing", "encrypted file without a two-string /ID: %s", idv.String())
		if idv.K == pdfsyn.Array && len(idv.A) > 0 {
			id0 = idv.A[0].S
		}
	} else {
		id0 = idv.A[0].S
		for i, want := range wr.id {
			if !bytes.Equal(idv.A[i].S, want) {
				fail("id:differs", "/ID[%d] is %q, given %q", i, idv.A[i].S, want)
			}
		}
	}

	// (1b) authentication with the user and with the owner password
	pu, err := stdsec.Prepare(c.User, d.R)
	effOwner := c.Owner
	if effOwner == "" {
		effOwner = c.User // no owner password given: Algorithm 3 (a) uses the user password
	}
	po, err2 := stdsec.Prepare(effOwner, d.R)
	if err != nil || err2 != nil {
		fail(fmt.Sprintf("password-not-preparable-by-standard:R%d", d.R), "the Writer accepted user %q owner %q, which the preparation of revision %d rejects", c.User, c.Owner, d.R)
		return
	}
	same := bytes.Equal(pu, po)
	hu, ok := stdsec.OpenPrepared(d, id0, pu)
	if !ok || !hu.IsUser {
		fail("auth:user-password-rejected:"+fa.cfg()+pwClass(c, c.User, d.R), "the independent handler does not accept the user password %q%s (ID %q, dict %s)", c.User, whichCut(d, id0, c.User, false), id0, encV.String())
		return
	}
	ho, ok := stdsec.OpenPrepared(d, id0, po)
	if (!ok || !ho.IsOwner) && d.R == 3 && keyBytesOf(d) < 16 {
		// the two readings of Algorithm 3 (c) differ for short keys
		d2 := *d
		d2.OwnerKeyFirstN = true
		if h2, ok2 := stdsec.OpenPrepared(&d2, id0, po); ok2 && h2.IsOwner {
			fa.ownerDeFacto = true
			ho, ok = h2, true
			// the user password must not be the owner password in this reading either
			if h3, ok3 := stdsec.OpenPrepared(&d2, id0, pu); !ok3 || !h3.IsUser {
				fail("auth:user-password-rejected:"+fa.cfg(), "user password rejected in the de-facto reading")
			} else {
				hu = h3
			}
		}
	}
	if !ok || !ho.IsOwner {
		fail("auth:owner-password-rejected:"+fa.cfg()+pwClass(c, effOwner, d.R), "the independent handler does not accept the owner password %q as owner password%s (ID %q, dict %s)", effOwner, whichCut(d, id0, effOwner, true), id0, encV.String())
		return
	}
	if !bytes.Equal(hu.Key, ho.Key) {
		fail("auth:keys-differ:"+fa.cfg(), "user and owner password give different file keys")
	}
	if !same {
		if hu.IsOwner {
			fail("auth:user-password-is-owner:"+fa.cfg(), "the user password %q authenticates as owner password although the owner password is %q", c.User, effOwner)
		}
		if ho.IsUser {
			fail("auth:owner-password-is-user:"+fa.cfg(), "the owner password %q authenticates as user password although the user password is %q", effOwner, c.User)
		}
	}
	for _, h := range []*stdsec.Handler{hu, ho} {
		if h.PermsErr != nil {
			fail("perms:algorithm-13:"+fa.cfg(), "%v", h.PermsErr)
			break
		}
		if d.R >= 5 && len(h.PermsPlain) == 16 && !bytes.Equal(h.PermsPlain[4:8], []byte{0xFF, 0xFF, 0xFF, 0xFF}) {
			fail("perms:upper-32-bits", "decrypted /Perms bytes 4-7 are %x, Algorithm 10 (b) sets them to ff", h.PermsPlain[4:8])
			break
		}
	}
	if hu.StmCipher == stdsec.CipherIdentity || hu.StrCipher == stdsec.CipherIdentity {
		fail("dict:identity-cipher", "strings or streams are not encrypted (StmF %v, StrF %v)", hu.StmCipher, hu.StrCipher)
		return
	}
	aes := hu.StrCipher == stdsec.CipherAESV2 || hu.StrCipher == stdsec.CipherAESV3

	// (1c) the objects
	var f *pdffile.File
	if !c.Light {
		var perr *pdffile.Error
		f, perr = pdffile.Read(data, pdffile.Options{Strict: true, Password: &c.User})
		if perr != nil {
			// report, and go on with the objects that can be found by walking
			// the body so that the other clauses are still judged
			fail("structure:"+perr.Code, "%s", perr.Msg)
			f = nil
		}
	}
	if f == nil {
		var lf []failure
		f, lf = lightRead(data, tr, startxref, hu)
		if c.Light {
			out = append(out, lf...)
		}
	}
	h := hu

	// the document metadata stream (through the catalog)
	metaNum := 0
	if root := tr.Get("Root"); root.K == pdfsyn.Ref {
		if ro := f.Objects[int(root.N)]; ro != nil {
			if m := ro.Val.Get("Metadata"); m.K == pdfsyn.Ref {
				metaNum = int(m.N)
			}
		}
	}
	plainMeta := c.Meta == "plaintext" && !d.EncryptMetadata

	itemOf := map[int]int{}
	for i, ref := range wr.refs {
		if ref == 0 {
			continue // not written (component metadata below PDF 1.4)
		}
		itemOf[int(ref.Number())] = i
	}
	nums := make([]int, 0, len(f.Objects))
	for n := range f.Objects {
		nums = append(nums, n)
	}
	sort.Ints(nums)

	var ivs []ctSample   // first 16 bytes of every AES ciphertext
	var sames []ctSample // ciphertexts of sameString
	var sameBodies []ctSample
	exempt := [][2]int64{{startxref, int64(len(data))}}
	addIV := func(where string, num int, ct []byte) {
		if aes && len(ct) >= 16 {
			ivs = append(ivs, ctSample{where, num, ct[:16]})
		}
	}

	for _, n := range nums {
		o := f.Objects[n]
		cls := hu.StrCipher.String() + ":" + numClass(o.Num) + ":" + genClass(o.Gen)
		isXRef := o.IsStream && string(o.Val.Get("Type").S) == "XRef"
		if isXRef {
			continue
		}
		i, isItem := itemOf[n]
		if isItem && i < len(wr.roles) && wr.roles[i] != "" {
			// the part the object played in the write order belongs to the class of the defect
			cls += ":" + wr.roles[i]
		}
		if isItem && g.items[i].stream != nil {
			if t := streamTag(g.items[i].stream.dict); t != "" {
				cls += ":stream-tagged-" + t
			}
		}
		if isItem && g.items[i].embedTitle != "" {
			cls += ":component-metadata-embedded"
		}
		if c.Graph == "len" {
			cls += ":stream-length-space"
		}
		if n == metaNum && plainMeta {
			// exempt from encryption: must be readable as it is
			exempt = append(exempt, [2]int64{o.Offset, o.End})
			body, err := pdffile.DecodeFilters(o.Val, o.Raw)
			if err != nil || !bytes.Contains(body, []byte(g.xmpTitle)) {
				fail("metadata:plaintext-not-readable", "plaintext metadata requested, but the metadata stream %d does not hold the packet in the clear (%v)", n, err)
			}
			continue
		}
		val, raw, err := f.Plain(h, o)
		if err != nil {
			what := "object"
			if isItem {
				what = g.items[i].name
			}
			fail("independent-decrypt-error:"+cls, "%s %d %d: %v", what, o.Num, o.Gen, err)
			if isItem && o.Gen == int(wr.refs[i].Generation()) {
				delete(itemOf, n) // found, but unreadable: not "missing"
			}
			continue
		}
		if o.InObjStm == 0 {
			allStrings(o.Val, func(s []byte) { addIV(fmt.Sprintf("string in object %d %d", o.Num, o.Gen), o.Num, s) })
			if o.IsStream {
				addIV(fmt.Sprintf("stream %d %d", o.Num, o.Gen), o.Num, o.Raw)
			}
		}
		if n == metaNum && c.Meta != "none" {
			body, err := pdffile.DecodeFilters(val, raw)
			if err != nil || !bytes.Contains(body, []byte(g.xmpTitle)) {
				fail("metadata:not-recovered:"+cls, "the decrypted metadata stream %d does not hold the packet (%v)", n, err)
			}
		}
		if !isItem {
			continue
		}
		it := g.items[i]
		if o.Gen != int(wr.refs[i].Generation()) {
			fail("value-generation", "%s written as %v, found with generation %d", it.name, wr.refs[i], o.Gen)
			continue
		}
		delete(itemOf, n)
		if it.embedTitle != "" {
			// the packet is serialised by the library: only its title is known
			if !o.IsStream {
				fail("value-kind", "%s %d %d is not a stream", it.name, o.Num, o.Gen)
				continue
			}
			body, err := pdffile.DecodeFilters(val, raw)
			if err != nil {
				fail("independent-decode-error:"+cls, "%s %d %d: %v", it.name, o.Num, o.Gen, err)
			} else if !bytes.Contains(body, []byte(it.embedTitle)) {
				fail("decrypted-stream-differs:"+cls, "%s %d %d: the decrypted and decoded stream (%d bytes %q) does not hold the title of the packet", it.name, o.Num, o.Gen, len(body), clip(body, 32))
			}
			continue
		}
		if it.stream == nil {
			want := hx.FromPdf(it.obj)
			if o.IsStream {
				fail("value-kind", "%s %d %d is a stream", it.name, o.Num, o.Gen)
				continue
			}
			if !pdfsyn.Equal(val, want) {
				fail("decrypted-value-differs:"+cls, "%s %d %d: independent decryption gives %s, written %s", it.name, o.Num, o.Gen, clipS(val.String()), clipS(want.String()))
				continue
			}
			if o.InObjStm == 0 {
				walkStrings(want, o.Val, "", func(path string, plain []byte, r pdfsyn.Value) {
					if bytes.Equal(plain, sameString) && r.K == pdfsyn.String {
						sames = append(sames, ctSample{fmt.Sprintf("object %d %d %s", o.Num, o.Gen, path), o.Num, r.S})
					}
				})
			}
			continue
		}
		// a stream
		if !o.IsStream {
			fail("value-kind", "%s %d %d is not a stream", it.name, o.Num, o.Gen)
			continue
		}
		body, err := pdffile.DecodeFilters(val, raw)
		if err != nil {
			fail("independent-decode-error:"+cls, "%s %d %d: %v", it.name, o.Num, o.Gen, err)
			continue
		}
		if !bytes.Equal(body, it.stream.body) {
			fail("decrypted-stream-differs:"+cls, "%s %d %d: independent decryption gives %d bytes %q, written %d bytes %q", it.name, o.Num, o.Gen, len(body), clip(body, 32), len(it.stream.body), clip(it.stream.body, 32))
			continue
		}
		wantD := hx.FromPdf(it.stream.dict)
		d2 := pdfsyn.Value{K: pdfsyn.Dict}
		for _, e := range val.D {
			k := string(e.Key)
			if k == "Length" || k == "Filter" || k == "DecodeParms" {
				continue
			}
			d2.D = append(d2.D, e)
		}
		if wantD.K == pdfsyn.Null {
			wantD = pdfsyn.Value{K: pdfsyn.Dict}
		}
		if !pdfsyn.Equal(d2, wantD) {
			fail("decrypted-stream-dict-differs:"+cls, "%s %d %d: dictionary %s, written %s", it.name, o.Num, o.Gen, clipS(d2.String()), clipS(wantD.String()))
			continue
		}
		walkStrings(wantD, o.Val, "", func(path string, plain []byte, r pdfsyn.Value) {
			if bytes.Equal(plain, sameString) && r.K == pdfsyn.String {
				sames = append(sames, ctSample{fmt.Sprintf("stream dictionary %d %d %s", o.Num, o.Gen, path), o.Num, r.S})
			}
		})
		if bytes.Equal(it.stream.body, sameBody) {
			sameBodies = append(sameBodies, ctSample{fmt.Sprintf("stream %d %d", o.Num, o.Gen), o.Num, o.Raw})
		}
	}
	if len(itemOf) > 0 {
		var miss []string
		for _, i := range itemOf {
			miss = append(miss, fmt.Sprintf("%s (%v)", g.items[i].name, wr.refs[i]))
		}
		sort.Strings(miss)
		fail("value-missing", "written but not found by the independent reader: %s", strings.Join(miss, ", "))
	}

	// Info.Title
	if info := tr.Get("Info"); info.K == pdfsyn.Ref && f.Objects[int(info.N)] != nil {
		if v, _, err := f.Plain(h, f.Objects[int(info.N)]); err == nil {
			if t := v.Get("Title"); t.K != pdfsyn.String || string(t.S) != g.title {
				fail("info-title-differs:"+hu.StrCipher.String(), "Info /Title decrypts to %s, written %q", t.String(), g.title)
			}
		}
	} else {
		fail("info-missing", "trailer /Info %s does not lead to an object", info.String())
	}

	// (3) leakage
	// (everything from startxref on is exempt: only the part before it is copied)
	clear := append([]byte(nil), data[:startxref]...)
	for _, sp := range exempt[1:] {
		for k := sp[0]; k >= 0 && k < sp[1] && k < int64(len(clear)); k++ {
			clear[k] = ' '
		}
	}
	upper := bytes.ToUpper(clear) // hexadecimal strings may use either case
	leak := func(class, where string, plain []byte) {
		nds := needles(plain)
		if g.sparseLeak {
			nds = needlesSparse(plain)
		}
		if kind, k, nd := searchNeedles(clear, upper, nds); kind != "" {
			fail("leak:"+kind+":"+class+":"+fa.cfg(), "plaintext %q of %s occurs %s at offset %d of the file", nd, where, kind, k)
		}
	}
	for _, it := range g.items {
		switch {
		case it.embedTitle != "":
			leak("component-metadata", it.name, []byte(it.embedTitle))
		case it.stream != nil:
			allStrings(hx.FromPdf(it.stream.dict), func(s []byte) { leak("stream-dictionary-string", it.name, s) })
			tag := ""
			if t := streamTag(it.stream.dict); t != "" {
				tag = ":stream-tagged-" + t
			}
			if len(it.stream.filters) > 0 {
				leak("filtered-stream-body"+tag, it.name, it.stream.body)
			} else {
				leak("stream-body"+tag, it.name, it.stream.body)
			}
		case it.compressed:
			allStrings(hx.FromPdf(it.obj), func(s []byte) { leak("string-in-object-stream", it.name, s) })
		default:
			allStrings(hx.FromPdf(it.obj), func(s []byte) { leak("string", it.name, s) })
		}
	}
	leak("info-string", "Info.Title", []byte(g.title))
	if c.Meta == "encrypted" {
		leak("document-metadata", "XMP title", []byte(g.xmpTitle))
	}

	// (4) equal plaintexts, different ciphertexts
	for i := range sames {
		for j := i + 1; j < len(sames); j++ {
			if !bytes.Equal(sames[i].ct, sames[j].ct) {
				continue
			}
			if sames[i].obj != sames[j].obj {
				fail("equal-ciphertext:different-objects:"+fa.cfg(), "%s and %s hold the same plaintext and the same ciphertext %x", sames[i].where, sames[j].where, clip(sames[i].ct, 24))
			} else if aes {
				fail("equal-ciphertext:same-object:"+fa.cfg(), "%s and %s hold the same plaintext and the same ciphertext %x", sames[i].where, sames[j].where, clip(sames[i].ct, 24))
			}
		}
	}
	for i := range sameBodies {
		for j := i + 1; j < len(sameBodies); j++ {
			if bytes.Equal(sameBodies[i].ct, sameBodies[j].ct) {
				fail("equal-ciphertext:streams:"+fa.cfg(), "%s and %s hold the same plaintext and the same ciphertext", sameBodies[i].where, sameBodies[j].where)
			}
		}
	}

	// (5) initialisation vectors
	if aes {
		seen := map[string]string{}
		zero := make([]byte, 16)
		for _, s := range ivs {
			if bytes.Equal(s.ct, zero) {
				fail("iv:all-zero:"+fa.cfg(), "%s has an all-zero initialisation vector", s.where)
				break
			}
			if prev, dup := seen[string(s.ct)]; dup {
				fail("iv:reused:"+fa.cfg(), "%s and %s share the initialisation vector %x", prev, s.where, s.ct)
				break
			}
			seen[string(s.ct)] = s.where
		}
	}
	return
}

func clipS(s string) string {
	if len(s) > 200 {
		return s[:200] + "..."
	}
	return s
}
