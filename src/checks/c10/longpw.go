//go:build verif

package c10

import (
	"fmt"
	"unicode/utf8"

	"seehuhn.de/go/pdf"
	"seehuhn.de/go/pdf/zzverif/ref/stdsec"
)

// ---------------------------------------------------------------------------
// passwords by length structure
//
// The standard cuts a prepared password at a BYTE bound: 32 bytes of
// PDFDocEncoding for revisions 2-4 (Algorithm 2 (a)), 127 bytes of UTF-8 for
// revisions 5-6 (Algorithm 2.A (a)).  Whether the Writer (and the Reader)
// cut at exactly that byte depends on how long the password is and on which
// character lies at the cut, so the family below is enumerated completely
// for each bound b in pwBounds:
//
//	ascii(L)        L ASCII bytes, for every L in [b-7, b+8]
//	char(w, s, t)   s ASCII bytes, one character of UTF-8 width w, t ASCII
//	                bytes; for every w in 1..4, every start offset s in
//	                [b-3, b] (the character lies before the cut, ends at the
//	                cut, is split by the cut after its 1st, 2nd or 3rd byte,
//	                or starts at the cut) and every tail length t in pwTails
//
// All ASCII prefixes are prefixes of one string, so that the members of the
// family differ only in what lies around the cut.
var pwBounds = []int{32, 127}

// one character of each UTF-8 width; all assigned in Unicode 3.2 and fixed
// by SASLprep (the self-test checks this with ref/stdsec); "ä" and "€" have
// a code in PDFDocEncoding, U+10400 has none (passwords with it are not
// accepted for revisions 2-4).
var pwChars = []string{"x", "ä", "€", "\U00010400"}

var pwTails = []int{0, 5}

const pwTailText = "~tail"

// asciiRun returns n ASCII bytes, a prefix of one fixed sequence without a
// short period.
func asciiRun(n int) string {
	b := make([]byte, n)
	for i := range b {
		b[i] = asciiBase[(i+17*(i/64))%64]
	}
	return string(b)
}

type longPw struct {
	pw   string
	desc string
}

// longPasswords returns the family for the bound b.
func longPasswords(b int) []longPw {
	var out []longPw
	for L := b - 7; L <= b+8; L++ {
		out = append(out, longPw{asciiRun(L), fmt.Sprintf("ascii(%d)", L)})
	}
	for i, ch := range pwChars {
		for s := b - 3; s <= b; s++ {
			for _, t := range pwTails {
				out = append(out, longPw{asciiRun(s) + ch + pwTailText[:t], fmt.Sprintf("char(w=%d,s=%d,t=%d)", i+1, s, t)})
			}
		}
	}
	return out
}

func longPwSelfTest() error {
	for i, ch := range pwChars {
		if len(ch) != i+1 || utf8.RuneCountInString(ch) != 1 {
			return fmt.Errorf("long passwords: %q is not one character of %d bytes", ch, i+1)
		}
		if p, err := stdsec.SASLprep("a" + ch + "b"); err != nil || p != "a"+ch+"b" {
			return fmt.Errorf("long passwords: %q is not fixed by SASLprep (%q, %v)", ch, p, err)
		}
	}
	for _, b := range pwBounds {
		seen := map[string]bool{}
		cutInside := map[[2]int]bool{} // (width, bytes of the character before the cut)
		for _, lp := range longPasswords(b) {
			if seen[lp.pw] {
				return fmt.Errorf("long passwords: %s occurs twice", lp.desc)
			}
			seen[lp.pw] = true
			if p, err := stdsec.SASLprep(lp.pw); err != nil || p != lp.pw {
				return fmt.Errorf("long passwords: %s is not fixed by SASLprep (%v)", lp.desc, err)
			}
			if len(lp.pw) > b && !utf8.RuneStart(lp.pw[b]) {
				k := b
				for !utf8.RuneStart(lp.pw[k]) {
					k--
				}
				_, w := utf8.DecodeRuneInString(lp.pw[k:])
				cutInside[[2]int{w, b - k}] = true
			}
		}
		// every interior cut position of 2-, 3- and 4-byte characters occurs
		for w := 2; w <= 4; w++ {
			for j := 1; j < w; j++ {
				if !cutInside[[2]int{w, j}] {
					return fmt.Errorf("long passwords: bound %d: no password whose %d-byte character is cut after %d bytes", b, w, j)
				}
			}
		}
	}
	return nil
}

// pwRoles: where the long password P is used.
var pwRoles = []string{"user", "owner", "only"}

func pwPair(role, p string) (user, owner string) {
	switch role {
	case "user":
		return p, "ab"
	case "owner":
		return "ab", p
	}
	return p, ""
}

// longPwWriteJobs: direction 1.  Every password of every bound in every
// role, for every version (quick); thorough adds every (user, owner) pair of
// passwords of the same bound.
func longPwWriteJobs(thorough bool) []Case {
	var jobs []Case
	mk := func(v, u, o, note string) {
		jobs = append(jobs, Case{Dir: "write", Space: "long-passwords", Version: v, User: u, Owner: o, Perm: int(pdf.PermCopy | pdf.PermForms),
			Meta: "none", ID: "16", Graph: "full", Note: note})
	}
	for _, v := range versions {
		for _, b := range pwBounds {
			fam := longPasswords(b)
			for _, lp := range fam {
				for _, role := range pwRoles {
					u, o := pwPair(role, lp.pw)
					mk(v, u, o, fmt.Sprintf("bound %d %s as %s password", b, lp.desc, role))
				}
			}
			if thorough {
				for _, pu := range fam {
					for _, po := range fam {
						mk(v, pu.pw, po.pw, fmt.Sprintf("bound %d user %s owner %s", b, pu.desc, po.desc))
					}
				}
			}
		}
	}
	return jobs
}

// longPwReadJobs: direction 2.  Every handler configuration with every
// password of the bound of its revision in every role (quick); thorough: the
// passwords of both bounds, literal and hexadecimal strings.
func longPwReadJobs(thorough bool) []Case {
	var jobs []Case
	for _, rc := range reverseConfigs {
		own := 32
		if rc.R >= 5 {
			own = 127
		}
		for _, b := range pwBounds {
			if b != own && !thorough {
				continue
			}
			for _, lp := range longPasswords(b) {
				for _, role := range pwRoles {
					for _, hexs := range ev2(thorough) {
						u, o := pwPair(role, lp.pw)
						jobs = append(jobs, Case{Dir: "read", Space: "long-passwords", Version: rc.header, User: u, Owner: o, Perm: -1340, Meta: "none", ID: "16",
							Gen: 1, R: rc.R, V: rc.V, KeyBits: rc.bits, AES: rc.aes, OwnerN: rc.ownN, Hex: hexs,
							Note: fmt.Sprintf("bound %d %s as %s password", b, lp.desc, role)})
					}
				}
			}
		}
	}
	return jobs
}

func ev2(thorough bool) []bool {
	if thorough {
		return []bool{false, true}
	}
	return []bool{false}
}

// pwClass names, for a case of the long-password space, how the standard's
// preparation for revision R treats the password: it belongs to the class of
// the defect when the password is not accepted.
func pwClass(c *Case, password string, R int) string {
	if c.Space != "long-passwords" {
		return ""
	}
	if R >= 5 {
		s, err := stdsec.SASLprep(password)
		switch {
		case err != nil:
			return ""
		case len(s) <= 127:
			return ":password-not-truncated"
		case utf8.RuneStart(s[127]):
			return ":password-truncated-at-127-bytes-between-characters"
		}
		return ":password-truncated-at-127-bytes-inside-a-character"
	}
	if utf8.RuneCountInString(password) <= 32 {
		return ":password-not-truncated"
	}
	return ":password-truncated-at-32-bytes"
}

// whichCut is a diagnosis for a password the independent handler does not
// accept in the role it was given in: it looks for the cut of the password
// that the Encrypt dictionary does accept in that role.  Revisions 5-6: every
// byte prefix of the SASLprep'ed password; revisions 2-4: every prefix in
// whole characters.
func whichCut(d *stdsec.Dict, id0 []byte, password string, owner bool) string {
	accepts := func(prepared []byte) bool {
		h, ok := stdsec.OpenPrepared(d, id0, prepared)
		if !ok {
			return false
		}
		if owner {
			return h.IsOwner
		}
		return h.IsUser
	}
	if d.R >= 5 {
		s, err := stdsec.SASLprep(password)
		if err != nil {
			return ""
		}
		for n := 0; n <= len(s) && n <= 127; n++ {
			if accepts([]byte(s[:n])) {
				return fmt.Sprintf("; the dictionary validates the first %d bytes of the %d-byte password, Algorithm 2.A uses the first %d", n, len(s), min(len(s), 127))
			}
		}
		return "; no byte prefix of the password is accepted"
	}
	rs := []rune(password)
	for n := 0; n <= len(rs); n++ {
		p, err := stdsec.Prepare(string(rs[:n]), d.R)
		if err == nil && accepts(p) {
			return fmt.Sprintf("; the dictionary validates the first %d characters of the %d-character password, Algorithm 2 uses the first %d", n, len(rs), min(len(rs), 32))
		}
	}
	return "; no prefix of the password is accepted"
}
