//go:build verif

package c10

import (
	"bytes"
	"fmt"
	"hash/fnv"

	"golang.org/x/text/language"
	"seehuhn.de/go/pdf"
	"seehuhn.de/go/pdf/zzverif/checks/hx"
	"seehuhn.de/go/xmp"
)

// ---------------------------------------------------------------------------
// markers
//
// Every plaintext of the model is a marker: a byte string over [A-Za-z0-9]
// that starts with a tag naming its (object, position) and continues with
// bytes derived from a hash of the tag, so that no marker is a substring of
// another one and a marker cannot appear in a file by accident (the shortest,
// 15 bytes, has > 80 bits).  Because markers are alphanumeric a leak through
// a literal string would show them verbatim; leaks through hexadecimal
// strings are searched for as well.

const alnum = "ABCDEFGHIJKLMNOPQRSTUVWXYZabcdefghijklmnopqrstuvwxyz0123456789"

// marker returns the n-byte marker of (obj, pos).
func marker(obj, pos, n int) []byte {
	tag := fmt.Sprintf("Zq%02dx%02dJ", obj, pos)
	out := make([]byte, 0, n)
	out = append(out, tag...)
	h := fnv.New64a()
	h.Write([]byte(tag))
	x := h.Sum64() | 1
	for len(out) < n {
		x = x*6364136223846793005 + 1442695040888963407
		out = append(out, alnum[(x>>33)%uint64(len(alnum))])
	}
	return out[:n]
}

func mstr(obj, pos, n int) pdf.String { return pdf.String(marker(obj, pos, n)) }

// sameString is the plaintext that occurs in several objects (and twice in
// one object): equal plaintexts must not give equal ciphertexts.
var sameString = pdf.String("SameSameSameSameSameSameSameSame-0123456789") // 43 bytes: three AES blocks

var sameBody = []byte("EqualStreamBodyEqualStreamBodyEqualStreamBody-abcdefghijklmnopqrstuvwxyz")

// ---------------------------------------------------------------------------
// the object graph

type streamSpec struct {
	dict    pdf.Dict
	body    []byte
	filters []pdf.Filter
}

// item is one indirect object of the model.
type item struct {
	name       string
	obj        pdf.Object  // a non-stream object, or
	stream     *streamSpec // a stream
	compressed bool        // written through WriteCompressed
}

type graph struct {
	items    []item
	title    string // Info.Title
	xmpTitle string // dc:title of the document metadata
}

func allBytes() []byte {
	all := make([]byte, 256)
	for i := range all {
		all[i] = byte(i)
	}
	return all
}

// fullGraph is the fixed graph of the password / permission / ID spaces:
// strings at top level, in arrays, nested arrays, dictionaries, nested
// dictionaries, stream dictionaries; the empty string; strings of 15, 16, 17,
// 31, 32, 33 bytes (AES block edges); a string with all 256 byte values;
// stream bodies of 0, 15, 16, 17 bytes, an unfiltered body of 100 bytes, an
// unfiltered body of 2000 bytes (written through the Writer's streaming
// path), a Flate body; equal strings in four objects (twice in one of them)
// and equal bodies in two streams; three objects in an object stream.
func fullGraph() *graph {
	big := bytes.Repeat([]byte("compressible stream body 0123456789 "), 80)
	big = append(big, marker(14, 9, 40)...)
	return &graph{
		items: []item{
			{name: "top-level string", obj: mstr(0, 0, 24)},
			{name: "array", obj: pdf.Array{mstr(1, 0, 24), pdf.Array{mstr(1, 1, 25), pdf.Integer(7), pdf.Array{mstr(1, 2, 26)}},
				pdf.Dict{"K": mstr(1, 3, 27)}, pdf.String(""), pdf.Name("N"), sameString}},
			{name: "dict", obj: pdf.Dict{"S": mstr(2, 0, 24), "D": pdf.Dict{"S2": mstr(2, 1, 28), "D3": pdf.Dict{"S3": mstr(2, 2, 29)}},
				"A":   pdf.Array{mstr(2, 3, 30), pdf.Name("X"), pdf.Real(1.5)},
				"B15": mstr(2, 4, 15), "B16": mstr(2, 5, 16), "B17": mstr(2, 6, 17),
				"B31": mstr(2, 7, 31), "B32": mstr(2, 8, 32), "B33": mstr(2, 9, 33),
				"Bin": pdf.String(allBytes()), "E": pdf.String(""),
				"Same1": sameString, "Same2": sameString}},
			{name: "plain stream", stream: &streamSpec{dict: pdf.Dict{"Key": mstr(3, 0, 24), "Arr": pdf.Array{mstr(3, 1, 24), sameString}}, body: marker(3, 9, 100)}},
			{name: "flate stream", stream: &streamSpec{dict: pdf.Dict{"Note": mstr(4, 0, 24)}, body: big, filters: []pdf.Filter{pdf.FilterCompress{}}}},
			{name: "empty stream", stream: &streamSpec{dict: pdf.Dict{"Note": mstr(5, 0, 24)}, body: nil}},
			{name: "15-byte stream", stream: &streamSpec{dict: pdf.Dict{}, body: marker(6, 9, 15)}},
			{name: "16-byte stream", stream: &streamSpec{dict: pdf.Dict{}, body: marker(7, 9, 16)}},
			{name: "17-byte stream", stream: &streamSpec{dict: pdf.Dict{}, body: marker(8, 9, 17)}},
			{name: "equal body 1", stream: &streamSpec{dict: pdf.Dict{"Same": sameString}, body: sameBody}},
			{name: "equal body 2", stream: &streamSpec{dict: pdf.Dict{}, body: sameBody}},
			{name: "2000-byte stream", stream: &streamSpec{dict: pdf.Dict{"Note": mstr(11, 0, 24)}, body: marker(11, 9, 2000)}},
			{name: "compressed dict", compressed: true, obj: pdf.Dict{"Os": mstr(12, 0, 24), "Oa": pdf.Array{mstr(12, 1, 24), pdf.Integer(1)}, "Same": sameString}},
			{name: "compressed array", compressed: true, obj: pdf.Array{mstr(13, 0, 24), pdf.Dict{"Q": mstr(13, 1, 16)}}},
			{name: "compressed string", compressed: true, obj: mstr(14, 0, 24)},
		},
		title:    string(marker(20, 0, 24)),
		xmpTitle: string(marker(21, 0, 32)),
	}
}

// numGraph is the (smaller) graph of the object-number space: its first five
// items are written under explicit references.
func numGraph() *graph {
	return &graph{
		items: []item{
			{name: "dict", obj: pdf.Dict{"S": mstr(30, 0, 24), "A": pdf.Array{mstr(30, 1, 24), pdf.String("")}, "B16": mstr(30, 2, 16), "Same1": sameString, "Same2": sameString}},
			{name: "plain stream", stream: &streamSpec{dict: pdf.Dict{"Key": mstr(31, 0, 24)}, body: marker(31, 9, 100)}},
			{name: "top-level string", obj: mstr(32, 0, 24)},
			{name: "flate stream", stream: &streamSpec{dict: pdf.Dict{"Same": sameString}, body: append(bytes.Repeat([]byte("abc "), 50), marker(33, 9, 32)...), filters: []pdf.Filter{pdf.FilterCompress{}}}},
			{name: "array", obj: pdf.Array{sameString, mstr(34, 0, 17)}},
			{name: "compressed dict", compressed: true, obj: pdf.Dict{"Os": mstr(35, 0, 24), "Same": sameString}},
			{name: "compressed string", compressed: true, obj: mstr(36, 0, 24)},
		},
		title: string(marker(40, 0, 24)),
	}
}

// ---------------------------------------------------------------------------
// writing with the library

type written struct {
	data  []byte
	refs  []pdf.Reference // one per item
	id    [][]byte        // as given (nil = chosen by the Writer)
	pages pdf.Reference
}

// idFor gives the WriterOptions.ID of an ID mode.
func idFor(mode string) [][]byte {
	switch mode {
	case "absent":
		return nil
	case "empty":
		return [][]byte{{}, {}}
	case "one16":
		return [][]byte{marker(50, 0, 16)}
	case "16":
		return [][]byte{marker(50, 0, 16), marker(50, 1, 16)}
	case "32":
		return [][]byte{marker(51, 0, 32), marker(51, 1, 32)}
	}
	panic("bad id mode " + mode)
}

// idModes: no ID given (the Writer chooses one), two empty strings, one
// 16-byte string (the Writer adds the second; thorough tier only), two
// 16-byte strings, two 32-byte strings.
func idModes(thorough bool) []string {
	if thorough {
		return []string{"absent", "empty", "one16", "16", "32"}
	}
	return []string{"absent", "empty", "16", "32"}
}

func newMeta(g *graph, mode string) (*pdf.MetadataStream, error) {
	if mode == "none" {
		return nil, nil
	}
	packet := xmp.NewPacket()
	dc := &xmp.DublinCore{}
	dc.Title.Set(language.Und, g.xmpTitle)
	if err := packet.Set(dc); err != nil {
		return nil, err
	}
	return &pdf.MetadataStream{Data: packet, Plaintext: mode == "plaintext"}, nil
}

// explicitRefs gives the references of the first items of numGraph for the
// base pair (num, gen): num, num+1, ... (downwards when num+4 would exceed
// limit), all with generation gen.
func explicitRefs(num uint32, gen uint16, n int, limit uint32) []pdf.Reference {
	out := make([]pdf.Reference, n)
	for i := range out {
		k := num + uint32(i)
		if num+uint32(n)-1 > limit {
			k = num - uint32(i)
		}
		out[i] = pdf.NewReference(k, gen)
	}
	return out
}

// write produces the file of c with the real Writer.  stage names the step
// that failed ("options" = NewWriter refused; "panic" = the Writer panicked).
func write(g *graph, c *Case) (wr *written, stage string, err error) {
	v, perr := pdf.ParseVersion(c.Version)
	if perr != nil {
		return nil, "case", perr
	}
	ms, err := newMeta(g, c.Meta)
	if err != nil {
		return nil, "xmp", err
	}
	id := idFor(c.ID)
	opt := &pdf.WriterOptions{
		ID:               idFor(c.ID),
		UserPassword:     c.User,
		OwnerPassword:    c.Owner,
		UserPermissions:  pdf.Perm(c.Perm),
		DocumentMetadata: ms,
		HumanReadable:    c.Human,
	}
	buf := &bytes.Buffer{}
	defer func() {
		if p := recover(); p != nil {
			wr, stage, err = nil, "panic", fmt.Errorf("panic: %v", p)
		}
	}()
	w, err := pdf.NewWriter(buf, v, opt)
	if err != nil {
		return nil, "options", err
	}
	wr = &written{id: id, refs: make([]pdf.Reference, len(g.items))}

	// explicit references first (the Writer allocates above the largest
	// number it has seen)
	nExplicit := 0
	if c.Graph == "num" {
		nExplicit = 5
		copy(wr.refs, explicitRefs(c.Num, uint16(c.Gen), nExplicit, maxObjNum))
		if c.Gen == 0 {
			// members of object streams can carry explicit numbers as well
			// (generation 0 only)
			for i := nExplicit; i < len(g.items); i++ {
				if g.items[i].compressed {
					lo := wr.refs[0].Number()
					for _, r := range wr.refs[:nExplicit] {
						if r.Number() < lo {
							lo = r.Number()
						}
					}
					if lo > uint32(len(g.items)) {
						wr.refs[i] = pdf.NewReference(lo-uint32(i-nExplicit)-1, 0)
					}
				}
			}
		}
	}
	putItem := func(i int) (string, error) {
		it := g.items[i]
		if wr.refs[i] == 0 {
			wr.refs[i] = w.Alloc()
		}
		ref := wr.refs[i]
		if it.stream != nil {
			s := it.stream
			d, _ := hx.Clone(s.dict).(pdf.Dict)
			body, err := w.OpenStream(ref, d, s.filters...)
			if err != nil {
				return "openstream", err
			}
			if _, err := body.Write(append([]byte{}, s.body...)); err != nil {
				return "stream-write", err
			}
			if err := body.Close(); err != nil {
				return "stream-close", err
			}
			return "", nil
		}
		// cloned: the Writer must not see (and possibly modify) the model
		if err := w.Put(ref, hx.Clone(it.obj)); err != nil {
			return "put", err
		}
		return "", nil
	}
	for i := 0; i < nExplicit; i++ {
		if st, err := putItem(i); err != nil {
			return nil, st, err
		}
	}
	var cRefs []pdf.Reference
	var cObjs []pdf.Object
	for i, it := range g.items {
		if it.compressed && wr.refs[i] != 0 {
			cRefs = append(cRefs, wr.refs[i])
			cObjs = append(cObjs, hx.Clone(it.obj))
		}
	}

	wr.pages = w.Alloc()
	if err := w.Put(wr.pages, pdf.Dict{"Type": pdf.Name("Pages"), "Kids": pdf.Array{}, "Count": pdf.Integer(0)}); err != nil {
		return nil, "pages", err
	}
	w.GetMeta().Catalog.Pages = wr.pages
	w.GetMeta().Info.Title = pdf.TextString(g.title)

	for i := nExplicit; i < len(g.items); i++ {
		if g.items[i].compressed {
			if wr.refs[i] == 0 {
				wr.refs[i] = w.Alloc()
				cRefs = append(cRefs, wr.refs[i])
				cObjs = append(cObjs, hx.Clone(g.items[i].obj))
			}
			continue
		}
		if st, err := putItem(i); err != nil {
			return nil, st, err
		}
	}
	if len(cRefs) > 0 {
		if err := w.WriteCompressed(cRefs, cObjs...); err != nil {
			return nil, "writecompressed", err
		}
	}
	if err := w.Close(); err != nil {
		return nil, "close", err
	}
	wr.data = buf.Bytes()
	return wr, "", nil
}
