//go:build verif

package c10

import (
	"bytes"
	"fmt"
	"hash/fnv"

	"golang.org/x/text/language"
	"seehuhn.de/go/pdf"
	"seehuhn.de/go/pdf/zzverif/checks/hx"
	"seehuhn.de/go/xmp"
)

// ---------------------------------------------------------------------------
// markers
//
// Every plaintext of the model is a marker: a byte string over [A-Za-z0-9]
// that starts with a tag naming its (object, position) and continues with
// bytes derived from a hash of the tag, so that no marker is a substring of
// another one and a marker cannot appear in a file by accident (the shortest,
// 15 bytes, has > 80 bits).  Because markers are alphanumeric a leak through
// a literal string would show them verbatim; leaks through hexadecimal
// strings are searched for as well.

const alnum = "ABCDEFGHIJKLMNOPQRSTUVWXYZabcdefghijklmnopqrstuvwxyz0123456789"

// marker returns the n-byte marker of (obj, pos).
func marker(obj, pos, n int) []byte {
	tag := fmt.Sprintf("Zq%02dx%02dJ", obj, pos)
	out := make([]byte, 0, n)
	out = append(out, tag...)
	h := fnv.New64a()
	h.Write([]byte(tag))
	x := h.Sum64() | 1
	for len(out) < n {
		x = x*6364136223846793005 + 1442695040888963407
		out = append(out, alnum[(x>>33)%uint64(len(alnum))])
	}
	return out[:n]
}

func mstr(obj, pos, n int) pdf.String { return pdf.String(marker(obj, pos, n)) }

// sameString is the plaintext that occurs in several objects (and twice in
// one object): equal plaintexts must not give equal ciphertexts.
var sameString = pdf.String("SameSameSameSameSameSameSameSame-0123456789") // 43 bytes: three AES blocks

var sameBody = []byte("EqualStreamBodyEqualStreamBodyEqualStreamBody-abcdefghijklmnopqrstuvwxyz")

// ---------------------------------------------------------------------------
// the object graph

type streamSpec struct {
	dict    pdf.Dict
	body    []byte
	filters []pdf.Filter
}

// item is one indirect object of the model.
type item struct {
	name       string
	obj        pdf.Object  // a non-stream object, or
	stream     *streamSpec // a stream, or
	embedTitle string      // an XMP packet with this dc:title, written by MetadataStream.Embed through a ResourceManager (component-level metadata)
	compressed bool        // written through WriteCompressed
}

type graph struct {
	items    []item
	title    string // Info.Title
	xmpTitle string // dc:title of the document metadata

	// sparseLeak: the leak search looks for the first and the last 24 bytes
	// of every stream body only (graphs of the stream-length space, whose
	// bodies add up to hundreds of kilobytes)
	sparseLeak bool
}

func allBytes() []byte {
	all := make([]byte, 256)
	for i := range all {
		all[i] = byte(i)
	}
	return all
}

// fullGraph is the fixed graph of the password / permission / ID spaces:
// strings at top level, in arrays, nested arrays, dictionaries, nested
// dictionaries, stream dictionaries; the empty string; strings of 15, 16, 17,
// 31, 32, 33 bytes (AES block edges); a string with all 256 byte values;
// stream bodies of 0, 15, 16, 17 bytes, an unfiltered body of 100 bytes, an
// unfiltered body of 2000 bytes (written through the Writer's streaming
// path), a Flate body; equal strings in four objects (twice in one of them)
// and equal bodies in two streams; three objects in an object stream.
func fullGraph() *graph {
	big := bytes.Repeat([]byte("compressible stream body 0123456789 "), 80)
	big = append(big, marker(14, 9, 40)...)
	return &graph{
		items: []item{
			{name: "top-level string", obj: mstr(0, 0, 24)},
			{name: "array", obj: pdf.Array{mstr(1, 0, 24), pdf.Array{mstr(1, 1, 25), pdf.Integer(7), pdf.Array{mstr(1, 2, 26)}},
				pdf.Dict{"K": mstr(1, 3, 27)}, pdf.String(""), pdf.Name("N"), sameString}},
			{name: "dict", obj: pdf.Dict{"S": mstr(2, 0, 24), "D": pdf.Dict{"S2": mstr(2, 1, 28), "D3": pdf.Dict{"S3": mstr(2, 2, 29)}},
				"A":   pdf.Array{mstr(2, 3, 30), pdf.Name("X"), pdf.Real(1.5)},
				"B15": mstr(2, 4, 15), "B16": mstr(2, 5, 16), "B17": mstr(2, 6, 17),
				"B31": mstr(2, 7, 31), "B32": mstr(2, 8, 32), "B33": mstr(2, 9, 33),
				"Bin": pdf.String(allBytes()), "E": pdf.String(""),
				"Same1": sameString, "Same2": sameString}},
			{name: "plain stream", stream: &streamSpec{dict: pdf.Dict{"Key": mstr(3, 0, 24), "Arr": pdf.Array{mstr(3, 1, 24), sameString}}, body: marker(3, 9, 100)}},
			{name: "flate stream", stream: &streamSpec{dict: pdf.Dict{"Note": mstr(4, 0, 24)}, body: big, filters: []pdf.Filter{pdf.FilterCompress{}}}},
			{name: "empty stream", stream: &streamSpec{dict: pdf.Dict{"Note": mstr(5, 0, 24)}, body: nil}},
			{name: "15-byte stream", stream: &streamSpec{dict: pdf.Dict{}, body: marker(6, 9, 15)}},
			{name: "16-byte stream", stream: &streamSpec{dict: pdf.Dict{}, body: marker(7, 9, 16)}},
			{name: "17-byte stream", stream: &streamSpec{dict: pdf.Dict{}, body: marker(8, 9, 17)}},
			{name: "equal body 1", stream: &streamSpec{dict: pdf.Dict{"Same": sameString}, body: sameBody}},
			{name: "equal body 2", stream: &streamSpec{dict: pdf.Dict{}, body: sameBody}},
			{name: "2000-byte stream", stream: &streamSpec{dict: pdf.Dict{"Note": mstr(11, 0, 24)}, body: marker(11, 9, 2000)}},
			{name: "compressed dict", compressed: true, obj: pdf.Dict{"Os": mstr(12, 0, 24), "Oa": pdf.Array{mstr(12, 1, 24), pdf.Integer(1)}, "Same": sameString}},
			{name: "compressed array", compressed: true, obj: pdf.Array{mstr(13, 0, 24), pdf.Dict{"Q": mstr(13, 1, 16)}}},
			{name: "compressed string", compressed: true, obj: mstr(14, 0, 24)},
			// streams whose dictionary carries the type tags of a stream kind
			// that has an exemption from encryption (the document-level
			// metadata stream under /EncryptMetadata false) without being the
			// exempt stream itself: component-level metadata and an embedded
			// file.  See taggedKinds.
			{name: "component metadata stream (Metadata/XML, unfiltered)", stream: &streamSpec{dict: pdf.Dict{"Type": pdf.Name("Metadata"), "Subtype": pdf.Name("XML"), "Note": mstr(15, 0, 24)}, body: marker(15, 9, 200)}},
			{name: "component metadata stream (Metadata/XML, Flate)", stream: &streamSpec{dict: pdf.Dict{"Type": pdf.Name("Metadata"), "Subtype": pdf.Name("XML")},
				body: append(bytes.Repeat([]byte("<rdf:li>compressible packet text</rdf:li> "), 30), marker(16, 9, 40)...), filters: []pdf.Filter{pdf.FilterCompress{}}}},
			{name: "stream tagged Metadata without Subtype", stream: &streamSpec{dict: pdf.Dict{"Type": pdf.Name("Metadata")}, body: marker(17, 9, 120)}},
			{name: "stream tagged EmbeddedFile", stream: &streamSpec{dict: pdf.Dict{"Type": pdf.Name("EmbeddedFile"), "Params": pdf.Dict{"CheckSum": mstr(18, 0, 16)}}, body: marker(18, 9, 120)}},
			{name: "component metadata written by MetadataStream.Embed", embedTitle: string(marker(19, 0, 32))},
		},
		title:    string(marker(20, 0, 24)),
		xmpTitle: string(marker(21, 0, 32)),
	}
}

// taggedKinds names the streams of the full graph whose dictionary carries
// the type tags of a stream kind that can be exempt from encryption, without
// being the exempt stream itself, and the ways in which they are written.
var taggedKinds = []string{
	"/Type /Metadata /Subtype /XML, unfiltered, through OpenStream (and through Put as *pdf.Stream in the write orders)",
	"/Type /Metadata /Subtype /XML, FilterCompress, through OpenStream",
	"/Type /Metadata (no /Subtype), unfiltered",
	"/Type /EmbeddedFile, unfiltered",
	"component-level XMP packet through ResourceManager.Embed(MetadataStream) (PDF >= 1.4)",
}

// streamTag names the /Type[/Subtype] tag of a model stream dictionary.
func streamTag(d pdf.Dict) string {
	t, _ := d["Type"].(pdf.Name)
	if t == "" {
		return ""
	}
	if st, _ := d["Subtype"].(pdf.Name); st != "" {
		return string(t) + "/" + string(st)
	}
	return string(t)
}

// numGraph is the (smaller) graph of the object-number space: its first five
// items are written under explicit references.
func numGraph() *graph {
	return &graph{
		items: []item{
			{name: "dict", obj: pdf.Dict{"S": mstr(30, 0, 24), "A": pdf.Array{mstr(30, 1, 24), pdf.String("")}, "B16": mstr(30, 2, 16), "Same1": sameString, "Same2": sameString}},
			{name: "plain stream", stream: &streamSpec{dict: pdf.Dict{"Key": mstr(31, 0, 24)}, body: marker(31, 9, 100)}},
			{name: "top-level string", obj: mstr(32, 0, 24)},
			{name: "flate stream", stream: &streamSpec{dict: pdf.Dict{"Same": sameString}, body: append(bytes.Repeat([]byte("abc "), 50), marker(33, 9, 32)...), filters: []pdf.Filter{pdf.FilterCompress{}}}},
			{name: "array", obj: pdf.Array{sameString, mstr(34, 0, 17)}},
			{name: "compressed dict", compressed: true, obj: pdf.Dict{"Os": mstr(35, 0, 24), "Same": sameString}},
			{name: "compressed string", compressed: true, obj: mstr(36, 0, 24)},
		},
		title: string(marker(40, 0, 24)),
	}
}

// ---------------------------------------------------------------------------
// write orders
//
// The Writer keeps ONE "current object" reference that selects the key of
// every string it formats, and it has two deferred paths: the dictionary of a
// stream is only formatted once 1024 bytes have reached the stream (or at
// Close), and objects Put while a stream is open are queued and written by
// the Close of that stream.  Whether every string still gets the key of ITS
// OWN (number, generation) therefore depends on the order of the API calls,
// not only on the objects.  An Order is one element of the finite family of
// call orders that the check enumerates for each graph; nil is the
// sequential order (one object after the other, WriteCompressed last).
//
//	inside(h, s, k, j)   the body of stream h is written in two Writes, s
//	                     bytes first; between them k direct (non-stream)
//	                     objects of the graph, starting with the j-th, are
//	                     Put (s = 0: before any Write; s = len: after the
//	                     last byte); they are left out of the sequence
//	wc-after(h)          stream h is written last of the individual objects
//	                     and WriteCompressed follows its Close directly
//	as-stream(h, a)      the unfiltered stream h is written as a *pdf.Stream
//	                     object through Put, directly after the Put of the
//	                     direct object a
type Order struct {
	Kind  string `json:"kind"` // inside | wc-after | as-stream
	Host  int    `json:"host"` // item index of the stream
	Split int    `json:"split,omitempty"`
	K     int    `json:"k,omitempty"`
	First int    `json:"first,omitempty"` // inside: index into the direct items; as-stream: item index of the object Put just before
}

func (o *Order) String() string {
	if o == nil {
		return "sequential"
	}
	switch o.Kind {
	case "inside":
		return fmt.Sprintf("inside(stream item %d, after %d bytes, %d objects from direct item #%d)", o.Host, o.Split, o.K, o.First)
	case "wc-after":
		return fmt.Sprintf("wc-after(stream item %d)", o.Host)
	case "as-stream":
		return fmt.Sprintf("as-stream(stream item %d after item %d)", o.Host, o.First)
	}
	return "bad order " + o.Kind
}

func (o *Order) key() string {
	if o == nil {
		return "seq"
	}
	return fmt.Sprintf("%s:%d:%d:%d:%d", o.Kind, o.Host, o.Split, o.K, o.First)
}

// streams lists the individually written stream items, directs the
// individually written non-stream items.
func (g *graph) streams() (out []int) {
	for i, it := range g.items {
		if !it.compressed && it.stream != nil {
			out = append(out, i)
		}
	}
	return out
}

func (g *graph) directs() (out []int) {
	for i, it := range g.items {
		if !it.compressed && it.stream == nil && it.embedTitle == "" {
			out = append(out, i)
		}
	}
	return out
}

func (o *Order) valid(g *graph) error {
	if o.Host < 0 || o.Host >= len(g.items) || g.items[o.Host].stream == nil || g.items[o.Host].compressed {
		return fmt.Errorf("order %s: host is not a stream of the graph", o.key())
	}
	switch o.Kind {
	case "inside":
		if o.Split < 0 || o.Split > len(g.items[o.Host].stream.body) || o.K < 1 || o.K > len(g.directs()) || o.First < 0 || o.First >= len(g.directs()) {
			return fmt.Errorf("order %s: out of range", o.key())
		}
	case "wc-after":
	case "as-stream":
		if o.First < 0 || o.First >= len(g.items) || g.items[o.First].stream != nil || g.items[o.First].compressed || len(g.items[o.Host].stream.filters) > 0 {
			return fmt.Errorf("order %s: out of range", o.key())
		}
	default:
		return fmt.Errorf("order %s: unknown kind", o.key())
	}
	return nil
}

// sequence gives the item indexes of the individually written objects in the
// order in which write issues them (objects Put inside a stream are issued by
// their host).
func (g *graph) sequence(o *Order) []int {
	var seq []int
	for i, it := range g.items {
		if !it.compressed {
			seq = append(seq, i)
		}
	}
	if o == nil {
		return seq
	}
	drop := map[int]bool{}
	switch o.Kind {
	case "inside":
		dir := g.directs()
		for k := 0; k < o.K; k++ {
			drop[dir[(o.First+k)%len(dir)]] = true
		}
	case "wc-after", "as-stream":
		drop[o.Host] = true
	}
	var out []int
	for _, i := range seq {
		if drop[i] {
			continue
		}
		out = append(out, i)
		if o.Kind == "as-stream" && i == o.First {
			out = append(out, o.Host)
		}
	}
	if o.Kind == "wc-after" {
		out = append(out, o.Host)
	}
	return out
}

// splitsFor is the alphabet of the points of a stream body of n bytes at
// which other objects are Put: before the first byte, in the middle, after
// the last byte, and around the two places where the Writer stops buffering
// and emits the stream dictionary (1024 bytes have reached the stream: 1024
// plaintext bytes under RC4 and without a filter, 16 + 1008 under AES).
func splitsFor(n int) []int {
	var out []int
	seen := map[int]bool{}
	for _, s := range []int{0, n / 2, 1007, 1008, 1023, 1024, n} {
		if s <= n && !seen[s] {
			seen[s] = true
			out = append(out, s)
		}
	}
	return out
}

// orders enumerates the write orders of a graph; the first one is nil (the
// sequential order).
func orders(g *graph) []*Order {
	out := []*Order{nil}
	seq := g.sequence(nil)
	dir := g.directs()
	for _, h := range g.streams() {
		for _, s := range splitsFor(len(g.items[h].stream.body)) {
			for k := 1; k <= 2 && k <= len(dir); k++ {
				for j := range dir {
					out = append(out, &Order{Kind: "inside", Host: h, Split: s, K: k, First: j})
				}
			}
		}
	}
	for _, h := range g.streams() {
		if h != seq[len(seq)-1] { // else it is the sequential order
			out = append(out, &Order{Kind: "wc-after", Host: h})
		}
	}
	for _, h := range g.streams() {
		if len(g.items[h].stream.filters) > 0 {
			continue
		}
		for _, a := range dir {
			out = append(out, &Order{Kind: "as-stream", Host: h, First: a})
		}
	}
	return out
}

// ---------------------------------------------------------------------------
// writing with the library

type written struct {
	data  []byte
	refs  []pdf.Reference // one per item
	roles []string        // one per item: how the write order treated it ("" = written on its own, sequentially)
	id    [][]byte        // as given (nil = chosen by the Writer)
	pages pdf.Reference
}

// idFor gives the WriterOptions.ID of an ID mode.
func idFor(mode string) [][]byte {
	switch mode {
	case "absent":
		return nil
	case "empty":
		return [][]byte{{}, {}}
	case "one16":
		return [][]byte{marker(50, 0, 16)}
	case "16":
		return [][]byte{marker(50, 0, 16), marker(50, 1, 16)}
	case "32":
		return [][]byte{marker(51, 0, 32), marker(51, 1, 32)}
	}
	panic("bad id mode " + mode)
}

// idModes: no ID given (the Writer chooses one), two empty strings, one
// 16-byte string (the Writer adds the second; thorough tier only), two
// 16-byte strings, two 32-byte strings.
func idModes(thorough bool) []string {
	if thorough {
		return []string{"absent", "empty", "one16", "16", "32"}
	}
	return []string{"absent", "empty", "16", "32"}
}

func newMeta(g *graph, mode string) (*pdf.MetadataStream, error) {
	if mode == "none" {
		return nil, nil
	}
	packet := xmp.NewPacket()
	dc := &xmp.DublinCore{}
	dc.Title.Set(language.Und, g.xmpTitle)
	if err := packet.Set(dc); err != nil {
		return nil, err
	}
	return &pdf.MetadataStream{Data: packet, Plaintext: mode == "plaintext"}, nil
}

// explicitRefs gives the references of the first items of numGraph for the
// base pair (num, gen): num, num+1, ... (downwards when num+4 would exceed
// limit), all with generation gen.
func explicitRefs(num uint32, gen uint16, n int, limit uint32) []pdf.Reference {
	out := make([]pdf.Reference, n)
	for i := range out {
		k := num + uint32(i)
		if num+uint32(n)-1 > limit {
			k = num - uint32(i)
		}
		out[i] = pdf.NewReference(k, gen)
	}
	return out
}

// write produces the file of c with the real Writer.  stage names the step
// that failed ("options" = NewWriter refused; "panic" = the Writer panicked).
func write(g *graph, c *Case) (wr *written, stage string, err error) {
	v, perr := pdf.ParseVersion(c.Version)
	if perr != nil {
		return nil, "case", perr
	}
	ms, err := newMeta(g, c.Meta)
	if err != nil {
		return nil, "xmp", err
	}
	id := idFor(c.ID)
	opt := &pdf.WriterOptions{
		ID:               idFor(c.ID),
		UserPassword:     c.User,
		OwnerPassword:    c.Owner,
		UserPermissions:  pdf.Perm(c.Perm),
		DocumentMetadata: ms,
		HumanReadable:    c.Human,
	}
	buf := &bytes.Buffer{}
	defer func() {
		if p := recover(); p != nil {
			wr, stage, err = nil, "panic", fmt.Errorf("panic: %v", p)
		}
	}()
	w, err := pdf.NewWriter(buf, v, opt)
	if err != nil {
		return nil, "options", err
	}
	wr = &written{id: id, refs: make([]pdf.Reference, len(g.items))}

	// explicit references first (the Writer allocates above the largest
	// number it has seen)
	nExplicit := 0
	if c.Graph == "num" {
		nExplicit = 5
		copy(wr.refs, explicitRefs(c.Num, uint16(c.Gen), nExplicit, maxObjNum))
		if c.Gen == 0 {
			// members of object streams can carry explicit numbers as well
			// (generation 0 only)
			for i := nExplicit; i < len(g.items); i++ {
				if g.items[i].compressed {
					lo := wr.refs[0].Number()
					for _, r := range wr.refs[:nExplicit] {
						if r.Number() < lo {
							lo = r.Number()
						}
					}
					if lo > uint32(len(g.items)) {
						wr.refs[i] = pdf.NewReference(lo-uint32(i-nExplicit)-1, 0)
					}
				}
			}
		}
	}
	ord := c.Order
	if ord != nil {
		if err := ord.valid(g); err != nil {
			return nil, "case", err
		}
	}
	wr.roles = make([]string, len(g.items))
	alloc := func(i int) pdf.Reference {
		if wr.refs[i] == 0 {
			wr.refs[i] = w.Alloc()
		}
		return wr.refs[i]
	}
	// deferred: the direct objects that are Put while the host stream is open
	var deferred []int
	if ord != nil && ord.Kind == "inside" {
		dir := g.directs()
		for k := 0; k < ord.K; k++ {
			deferred = append(deferred, dir[(ord.First+k)%len(dir)])
		}
	}
	putItem := func(i int) (string, error) {
		it := g.items[i]
		if it.embedTitle != "" {
			// component-level metadata through the library's own embedder
			// (XMP streams exist from PDF 1.4 on; below that nothing is written)
			if v < pdf.V1_4 {
				wr.roles[i] = "not-written"
				return "", nil
			}
			packet := xmp.NewPacket()
			dc := &xmp.DublinCore{}
			dc.Title.Set(language.Und, it.embedTitle)
			if err := packet.Set(dc); err != nil {
				return "case", err
			}
			rm := pdf.NewResourceManager(w)
			emb, err := rm.Embed(&pdf.MetadataStream{Data: packet})
			if err != nil {
				return "embed-metadata", err
			}
			ref, ok := emb.(pdf.Reference)
			if !ok {
				return "embed-metadata", fmt.Errorf("MetadataStream.Embed returned %T", emb)
			}
			wr.refs[i] = ref
			if err := rm.Close(); err != nil {
				return "embed-metadata", err
			}
			return "", nil
		}
		ref := alloc(i)
		if it.stream != nil {
			s := it.stream
			d, _ := hx.Clone(s.dict).(pdf.Dict)
			data := append([]byte{}, s.body...)
			if ord != nil && ord.Kind == "as-stream" && ord.Host == i {
				// the whole stream as one object, through Put
				wr.roles[i] = "stream-put-as-object-after-put"
				if d == nil {
					d = pdf.Dict{}
				}
				if err := w.Put(ref, pdf.NewStream(d, data)); err != nil {
					return "put-stream", err
				}
				return "", nil
			}
			body, err := w.OpenStream(ref, d, s.filters...)
			if err != nil {
				return "openstream", err
			}
			if ord != nil && ord.Kind == "inside" && ord.Host == i {
				// the body in two Writes, the Puts of other objects between them
				wr.roles[i] = "stream-open-during-put"
				if ord.Split > 0 {
					if _, err := body.Write(data[:ord.Split]); err != nil {
						return "stream-write", err
					}
				}
				for _, j := range deferred {
					wr.roles[j] = "put-while-stream-open"
					if err := w.Put(alloc(j), hx.Clone(g.items[j].obj)); err != nil {
						return "put-inside", err
					}
				}
				if ord.Split < len(data) {
					if _, err := body.Write(data[ord.Split:]); err != nil {
						return "stream-write", err
					}
				}
			} else if c.IO > 0 {
				// the body in pieces of c.IO bytes
				for p := 0; p < len(data); p += c.IO {
					if _, err := body.Write(data[p:min(p+c.IO, len(data))]); err != nil {
						return "stream-write", err
					}
				}
			} else if _, err := body.Write(data); err != nil {
				return "stream-write", err
			}
			if err := body.Close(); err != nil {
				return "stream-close", err
			}
			return "", nil
		}
		// cloned: the Writer must not see (and possibly modify) the model
		if err := w.Put(ref, hx.Clone(it.obj)); err != nil {
			return "put", err
		}
		return "", nil
	}
	putPages := func() (string, error) {
		wr.pages = w.Alloc()
		if err := w.Put(wr.pages, pdf.Dict{"Type": pdf.Name("Pages"), "Kids": pdf.Array{}, "Count": pdf.Integer(0)}); err != nil {
			return "pages", err
		}
		w.GetMeta().Catalog.Pages = wr.pages
		w.GetMeta().Info.Title = pdf.TextString(g.title)
		return "", nil
	}
	putCompressed := func(role string) (string, error) {
		var cRefs []pdf.Reference
		var cObjs []pdf.Object
		for i, it := range g.items {
			if it.compressed {
				cRefs = append(cRefs, alloc(i))
				cObjs = append(cObjs, hx.Clone(it.obj))
				wr.roles[i] = role
			}
		}
		if len(cRefs) > 0 {
			if err := w.WriteCompressed(cRefs, cObjs...); err != nil {
				return "writecompressed", err
			}
		}
		return "", nil
	}

	// The sequence of the individually written items.  Sequential order: the
	// items in graph order, the Pages object after the items with explicit
	// references (the Writer allocates above the largest number it has seen),
	// WriteCompressed last.  A write order (see Order) moves items.
	seq := g.sequence(ord)
	pagesDone, wcDone := false, false
	for k, i := range seq {
		if k == nExplicit {
			if st, err := putPages(); err != nil {
				return nil, st, err
			}
			pagesDone = true
		}
		if st, err := putItem(i); err != nil {
			return nil, st, err
		}
		if ord != nil && ord.Kind == "wc-after" && ord.Host == i {
			if st, err := putCompressed("writecompressed-right-after-stream"); err != nil {
				return nil, st, err
			}
			wcDone = true
		}
	}
	if !pagesDone {
		if st, err := putPages(); err != nil {
			return nil, st, err
		}
	}
	if !wcDone {
		if st, err := putCompressed(""); err != nil {
			return nil, st, err
		}
	}
	if err := w.Close(); err != nil {
		return nil, "close", err
	}
	wr.data = buf.Bytes()
	return wr, "", nil
}
