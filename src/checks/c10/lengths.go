//go:build verif

package c10

import (
	"fmt"
	"sort"

	"seehuhn.de/go/pdf"
)

// ---------------------------------------------------------------------------
// stream lengths
//
// AES-CBC works on 16-byte blocks and ends with PKCS#7 padding; the Writer's
// encrypting layer and the Reader's decrypting layer both work through
// buffers (one block, two blocks, the Writer's 1024-byte hold-back before the
// stream dictionary is emitted, whatever size a later version chooses).
// Whether the last block, the padding and the hand-over between two buffer
// fills are right depends on the LENGTH of the stream and on nothing else, so
// the family below is enumerated completely:
//
//	every stored length L in [0, lenFull]                       (quick 4200, thorough 8300)
//	every L in [2^k - lenWindow, 2^k + lenWindow], k in lenPowers (quick 13..16, thorough 14..17)
//
// The window of +-40 around a power of two 2^k holds the multiples of 16
// next to it on both sides, the lengths whose ciphertext (16-byte IV +
// padded data) or ciphertext without the IV is exactly 2^k, and 2^k - 16 -+ a
// block.  One unfiltered stream of every length is written; the lengths are
// packed into files of consecutive lengths (at most lenPerFile streams and
// lenBytesPerFile bytes of bodies per file).
//
// Direction 1: the Writer writes them (the body in one Write, or in pieces of
// lenWritePieces bytes), ref/stdsec decrypts each one.  Direction 2:
// ref/stdsec encrypts them, the Reader decrypts each one, the consumer reading
// through io.ReadAll or through a fixed buffer of lenReadBuffers bytes.

const (
	lenWindow       = 40
	lenPerFile      = 64
	lenBytesPerFile = 512 << 10
)

var (
	lenWritePieces = []int{0, 1021} // 0 = the whole body in one Write
	lenReadBuffers = []int{0, 37, 4096}
)

func lenFullRange(thorough bool) int {
	if thorough {
		return 8300
	}
	return 4200
}

func lenPowers(thorough bool) []int {
	if thorough {
		return []int{14, 15, 16, 17}
	}
	return []int{13, 14, 15, 16}
}

// lenFamily returns the lengths of the family, ascending.
func lenFamily(thorough bool) []int {
	set := map[int]bool{}
	for L := 0; L <= lenFullRange(thorough); L++ {
		set[L] = true
	}
	for _, k := range lenPowers(thorough) {
		for L := 1<<k - lenWindow; L <= 1<<k+lenWindow; L++ {
			set[L] = true
		}
	}
	out := make([]int, 0, len(set))
	for L := range set {
		out = append(out, L)
	}
	sort.Ints(out)
	return out
}

// lenBlocks packs the family into runs [lo, hi] of consecutive lengths.
func lenBlocks(thorough bool) [][2]int {
	var out [][2]int
	fam := lenFamily(thorough)
	for i := 0; i < len(fam); {
		j, bytes := i, fam[i]
		for j+1 < len(fam) && fam[j+1] == fam[j]+1 && j+1-i < lenPerFile && bytes+fam[j+1] <= lenBytesPerFile {
			j++
			bytes += fam[j]
		}
		out = append(out, [2]int{fam[i], fam[j]})
		i = j + 1
	}
	return out
}

// lenBody is the body of the stream of length n: alphanumeric (a leak would
// show verbatim), a tag naming the length first, then bytes of a generator
// seeded with the length; never a run that looks like padding.
func lenBody(n int) []byte {
	out := make([]byte, 0, n+16)
	out = append(out, fmt.Sprintf("Zl%06dq", n)...)
	x := uint64(n)*0x9E3779B97F4A7C15 | 1
	for len(out) < n {
		x = x*6364136223846793005 + 1442695040888963407
		out = append(out, alnum[(x>>33)%uint64(len(alnum))])
	}
	return out[:n]
}

// lenGraph is the graph of one file of the stream-length space.
func lenGraph(lo, hi int) *graph {
	g := &graph{title: string(marker(22, 0, 24)), sparseLeak: true}
	for L := lo; L <= hi; L++ {
		g.items = append(g.items, item{name: fmt.Sprintf("%d-byte stream", L), stream: &streamSpec{dict: pdf.Dict{}, body: lenBody(L)}})
	}
	return g
}

func lenSelfTest() error {
	for _, th := range []bool{false, true} {
		fam := lenFamily(th)
		k := 0
		for _, b := range lenBlocks(th) {
			if b[1] < b[0] || b[1]-b[0] >= lenPerFile {
				return fmt.Errorf("stream lengths: bad block %v", b)
			}
			for L := b[0]; L <= b[1]; L++ {
				if k >= len(fam) || fam[k] != L {
					return fmt.Errorf("stream lengths: the blocks do not list the family (at %d)", L)
				}
				k++
			}
		}
		if k != len(fam) {
			return fmt.Errorf("stream lengths: %d of %d lengths in blocks", k, len(fam))
		}
	}
	seen := map[string]bool{}
	for _, L := range lenFamily(false) {
		b := lenBody(L)
		if len(b) != L {
			return fmt.Errorf("stream lengths: body of %d has %d bytes", L, len(b))
		}
		if L >= 48 {
			for _, nd := range needlesSparse(b) {
				if seen[string(nd)] {
					return fmt.Errorf("stream lengths: needle of %d occurs twice", L)
				}
				seen[string(nd)] = true
			}
		}
	}
	return nil
}

// lenWriteVersions: 1.3 RC4-40, 1.4 RC4-128 with a classic table, 1.5
// RC4-128 with cross-reference streams, 1.6/1.7 AESV2, 2.0 AESV3.
func lenWriteVersions(thorough bool) []string {
	if thorough {
		return []string{"1.1", "1.2", "1.3", "1.4", "1.5", "1.6", "1.7", "2.0"}
	}
	return []string{"1.3", "1.5", "1.7", "2.0"}
}

// lenReadConfigs: one handler configuration per cipher and key schedule in
// the quick tier, all of them in the thorough tier.
func lenReadConfigs(thorough bool) []revConfig {
	if thorough {
		return reverseConfigs
	}
	var out []revConfig
	for _, rc := range reverseConfigs {
		switch {
		case rc.R == 2, rc.R == 3 && rc.bits == 128, rc.R >= 4:
			out = append(out, rc)
		}
	}
	return out
}

func lenWriteJobs(thorough bool) []Case {
	var jobs []Case
	for _, v := range lenWriteVersions(thorough) {
		for _, piece := range lenWritePieces {
			for _, b := range lenBlocks(thorough) {
				jobs = append(jobs, Case{Dir: "write", Space: "stream-lengths", Version: v, User: "ab", Owner: asciiBase[:32], Perm: int(pdf.PermCopy | pdf.PermForms),
					Meta: "none", ID: "16", Graph: "len", LenLo: b[0], LenHi: b[1], IO: piece})
			}
		}
	}
	return jobs
}

func lenReadJobs(thorough bool) []Case {
	var jobs []Case
	for _, rc := range lenReadConfigs(thorough) {
		for _, rb := range lenReadBuffers {
			for _, b := range lenBlocks(thorough) {
				jobs = append(jobs, Case{Dir: "read", Space: "stream-lengths", Version: rc.header, User: "ab", Owner: "cd", Perm: -1340, Meta: "none", ID: "16",
					Gen: 1, R: rc.R, V: rc.V, KeyBits: rc.bits, AES: rc.aes, OwnerN: rc.ownN, Graph: "len", LenLo: b[0], LenHi: b[1], IO: rb})
			}
		}
	}
	return jobs
}

// lenRevItems are the items of a reference-written file of the space:
// objects 20, 21, ... hold the streams.
func lenRevItems(lo, hi int) []revItem {
	var out []revItem
	for L := lo; L <= hi; L++ {
		out = append(out, revItem{num: 20 + L - lo, item: item{name: fmt.Sprintf("%d-byte stream", L), stream: &streamSpec{dict: pdf.Dict{}, body: lenBody(L)}}})
	}
	return out
}
