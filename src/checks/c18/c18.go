//go:build verif

// Package c18 decides C18: concurrent reading equals sequential reading and
// shares decoded objects.  Every scenario is executed for ALL schedules of its
// threads (up to a preemption bound, or unbounded) on the real
// Extractor/Decode code whose synchronisation operations are routed through
// engine/vsync into engine/sched.
package c18

import (
	"bytes"
	"errors"
	"fmt"
	"io"
	"os"
	"os/exec"
	"sort"
	"strings"
	"sync"
	"sync/atomic"
	"time"

	"seehuhn.de/go/pdf"
	"seehuhn.de/go/pdf/font/cmap"
	"seehuhn.de/go/pdf/font/mapping"
	"seehuhn.de/go/pdf/zzverif/engine/ev"
	"seehuhn.de/go/pdf/zzverif/engine/explore"
	"seehuhn.de/go/pdf/zzverif/engine/sched"
)

// ---------------------------------------------------------------------------
// fixture file

var (
	refX  = pdf.NewReference(10, 0)
	refA  = pdf.NewReference(11, 0) // A -> B -> dict
	refB  = pdf.NewReference(12, 0)
	refM1 = pdf.NewReference(13, 0) // M1 <-> M2
	refM2 = pdf.NewReference(14, 0)
	refS1 = pdf.NewReference(30, 0)
	refS2 = pdf.NewReference(40, 0)
	refS3 = pdf.NewReference(44, 0) // body1 behind [/ASCII85Decode /FlateDecode]
	refS4 = pdf.NewReference(46, 0) // body2 behind [/ASCII85Decode /FlateDecode]
	refA0 = pdf.NewReference(17, 0) // A0 -> A -> B -> dict
)

var body1, body2 []byte

var fileOnce sync.Once
var fileBytes []byte

func buildFile() []byte {
	fileOnce.Do(func() {
		body1 = make([]byte, 3000)
		body2 = make([]byte, 3000)
		x := uint32(7)
		for i := range body1 {
			x = x*1664525 + 1013904223
			body1[i] = byte(x >> 24)
			body2[i] = byte(x>>16) ^ 0x5a
		}
		var buf bytes.Buffer
		w, err := pdf.NewWriter(&buf, pdf.V1_7, nil)
		if err != nil {
			panic(err)
		}
		pages := w.Alloc()
		page := w.Alloc()
		must(w.Put(pages, pdf.Dict{"Type": pdf.Name("Pages"), "Kids": pdf.Array{page}, "Count": pdf.Integer(1)}))
		must(w.Put(page, pdf.Dict{"Type": pdf.Name("Page"), "Parent": pages}))
		w.GetMeta().Catalog.Pages = pages
		must(w.Put(refX, pdf.Dict{"V": pdf.Integer(1)}))
		must(w.Put(refA, refB))
		must(w.Put(refB, pdf.Dict{"V": pdf.Integer(2)}))
		must(w.Put(refM1, pdf.Dict{"V": pdf.Integer(3), "Other": refM2}))
		must(w.Put(refM2, pdf.Dict{"V": pdf.Integer(4), "Other": refM1}))
		must(w.Put(refA0, refA))
		for i, b := range [][]byte{body1, body2} {
			ref := []pdf.Reference{refS1, refS2}[i]
			s, err := w.OpenStream(ref, nil, pdf.FilterFlate{})
			must(err)
			_, err = s.Write(b)
			must(err)
			must(s.Close())
		}
		for i, b := range [][]byte{body1, body2} {
			ref := []pdf.Reference{refS3, refS4}[i]
			s, err := w.OpenStream(ref, nil, pdf.FilterASCII85{}, pdf.FilterFlate{})
			must(err)
			_, err = s.Write(b)
			must(err)
			must(s.Close())
		}
		must(w.Close())
		fileBytes = buf.Bytes()
	})
	return fileBytes
}

var encOnce sync.Once
var encBytes []byte
var encWant []string

// buildEncryptedFile writes an RC4-40 encrypted file (PDF 1.3 with a user
// password) holding 24 string objects; short keys are where per-object key
// derivation is most likely to share buffers.
func buildEncryptedFile() ([]byte, []string) {
	encOnce.Do(func() {
		var buf bytes.Buffer
		w, err := pdf.NewWriter(&buf, pdf.V1_3, &pdf.WriterOptions{UserPassword: "secret", UserPermissions: pdf.PermAll})
		must(err)
		pages := w.Alloc()
		must(w.Put(pages, pdf.Dict{"Type": pdf.Name("Pages"), "Kids": pdf.Array{}, "Count": pdf.Integer(0)}))
		w.GetMeta().Catalog.Pages = pages
		for i := 0; i < 24; i++ {
			txt := fmt.Sprintf("the content of string object number %d", i)
			must(w.Put(pdf.NewReference(uint32(50+i), 0), pdf.Dict{"S": pdf.String(txt)}))
			encWant = append(encWant, txt)
		}
		must(w.Close())
		encBytes = buf.Bytes()
	})
	return encBytes, encWant
}

var deepOnce sync.Once
var deepBytes []byte
var deepWant string

// buildDeepFile writes (by hand: the Writer refuses it) a file whose object 7 is nested 300
// arrays deep, and returns it with the error a fresh Reader returns for it.
func buildDeepFile() ([]byte, string) {
	deepOnce.Do(func() {
		var b bytes.Buffer
		b.WriteString("%PDF-1.7\n")
		offs := map[int]int{}
		obj := func(n int, body string) {
			offs[n] = b.Len()
			fmt.Fprintf(&b, "%d 0 obj\n%s\nendobj\n", n, body)
		}
		obj(1, "<< /Type /Catalog /Pages 2 0 R >>")
		obj(2, "<< /Type /Pages /Kids [] /Count 0 >>")
		obj(7, strings.Repeat("[", 300)+"1"+strings.Repeat("]", 300))
		xr := b.Len()
		fmt.Fprintf(&b, "xref\n0 3\n0000000000 65535 f \n%010d 00000 n \n%010d 00000 n \n7 1\n%010d 00000 n \n", offs[1], offs[2], offs[7])
		fmt.Fprintf(&b, "trailer\n<< /Size 8 /Root 1 0 R >>\nstartxref\n%d\n%%%%EOF\n", xr)
		deepBytes = b.Bytes()
		r, err := pdf.NewReader(bytes.NewReader(deepBytes), int64(len(deepBytes)), nil)
		must(err)
		_, err = r.Get(pdf.NewReference(7, 0), true)
		if err == nil {
			panic("the deeply nested object is read without an error")
		}
		deepWant = err.Error()
	})
	return deepBytes, deepWant
}

func must(err error) {
	if err != nil {
		panic(err)
	}
}

// ---------------------------------------------------------------------------
// per-execution state

type node struct {
	id    int64
	label string
	child *node
}

type other struct{ id int64 }

type call struct {
	thread int
	what   string
	val    any
	err    error
	panic  any
}

type fixture struct {
	r  *pdf.Reader
	x  *pdf.Extractor
	c  pdf.Cursor
	id atomic.Int64

	mu       sync.Mutex
	calls    []call
	active   map[string]int // running callback executions per label
	overlap  []string
	started  map[string]int // callback executions started per label
	success  map[string]int
	lateExec []string // executions started after a success
	free     bool     // free-running (race pass): no scheduler
}

func newFixture() *fixture {
	// package-level caches are part of the state a schedule starts from
	cmap.VerifResetPredefined()
	mapping.VerifResetCaches()
	data := buildFile()
	r, err := pdf.NewReader(bytes.NewReader(data), int64(len(data)), nil)
	if err != nil {
		panic(err)
	}
	fx := &fixture{r: r, active: map[string]int{}, started: map[string]int{}, success: map[string]int{}}
	fx.x = pdf.NewExtractor(r)
	fx.c = pdf.CursorAt(fx.x, nil)
	return fx
}

func (fx *fixture) record(c call) {
	fx.mu.Lock()
	fx.calls = append(fx.calls, c)
	fx.mu.Unlock()
}

func (fx *fixture) yield(label string) {
	if !fx.free {
		sched.Yield(label)
	}
}

// enter/leave bracket one execution of a decode callback.
func (fx *fixture) enter(label string) {
	fx.mu.Lock()
	if fx.success[label] > 0 {
		fx.lateExec = append(fx.lateExec, label)
	}
	fx.started[label]++
	fx.active[label]++
	if fx.active[label] > 1 {
		fx.overlap = append(fx.overlap, label)
	}
	fx.mu.Unlock()
}

func (fx *fixture) leave(label string, ok bool) {
	fx.mu.Lock()
	fx.active[label]--
	if ok {
		fx.success[label]++
	}
	fx.mu.Unlock()
}

// decodeNode is the plain decode callback: it yields in the middle so that a
// schedule can interleave inside a decode.
func (fx *fixture) decodeNode(label string) func(pdf.Cursor, pdf.Object, bool) (*node, error) {
	return func(c pdf.Cursor, obj pdf.Object, direct bool) (*node, error) {
		fx.enter(label)
		fx.yield("in-decode")
		d, err := c.Dict(obj)
		if err != nil {
			fx.leave(label, false)
			return nil, err
		}
		_ = d
		n := &node{id: fx.id.Add(1), label: label}
		fx.leave(label, true)
		return n, nil
	}
}

// decodeLinked decodes a node and, nested, the node its /Other entry points to.
func (fx *fixture) decodeLinked(exclusiveSink bool) func(pdf.Cursor, pdf.Object, bool) (*node, error) {
	var fn func(pdf.Cursor, pdf.Object, bool) (*node, error)
	fn = func(c pdf.Cursor, obj pdf.Object, direct bool) (*node, error) {
		d, err := c.Dict(obj)
		if err != nil {
			return nil, err
		}
		n := &node{id: fx.id.Add(1), label: "linked"}
		fx.yield("in-linked-decode")
		if o, ok := d["Other"]; ok {
			child, err := pdf.Decode(c, o, fn)
			if err == nil {
				n.child = child
			}
		}
		if exclusiveSink {
			sink, err := pdf.DecodeExclusive(c, refX, fx.decodeNode("sink"))
			if err != nil || sink == nil {
				return nil, fmt.Errorf("sink: %v", err)
			}
		}
		return n, nil
	}
	return fn
}

type failure struct{ fp, what string }

// scenario ------------------------------------------------------------------

type scenario struct {
	name    string
	threads int
	serial  bool // touches process-global state: never run two executions at once
	// run returns the thread bodies for a fresh fixture
	bodies func(fx *fixture) []func()
	// after runs sequential follow-up calls and judges the execution
	after func(fx *fixture) *failure
	// unbounded says for which tiers the schedule tree is explored without a preemption bound
	unboundedQuick bool
	boundQuick     int
	boundThorough  int // -1: unbounded
}

func guard(fx *fixture, tid int, what string, f func() (any, error)) {
	c := call{thread: tid, what: what}
	func() {
		defer func() {
			if p := recover(); p != nil {
				c.panic = p
			}
		}()
		c.val, c.err = f()
	}()
	fx.record(c)
}

// sameValue checks that all successful calls with the same "what" hold the
// identical Go value.
func sameValue(fx *fixture) *failure {
	by := map[string][]call{}
	for _, c := range fx.calls {
		if c.panic != nil {
			return &failure{"panic:" + c.what, fmt.Sprintf("call %s in thread %d panicked: %v", c.what, c.thread, c.panic)}
		}
		by[c.what] = append(by[c.what], c)
	}
	keys := make([]string, 0, len(by))
	for k := range by {
		keys = append(keys, k)
	}
	sort.Strings(keys)
	for _, k := range keys {
		var first any
		have := false
		for _, c := range by[k] {
			if c.err != nil {
				continue
			}
			if !have {
				first, have = c.val, true
				continue
			}
			if c.val != first {
				return &failure{"identity:" + k, fmt.Sprintf("two callers of %s hold different Go values (%v and %v)", k, describe(first), describe(c.val))}
			}
		}
	}
	return nil
}

func describe(v any) string {
	switch x := v.(type) {
	case *node:
		if x == nil {
			return "(*node)(nil)"
		}
		return fmt.Sprintf("node#%d", x.id)
	case *other:
		if x == nil {
			return "(*other)(nil)"
		}
		return fmt.Sprintf("other#%d", x.id)
	}
	return fmt.Sprintf("%v", v)
}

func noErrors(fx *fixture) *failure {
	for _, c := range fx.calls {
		if c.err != nil {
			return &failure{"unexpected-error:" + c.what, fmt.Sprintf("call %s in thread %d returned %v; alone it succeeds", c.what, c.thread, c.err)}
		}
		if c.val == nil {
			return &failure{"nil-result:" + c.what, fmt.Sprintf("call %s in thread %d returned nil", c.what, c.thread)}
		}
	}
	return nil
}

func first(fs ...*failure) *failure {
	for _, f := range fs {
		if f != nil {
			return f
		}
	}
	return nil
}

func decodeCall(fx *fixture, tid int, ref pdf.Reference, name string) func() {
	return func() {
		guard(fx, tid, "Decode[node]("+name+")", func() (any, error) {
			v, err := pdf.Decode(fx.c, ref, fx.decodeNode(name))
			return v, err
		})
	}
}

func exclusiveCall(fx *fixture, tid int, ref pdf.Reference, name string, fn func(pdf.Cursor, pdf.Object, bool) (*node, error)) func() {
	return func() {
		guard(fx, tid, "Decode[node]("+name+")", func() (any, error) {
			v, err := pdf.DecodeExclusive(fx.c, ref, fn)
			return v, err
		})
	}
}

type stringer interface{ String() string }

func scenarios() []*scenario {
	var out []*scenario
	add := func(s *scenario) { out = append(out, s) }

	for _, n := range []int{2, 3} {
		n := n
		add(&scenario{name: fmt.Sprintf("S1-same-ref-%dthreads", n), threads: n, boundQuick: pick(n == 2, -1, 2), boundThorough: -1,
			bodies: func(fx *fixture) []func() {
				var b []func()
				for i := 0; i < n; i++ {
					b = append(b, decodeCall(fx, i, refX, "X"))
				}
				return b
			},
			after: func(fx *fixture) *failure {
				decodeCall(fx, 9, refX, "X")()
				return first(noErrors(fx), sameValue(fx))
			}})
	}

	// S2: a chain A -> B -> dict decoded from both ends
	for _, n := range []int{2, 3} {
		n := n
		add(&scenario{name: fmt.Sprintf("S2-chain-%dthreads", n), threads: n, boundQuick: pick(n == 2, -1, 2), boundThorough: -1,
			bodies: func(fx *fixture) []func() {
				b := []func(){decodeCall(fx, 0, refA, "A"), decodeCall(fx, 1, refB, "B")}
				if n == 3 {
					b = append(b, decodeCall(fx, 2, refA, "A"))
				}
				return b
			},
			after: func(fx *fixture) *failure {
				decodeCall(fx, 9, refA, "A")()
				decodeCall(fx, 9, refB, "B")()
				return first(noErrors(fx), sameValue(fx))
			}})
	}
	// S2b: a longer chain A0 -> A -> B decoded at all three entry points
	add(&scenario{name: "S2b-chain3-3threads", threads: 3, boundQuick: 2, boundThorough: -1,
		bodies: func(fx *fixture) []func() {
			return []func(){decodeCall(fx, 0, refA0, "A0"), decodeCall(fx, 1, refA, "A"), decodeCall(fx, 2, refB, "B")}
		},
		after: func(fx *fixture) *failure {
			decodeCall(fx, 9, refA0, "A0")()
			decodeCall(fx, 9, refA, "A")()
			decodeCall(fx, 9, refB, "B")()
			return first(noErrors(fx), sameValue(fx))
		}})
	// S2c: the chain, nested instead of concurrent (one thread; the callback of A's decode decodes B)
	add(&scenario{name: "S2c-chain-nested", threads: 1, boundQuick: -1, boundThorough: -1,
		bodies: func(fx *fixture) []func() {
			return []func(){func() {
				guard(fx, 0, "Decode[node](A)", func() (any, error) {
					return pdf.Decode(fx.c, refA, func(c pdf.Cursor, obj pdf.Object, d bool) (*node, error) {
						guard(fx, 0, "Decode[node](B)", func() (any, error) { return pdf.Decode(fx.c, refB, fx.decodeNode("B")) })
						return fx.decodeNode("A")(c, obj, d)
					})
				})
			}}
		},
		after: func(fx *fixture) *failure {
			decodeCall(fx, 9, refB, "B")()
			decodeCall(fx, 9, refA, "A")()
			return first(noErrors(fx), sameValue(fx))
		}})

	// S3: two types for one reference
	add(&scenario{name: "S3-two-types", threads: 3, boundQuick: 2, boundThorough: -1,
		bodies: func(fx *fixture) []func() {
			dOther := func() {
				guard(fx, 1, "Decode[other](X)", func() (any, error) {
					return pdf.Decode(fx.c, refX, func(c pdf.Cursor, obj pdf.Object, d bool) (*other, error) {
						fx.yield("in-decode-other")
						return &other{id: fx.id.Add(1)}, nil
					})
				})
			}
			return []func(){decodeCall(fx, 0, refX, "X"), dOther, decodeCall(fx, 2, refX, "X")}
		},
		after: func(fx *fixture) *failure { return first(noErrors(fx), sameValue(fx)) }})

	// S4: exclusive decodes
	for _, variant := range []string{"ok", "fail-then-ok", "always-fail", "nil-interface"} {
		for _, n := range []int{2, 3} {
			variant, n := variant, n
			if variant != "ok" && n == 3 && variant != "fail-then-ok" {
				continue
			}
			add(&scenario{name: fmt.Sprintf("S4-exclusive-%s-%dthreads", variant, n), threads: n, boundQuick: pick(n == 2, -1, 2), boundThorough: -1,
				bodies: func(fx *fixture) []func() {
					var b []func()
					for i := 0; i < n; i++ {
						i := i
						switch variant {
						case "nil-interface":
							b = append(b, func() {
								guard(fx, i, "DecodeExclusive[iface](X)", func() (any, error) {
									v, err := pdf.DecodeExclusive(fx.c, refX, func(c pdf.Cursor, obj pdf.Object, d bool) (stringer, error) {
										fx.enter("X")
										fx.yield("in-decode")
										fx.leave("X", true)
										return nil, nil
									})
									if v != nil {
										return v, errors.New("non-nil interface from a decoder that returned nil")
									}
									return "nil-interface", err
								})
							})
						default:
							b = append(b, exclusiveCall(fx, i, refX, "X", func(c pdf.Cursor, obj pdf.Object, d bool) (*node, error) {
								fx.enter("X")
								fx.yield("in-decode")
								nth := fx.id.Add(1)
								fail := variant == "always-fail" || variant == "fail-then-ok" && nth == 1
								if fail {
									fx.leave("X", false)
									return nil, errors.New("decode failed")
								}
								fx.leave("X", true)
								return &node{id: nth}, nil
							}))
						}
					}
					return b
				},
				after: func(fx *fixture) *failure {
					if len(fx.overlap) > 0 {
						return &failure{"exclusive-overlap", "two executions of the exclusive decode function for one reference overlapped in time"}
					}
					if len(fx.lateExec) > 0 {
						return &failure{"exclusive-rerun-after-success", "the exclusive decode function ran again after an execution had succeeded"}
					}
					if f := sameValue(fx); f != nil {
						return f
					}
					switch variant {
					case "ok", "nil-interface":
						if fx.started["X"] != 1 {
							return &failure{"exclusive-ran-" + fmt.Sprint(fx.started["X"]) + "-times", fmt.Sprintf("the exclusive decode function ran %d times for concurrent callers of one reference", fx.started["X"])}
						}
						for _, c := range fx.calls {
							if c.err != nil {
								return &failure{"unexpected-error:" + c.what, fmt.Sprintf("%s returned %v", c.what, c.err)}
							}
						}
						if variant == "nil-interface" {
							// a later sequential call returns what it returns alone: (nil, nil)
							guard(fx, 9, "DecodeExclusive[iface](X)", func() (any, error) {
								v, err := pdf.DecodeExclusive(fx.c, refX, func(c pdf.Cursor, obj pdf.Object, d bool) (stringer, error) { return nil, nil })
								if v != nil {
									return v, errors.New("non-nil")
								}
								return "nil-interface", err
							})
							return sameValue(fx)
						}
					case "always-fail":
						for _, c := range fx.calls {
							if c.err == nil {
								return &failure{"error-lost", fmt.Sprintf("%s returned no error although every execution of the decode function failed", c.what)}
							}
						}
					case "fail-then-ok":
						// every caller either shares the failure of the execution it waited for or holds the shared value
						okCalls := 0
						for _, c := range fx.calls {
							if c.err == nil {
								okCalls++
								if c.val == nil || c.val.(*node) == nil {
									return &failure{"nil-result", "a caller got (nil, nil)"}
								}
							}
						}
						_ = okCalls
					}
					return nil
				}})
		}
	}

	// S4t: exclusive decodes of ONE reference under TWO result types
	add(&scenario{name: "S4t-exclusive-two-types", threads: 3, boundQuick: 2, boundThorough: -1,
		bodies: func(fx *fixture) []func() {
			asNode := func(tid int) func() { return exclusiveCall(fx, tid, refX, "X", fx.decodeNode("X")) }
			asOther := func() {
				guard(fx, 1, "DecodeExclusive[other](X)", func() (any, error) {
					v, err := pdf.DecodeExclusive(fx.c, refX, func(c pdf.Cursor, obj pdf.Object, d bool) (*other, error) {
						fx.enter("X-other")
						fx.yield("in-decode-other")
						fx.leave("X-other", true)
						return &other{id: fx.id.Add(1)}, nil
					})
					if err == nil && v == nil {
						return nil, errors.New("DecodeExclusive returned (nil, nil) although its decode function returns a value")
					}
					return v, err
				})
			}
			return []func(){asNode(0), asOther, asNode(2)}
		},
		after: func(fx *fixture) *failure {
			if f := first(noErrors(fx), sameValue(fx)); f != nil {
				return f
			}
			if fx.started["X"] != 1 || fx.started["X-other"] != 1 {
				return &failure{"exclusive-per-type-count", fmt.Sprintf("decode functions ran %d (node) and %d (other) times, want once each", fx.started["X"], fx.started["X-other"])}
			}
			return nil
		}})

	// S10: concurrent Get on an encrypted file (per-object key derivation)
	add(&scenario{name: "S10-encrypted-gets", threads: 3, boundQuick: 1, boundThorough: 2,
		bodies: func(fx *fixture) []func() {
			data, want := buildEncryptedFile()
			er, err := pdf.NewReader(bytes.NewReader(data), int64(len(data)), &pdf.ReaderOptions{Password: "secret"})
			must(err)
			get := func(tid, from int) func() {
				return func() {
					for round := 0; round < 2; round++ {
						for i := from; i < len(want); i += 3 {
							i := i
							guard(fx, tid, fmt.Sprintf("Get(enc %d)", i), func() (any, error) {
								o, err := er.Get(pdf.NewReference(uint32(50+i), 0), true)
								if err != nil {
									return nil, err
								}
								d, _ := o.(pdf.Dict)
								sv, _ := d["S"].(pdf.String)
								if string(sv) != want[i] {
									return nil, fmt.Errorf("object %d decrypts to %q", 50+i, sv)
								}
								return "ok", nil
							})
							fx.yield("between-gets")
						}
					}
				}
			}
			return []func(){get(0, 0), get(1, 1), get(2, 2)}
		},
		after: func(fx *fixture) *failure {
			for _, c := range fx.calls {
				if c.panic != nil {
					return &failure{"panic:encrypted-get", fmt.Sprint(c.panic)}
				}
				if c.err != nil {
					return &failure{"encrypted-get-differs", fmt.Sprintf("thread %d: %s: %v; alone every object decrypts to what was written", c.thread, c.what, c.err)}
				}
			}
			return nil
		}})

	// S11: failing Gets (an object nested beyond the scanner's depth limit), twice per thread and
	// on two independent Readers: every call returns the error it returns alone
	add(&scenario{name: "S11-failing-gets", threads: 2, boundQuick: 2, boundThorough: -1,
		bodies: func(fx *fixture) []func() {
			data, want := buildDeepFile()
			get := func(tid int) func() {
				return func() {
					er, err := pdf.NewReader(bytes.NewReader(data), int64(len(data)), nil)
					must(err)
					for round := 0; round < 2; round++ {
						guard(fx, tid, fmt.Sprintf("Get(deep) round %d", round), func() (any, error) {
							_, err := er.Get(pdf.NewReference(7, 0), true)
							if err == nil {
								return nil, fmt.Errorf("Get of the deeply nested object succeeds")
							}
							if err.Error() != want {
								return nil, fmt.Errorf("the error has %d bytes; alone the same call returns an error of %d bytes (%.80q... vs %.80q...)", len(err.Error()), len(want), err.Error(), want)
							}
							return "ok", nil
						})
						fx.yield("between-gets")
					}
				}
			}
			return []func(){get(0), get(1)}
		},
		after: func(fx *fixture) *failure {
			for _, c := range fx.calls {
				if c.panic != nil {
					return &failure{"panic:failing-get", fmt.Sprint(c.panic)}
				}
				if c.err != nil {
					return &failure{"failing-get-differs", fmt.Sprintf("thread %d: %s: %v", c.thread, c.what, c.err)}
				}
			}
			return nil
		}})

	// S5: exclusive and plain decodes of one reference
	add(&scenario{name: "S5-exclusive+plain", threads: 3, boundQuick: 2, boundThorough: -1,
		bodies: func(fx *fixture) []func() {
			return []func(){
				exclusiveCall(fx, 0, refX, "X", fx.decodeNode("X")),
				decodeCall(fx, 1, refX, "X"),
				exclusiveCall(fx, 2, refX, "X", fx.decodeNode("X")),
			}
		},
		after: func(fx *fixture) *failure {
			decodeCall(fx, 9, refX, "X")()
			return first(noErrors(fx), sameValue(fx))
		}})

	// S6: mutually referential objects
	for _, excl := range []bool{false, true} {
		excl := excl
		add(&scenario{name: fmt.Sprintf("S6-mutual-exclusiveSink=%v", excl), threads: 2, boundQuick: pick(excl, 2, -1), boundThorough: -1,
			bodies: func(fx *fixture) []func() {
				fn := fx.decodeLinked(excl)
				return []func(){
					func() { guard(fx, 0, "Decode[node](M1)", func() (any, error) { return pdf.Decode(fx.c, refM1, fn) }) },
					func() { guard(fx, 1, "Decode[node](M2)", func() (any, error) { return pdf.Decode(fx.c, refM2, fn) }) },
				}
			},
			after: func(fx *fixture) *failure {
				fn := fx.decodeLinked(excl)
				guard(fx, 9, "Decode[node](M1)", func() (any, error) { return pdf.Decode(fx.c, refM1, fn) })
				guard(fx, 9, "Decode[node](M2)", func() (any, error) { return pdf.Decode(fx.c, refM2, fn) })
				return first(noErrors(fx), sameValue(fx))
			}})
	}

	// S7: pairs
	for _, withDecode := range []bool{false, true} {
		withDecode := withDecode
		n := 2
		if withDecode {
			n = 3
		}
		add(&scenario{name: fmt.Sprintf("S7-pair-withDecode=%v", withDecode), threads: n, boundQuick: -1, boundThorough: -1,
			bodies: func(fx *fixture) []func() {
				pairCall := func(tid int) func() {
					return func() {
						a0, b0 := &node{id: fx.id.Add(1)}, &other{id: fx.id.Add(1)}
						a, b := pdf.StoreOrLoadPair(fx.x, refX, a0, b0)
						fx.record(call{thread: tid, what: "Decode[node](X)", val: a})
						fx.record(call{thread: tid, what: "Decode[other](X)", val: b})
						fx.record(call{thread: tid, what: fmt.Sprintf("pair%d", tid), val: [4]any{a0, b0, a, b}})
					}
				}
				b := []func(){pairCall(0), pairCall(1)}
				if withDecode {
					b = append(b, decodeCall(fx, 2, refX, "X"))
				}
				return b
			},
			after: func(fx *fixture) *failure {
				var pairs [][4]any
				var rest []call
				for _, c := range fx.calls {
					if strings.HasPrefix(c.what, "pair") {
						pairs = append(pairs, c.val.([4]any))
					} else {
						rest = append(rest, c)
					}
				}
				fx.calls = rest
				decodeCall(fx, 9, refX, "X")()
				if f := first(noErrors(fx), sameValue(fx)); f != nil {
					return f
				}
				if !withDecode {
					// two pair callers alone: both hold the complete pair of one of them
					a, b := pairs[0][2], pairs[0][3]
					okPair := false
					for _, p := range pairs {
						if a == p[0] && b == p[1] {
							okPair = true
						}
					}
					if !okPair {
						return &failure{"pair-halves-mixed", "the published pair consists of halves of two different StoreOrLoadPair calls"}
					}
				}
				return nil
			}})
	}

	// S8: pooled zlib readers, LIFO pool
	for _, n := range []int{2, 3} {
		n := n
		add(&scenario{name: fmt.Sprintf("S8-flate-readers-%dthreads", n), threads: n, serial: true, boundQuick: pick(n == 2, 2, 1), boundThorough: pick(n == 2, -1, 2),
			bodies: func(fx *fixture) []func() {
				rd := func(tid int, ref pdf.Reference, want []byte) func() {
					return func() {
						guard(fx, tid, fmt.Sprintf("stream%d", tid), func() (any, error) {
							obj, err := fx.r.Get(ref, true)
							if err != nil {
								return nil, err
							}
							rc, err := pdf.DecodeStream(fx.r, nil, obj.(*pdf.Stream))
							if err != nil {
								return nil, err
							}
							var got []byte
							buf := make([]byte, 1500)
							for {
								k, err := rc.Read(buf)
								got = append(got, buf[:k]...)
								if err == io.EOF {
									break
								}
								if err != nil {
									return nil, err
								}
								fx.yield("between-reads")
							}
							if err := rc.Close(); err != nil {
								return nil, err
							}
							if !bytes.Equal(got, want) {
								return nil, fmt.Errorf("decoded %d bytes differ from the %d written", len(got), len(want))
							}
							return "ok", nil
						})
					}
				}
				b := []func(){rd(0, refS1, body1), rd(1, refS2, body2)}
				if n == 3 {
					b = append(b, rd(2, refS1, body1))
				}
				return b
			},
			after: func(fx *fixture) *failure {
				for _, c := range fx.calls {
					if c.panic != nil {
						return &failure{"panic:stream", fmt.Sprint(c.panic)}
					}
					if c.err != nil {
						return &failure{"stream-data-wrong", fmt.Sprintf("thread %d: %v", c.thread, c.err)}
					}
				}
				return nil
			}})
	}
	// S8c: the same through a two-layer chain, every thread reading its stream twice (what the
	// first Close leaves in the pool is what the second round gets)
	add(&scenario{name: "S8c-chain-flate-readers-twice", threads: 2, serial: true, boundQuick: 2, boundThorough: -1,
		bodies: func(fx *fixture) []func() {
			rd := func(tid int, ref pdf.Reference, want []byte) func() {
				return func() {
					for round := 0; round < 2; round++ {
						guard(fx, tid, fmt.Sprintf("stream%d-round%d", tid, round), func() (any, error) {
							obj, err := fx.r.Get(ref, true)
							if err != nil {
								return nil, err
							}
							rc, err := pdf.DecodeStream(fx.r, nil, obj.(*pdf.Stream))
							if err != nil {
								return nil, err
							}
							var got []byte
							buf := make([]byte, 1500)
							for {
								k, err := rc.Read(buf)
								got = append(got, buf[:k]...)
								if err == io.EOF {
									break
								}
								if err != nil {
									return nil, err
								}
								fx.yield("between-reads")
							}
							if err := rc.Close(); err != nil {
								return nil, err
							}
							if !bytes.Equal(got, want) {
								return nil, fmt.Errorf("decoded %d bytes differ from the %d written", len(got), len(want))
							}
							return "ok", nil
						})
					}
				}
			}
			return []func(){rd(0, refS3, body1), rd(1, refS4, body2)}
		},
		after: func(fx *fixture) *failure {
			for _, c := range fx.calls {
				if c.panic != nil {
					return &failure{"panic:stream", fmt.Sprint(c.panic)}
				}
				if c.err != nil {
					return &failure{"stream-data-wrong", fmt.Sprintf("thread %d: %s: %v", c.thread, c.what, c.err)}
				}
			}
			return nil
		}})
	// S8w: two writers using the pooled zlib writer
	add(&scenario{name: "S8w-flate-writers", threads: 2, serial: true, boundQuick: 2, boundThorough: -1,
		bodies: func(fx *fixture) []func() {
			wr := func(tid int, data []byte) func() {
				return func() {
					guard(fx, tid, fmt.Sprintf("writer%d", tid), func() (any, error) {
						var buf bytes.Buffer
						w, err := pdf.NewWriter(&buf, pdf.V1_7, nil)
						if err != nil {
							return nil, err
						}
						pages := w.Alloc()
						if err := w.Put(pages, pdf.Dict{"Type": pdf.Name("Pages"), "Kids": pdf.Array{}, "Count": pdf.Integer(0)}); err != nil {
							return nil, err
						}
						w.GetMeta().Catalog.Pages = pages
						ref := w.Alloc()
						s, err := w.OpenStream(ref, nil, pdf.FilterFlate{})
						if err != nil {
							return nil, err
						}
						for i := 0; i < len(data); i += 1000 {
							if _, err := s.Write(data[i:min(i+1000, len(data))]); err != nil {
								return nil, err
							}
							fx.yield("between-writes")
						}
						if err := s.Close(); err != nil {
							return nil, err
						}
						if err := w.Close(); err != nil {
							return nil, err
						}
						r, err := pdf.NewReader(bytes.NewReader(buf.Bytes()), int64(buf.Len()), &pdf.ReaderOptions{ErrorHandling: pdf.ErrorHandlingReport})
						if err != nil {
							return nil, err
						}
						obj, err := r.Get(ref, true)
						if err != nil {
							return nil, err
						}
						got, err := pdf.ReadAll(r, nil, obj.(*pdf.Stream), 1<<20)
						if err != nil {
							return nil, err
						}
						if !bytes.Equal(got, data) {
							return nil, errors.New("written stream reads back differently")
						}
						return "ok", nil
					})
				}
			}
			return []func(){wr(0, body1), wr(1, body2)}
		},
		after: func(fx *fixture) *failure {
			for _, c := range fx.calls {
				if c.panic != nil {
					return &failure{"panic:writer", fmt.Sprint(c.panic)}
				}
				if c.err != nil {
					return &failure{"writer-interference", fmt.Sprintf("thread %d: %v", c.thread, c.err)}
				}
			}
			return nil
		}})

	// S9: package-level caches
	add(&scenario{name: "S9-predefined-cmaps", threads: 3, serial: true, boundQuick: 2, boundThorough: -1,
		bodies: func(fx *fixture) []func() {
			get := func(tid int, name string) func() {
				return func() {
					guard(fx, tid, "Predefined("+name+")", func() (any, error) {
						f, err := cmap.Predefined(name)
						if err != nil {
							return nil, err
						}
						if !f.IsPredefined() {
							return nil, errors.New("IsPredefined is false for the value Predefined returned")
						}
						return f, nil
					})
				}
			}
			return []func(){get(0, "90ms-RKSJ-V"), get(1, "90ms-RKSJ-V"), get(2, "90ms-RKSJ-H")}
		},
		after: func(fx *fixture) *failure {
			guard(fx, 9, "Predefined(90ms-RKSJ-V)", func() (any, error) { return cmap.Predefined("90ms-RKSJ-V") })
			return first(noErrors(fx), sameValue(fx))
		}})
	add(&scenario{name: "S9-cid-text-mapping", threads: 2, serial: true, boundQuick: -1, boundThorough: -1,
		bodies: func(fx *fixture) []func() {
			get := func(tid int) func() {
				return func() {
					guard(fx, tid, fmt.Sprintf("mapping%d", tid), func() (any, error) {
						m, err := mapping.GetCIDTextMapping("Adobe", "Japan1")
						if err != nil {
							return nil, err
						}
						rm, err := mapping.GetTextToCIDMapping("Adobe", "Japan1")
						if err != nil {
							return nil, err
						}
						return fmt.Sprintf("%d/%d/%q", len(m), len(rm), m[1]), nil
					})
				}
			}
			return []func(){get(0), get(1)}
		},
		after: func(fx *fixture) *failure {
			if f := noErrors(fx); f != nil {
				return f
			}
			if fx.calls[0].val != fx.calls[1].val {
				return &failure{"mapping-differs", fmt.Sprintf("two concurrent lookups give %v and %v", fx.calls[0].val, fx.calls[1].val)}
			}
			return nil
		}})
	return out
}

func pick[T any](c bool, a, b T) T {
	if c {
		return a
	}
	return b
}

// ---------------------------------------------------------------------------
// one execution

type execResult struct {
	steps, preemptions int
	fail               *failure
	trace              string
	sig                string
}

func runOne(sc *scenario, ctx *explore.Ctx) execResult {
	fx := newFixture()
	s := sched.New(ctx)
	s.Run(sc.bodies(fx)...)
	res := execResult{steps: s.Steps, preemptions: s.Preemptions, trace: s.TraceString()}
	if s.Deadlock {
		res.fail = &failure{"deadlock", "no thread can move: " + strings.Join(s.Blocked, "; ")}
		return res
	}
	if s.Livelock {
		res.fail = &failure{"livelock", fmt.Sprintf("step horizon %d reached", s.Horizon)}
		return res
	}
	if p := s.Panics(); len(p) > 0 {
		res.fail = &failure{"panic-in-thread", p[0]}
		return res
	}
	res.fail = sc.after(fx)
	// outcome signature: which values the callers ended up with
	var parts []string
	for _, c := range fx.calls {
		switch {
		case c.err != nil:
			parts = append(parts, fmt.Sprintf("%d:%s=err", c.thread, c.what))
		default:
			parts = append(parts, fmt.Sprintf("%d:%s=%s", c.thread, c.what, describe(c.val)))
		}
	}
	res.sig = strings.Join(parts, ",")
	return res
}

// Case is a replayable schedule.
type Case struct {
	Scenario string `json:"scenario"`
	Choices  []int  `json:"choices"`
	Schedule string `json:"schedule_thread_ids"`
}

type scStats struct {
	Name      string `json:"scenario"`
	Threads   int    `json:"threads"`
	Bound     int    `json:"preemption_bound"` // -1 unbounded
	Schedules int64  `json:"schedules"`
	MaxSteps  int    `json:"max_scheduling_points"`
	Outcomes  int    `json:"distinct_outcomes"`
	Complete  bool   `json:"complete"`
}

func exploreScenario(r *ev.Run, sc *scenario, bound int, parallel bool) scStats {
	st := scStats{Name: sc.name, Threads: sc.threads, Bound: bound, Complete: true}
	var mu sync.Mutex
	outcomes := map[string]bool{}
	var schedules atomic.Int64
	judge := func(c *explore.Ctx, res execResult) {
		schedules.Add(1)
		r.Eval(1)
		r.Trans(int64(res.steps))
		r.Trace(1)
		mu.Lock()
		if !outcomes[res.sig] {
			outcomes[res.sig] = true
			r.State(1)
		}
		if res.steps > st.MaxSteps {
			st.MaxSteps = res.steps
		}
		mu.Unlock()
		r.DistinctS(sc.name + "|" + res.trace)
		if res.fail != nil {
			r.Outcome("fail:" + sc.name + ":" + res.fail.fp)
			r.Violation(sc.name[:strings.Index(sc.name, "-")]+":"+res.fail.fp, fmt.Sprintf("%s, schedule %s (%d preemptions): %s", sc.name, res.trace, res.preemptions, res.fail.what),
				Case{Scenario: sc.name, Choices: append([]int{}, c.Choices...), Schedule: res.trace})
		} else {
			r.Outcome("ok:" + sc.name)
		}
	}
	body := func(c *explore.Ctx) execResult { return runOne(sc, c) }
	if !parallel {
		var last execResult
		e := &explore.Explorer{Bound: bound, Stop: r.Expired}
		e.After = func(c *explore.Ctx) { judge(c, last) }
		s := e.Explore(nil, func(c *explore.Ctx) { last = body(c) })
		st.Complete = s.Complete
	} else {
		e := &explore.Explorer{Bound: bound}
		prefixes := e.Prefixes(6, func(c *explore.Ctx) { body(c) })
		var incomplete atomic.Bool
		r.Par(len(prefixes), func(i int) {
			var last execResult
			e := &explore.Explorer{Bound: bound, Stop: r.Expired}
			e.After = func(c *explore.Ctx) { judge(c, last) }
			s := e.Explore(prefixes[i], func(c *explore.Ctx) { last = body(c) })
			if !s.Complete {
				incomplete.Store(true)
			}
		})
		st.Complete = !incomplete.Load()
	}
	st.Schedules = schedules.Load()
	st.Outcomes = len(outcomes)
	return st
}

// instrumented verifies that the library's synchronisation really goes
// through the scheduler.
func instrumented() bool {
	sc := scenarios()[0]
	var res execResult
	explore.Run(nil, false, func(c *explore.Ctx) { res = runOne(sc, c) })
	// start points (2) + at least one Lock and one Yield per thread
	return res.steps >= 2*3
}

// Run is the check.
func Run(tier string) int {
	budget := 4 * time.Minute
	if tier == "thorough" {
		budget = 25 * time.Minute
	}
	r := ev.New("C18", tier, "model_checking", budget)
	r.Rule("a case is one schedule (sequence of thread ids chosen at the scheduling points: every Mutex/Pool/channel operation of resource.go, cursor.go, filter.go, font/cmap/predefined.go, font/mapping/mapping.go, plus a yield inside every decode callback) of one scenario; all schedules up to the stated preemption bound (-1 = all schedules) are executed on the real code; states = distinct observed outcomes (who holds which value), transitions = scheduling steps, every schedule runs on the implementation; distinct = distinct (scenario, schedule) pairs")
	r.Assume("all cross-thread communication in the instrumented files goes through sync.Mutex, sync.Pool or chan struct{} (anything else stops the build); plain memory accesses are covered only by the separate free-running -race pass", "sync.Pool modelled as a LIFO stack")
	if !instrumented() {
		r.Infra("the library is not compiled with the vsync shim (wrong binary?)")
		return r.Finish()
	}
	// determinism: the same choice vector gives the same observations
	{
		sc := scenarios()[2]
		var a, b execResult
		explore.Run([]int{0, 1}, false, func(c *explore.Ctx) { a = runOne(sc, c) })
		explore.Run([]int{0, 1}, false, func(c *explore.Ctx) { b = runOne(sc, c) })
		if a.trace != b.trace || a.sig != b.sig {
			r.Infra(fmt.Sprintf("replaying one schedule twice gave different observations: %q/%q vs %q/%q", a.trace, a.sig, b.trace, b.sig))
			return r.Finish()
		}
	}
	var stats []scStats
	for _, sc := range scenarios() {
		bound := sc.boundQuick
		if r.Thorough() {
			bound = sc.boundThorough
		}
		// iterate the bound: 0, 1, ... so that the first counterexample has the fewest preemptions
		if r.NumViolations() == 0 && bound != 0 {
			b0 := exploreScenario(r, sc, 0, false)
			stats = append(stats, b0)
			b1 := exploreScenario(r, sc, 1, !sc.serial)
			stats = append(stats, b1)
		}
		if bound > 1 || bound == -1 {
			stats = append(stats, exploreScenario(r, sc, bound, !sc.serial))
		}
		if r.Expired() {
			break
		}
	}
	r.Dim("scenarios", stats)
	r.Sample(Case{Scenario: "S2-chain-2threads", Choices: []int{0, 1}, Schedule: "0 1 ..."})

	// the free-running race pass (separate binary built with -race)
	if bin := os.Getenv("VERIF_RACE_BIN"); bin != "" && os.Getenv("VERIF_NO_RACE_PASS") == "" {
		iters := "300"
		if r.Thorough() {
			iters = "2000"
		}
		cmd := exec.Command(bin, "C18", "racepass", iters)
		cmd.Env = append(os.Environ(), "GORACE=halt_on_error=0")
		out, err := cmd.CombinedOutput()
		races := strings.Count(string(out), "WARNING: DATA RACE")
		r.Dim("race_pass", map[string]any{"iterations_per_scenario": iters, "data_race_reports": races, "exit_error": fmt.Sprint(err)})
		if races > 0 {
			i := strings.Index(string(out), "WARNING: DATA RACE")
			rep := string(out[i:])
			if len(rep) > 3000 {
				rep = rep[:3000]
			}
			r.Violation("data-race", "the race detector reports a data race in a free-running pass of the scenario bodies:\n"+rep, Case{Scenario: "racepass"})
		} else if err != nil {
			r.Infra("race pass failed: " + err.Error() + "\n" + tail(string(out), 2000))
		}
	} else {
		r.Dim("race_pass", "skipped")
	}
	return r.Finish()
}

func tail(s string, n int) string {
	if len(s) > n {
		return s[len(s)-n:]
	}
	return s
}

// RacePass runs the scenario bodies free-running (no scheduler) so that the
// race detector sees unsynchronised accesses.
func RacePass(args []string) int {
	iters := 300
	if len(args) > 0 {
		fmt.Sscan(args[0], &iters)
	}
	bad := 0
	for _, sc := range scenarios() {
		for i := 0; i < iters; i++ {
			fx := newFixture()
			fx.free = true
			var wg sync.WaitGroup
			for _, b := range sc.bodies(fx) {
				wg.Add(1)
				b := b
				go func() { defer wg.Done(); b() }()
			}
			wg.Wait()
			if f := sc.after(fx); f != nil {
				bad++
				if bad <= 5 {
					fmt.Printf("RACEPASS-FAILURE %s: %s: %s\n", sc.name, f.fp, f.what)
				}
			}
		}
	}
	fmt.Printf("racepass done: %d scenario oracle failures\n", bad)
	return 0
}

// Replay re-executes one recorded schedule.
func Replay(path string) int {
	var cs Case
	if err := ev.ReplayCase(path, &cs); err != nil {
		fmt.Println("replay:", err)
		return 2
	}
	r := ev.New("C18", "quick", "model_checking", time.Minute)
	r.SetReplayMode()
	for _, sc := range scenarios() {
		if sc.name != cs.Scenario {
			continue
		}
		var res execResult
		for i := 0; i < 2; i++ {
			explore.Run(cs.Choices, false, func(c *explore.Ctx) { res = runOne(sc, c) })
			fmt.Printf("schedule %s -> %s\n", res.trace, res.sig)
		}
		if res.fail != nil {
			r.Violation(sc.name[:strings.Index(sc.name, "-")]+":"+res.fail.fp, res.fail.what, cs)
		}
	}
	return r.Finish()
}
