//go:build verif

// Package c16 decides C16: the page tree writer keeps page order, counts,
// parents, fan-out and effective inherited attributes, and page-number
// callbacks report final positions.
//
// Explicit-state breadth-first search: a state is the history that reaches
// it, successors replay the history on fresh objects plus one operation, the
// oracle (close everything, reopen the file, compare with the reference
// model) runs on every generated history before de-duplication.
package c16

import (
	"encoding/json"
	"fmt"
	"os"
	"sort"
	"strings"
	"sync"
	"sync/atomic"
	"time"

	"seehuhn.de/go/pdf/pagetree"
	"seehuhn.de/go/pdf/zzverif/engine/ev"
)

type appendKind struct {
	API string
	A   int
}

type macroKind struct {
	N   int
	API string
	A   int
}

// profile is one bounded search: an operation alphabet and a history length.
type profile struct {
	Name    string
	Ver     string
	MaxLen  int
	MaxOpen int // simultaneously open ranges
	Singles []appendKind
	Macros  []macroKind
	NPN     bool
	// MaxMacros bounds the number of macro appends per history (0 = no bound)
	MaxMacros int
}

func at(mb, cb, rot, res int) int { return attr{mb, cb, rot, res}.index() }

func (p *profile) enabled(m *model, h []Op) []Op {
	var ops []Op
	macros := 0
	for _, op := range h {
		if op.K == "app" && op.N > 1 {
			macros++
		}
	}
	for _, w := range m.writers {
		if !w.open {
			continue
		}
		for _, s := range p.Singles {
			ops = append(ops, Op{K: "app", W: w.id, N: 1, API: s.API, A: s.A})
		}
		if p.MaxMacros == 0 || macros < p.MaxMacros {
			for _, s := range p.Macros {
				ops = append(ops, Op{K: "app", W: w.id, N: s.N, API: s.API, A: s.A})
			}
		}
		if m.nopen < p.MaxOpen {
			ops = append(ops, Op{K: "new", W: w.id})
		}
		if p.NPN {
			ops = append(ops, Op{K: "npn", W: w.id})
		}
		if w.id != 0 {
			ops = append(ops, Op{K: "close", W: w.id})
		}
	}
	return ops
}

func (p *profile) describe() string {
	var s, mm []string
	for _, x := range p.Singles {
		s = append(s, x.API+":"+attrOf(x.A).String())
	}
	for _, x := range p.Macros {
		mm = append(mm, fmt.Sprintf("%dx%s:%s", x.N, x.API, attrOf(x.A)))
	}
	d := fmt.Sprintf("pdf=%s len<=%d open_ranges<=%d npn=%v singles=[%s] macros=[%s]", p.Ver, p.MaxLen, p.MaxOpen, p.NPN, strings.Join(s, " | "), strings.Join(mm, " | "))
	if p.MaxMacros > 0 {
		d += fmt.Sprintf(" macros_per_history<=%d", p.MaxMacros)
	}
	return d
}

type runner struct {
	r         *ev.Run
	maxDepth  atomic.Int64
	maxPages  atomic.Int64
	mergeSeen sync.Map // tail-merge shapes observed (diagnostic)
}

func atomicMax(a *atomic.Int64, v int64) {
	for {
		old := a.Load()
		if v <= old || a.CompareAndSwap(old, v) {
			return
		}
	}
}

func bucket(n int) string {
	switch {
	case n == 0:
		return "0"
	case n <= 15:
		return "1-15"
	case n == 16:
		return "16"
	case n <= 255:
		return "17-255"
	case n == 256:
		return "256"
	case n <= 4095:
		return "257-4095"
	}
	return ">=4096"
}

// one executes and judges one history; it returns the outcome for the search.
func (rn *runner) one(c Case) outcome {
	r := rn.r
	var o outcome
	hist := fmt.Sprint(c.Ops)
	if c.MP != nil || strings.HasPrefix(c.Profile, "multipage") {
		o = executeMP(c)
		hist = fmt.Sprint(c.MP)
	} else {
		o = execute(c)
	}
	r.Eval(1)
	r.Trace(1)
	if o.infra != "" {
		r.Infra(o.infra + " " + hist)
		return o
	}
	if len(o.fails) > 0 {
		for _, f := range o.fails {
			r.Outcome("fail:" + f.fp)
			r.Violation(f.fp, f.what+"  history: "+hist, c)
		}
		return o
	}
	atomicMax(&rn.maxDepth, int64(o.treeDepth))
	atomicMax(&rn.maxPages, int64(o.pages))
	if o.rejected {
		r.Outcome(fmt.Sprintf("rejected:no-pages,cb(-1)=%d", min(o.cbMinus, 2)))
	} else {
		r.Outcome(fmt.Sprintf("ok:pages=%s,levels=%d,hoisted=%v,cb(pos)=%d,cb(-1)=%d", bucket(o.pages), o.treeDepth, o.hoisted > 0, min(o.cbPos, 2), min(o.cbMinus, 2)))
	}
	return o
}

type succ struct {
	op   Op
	key  stateKey
	keep bool
	triv bool
}

// search runs the breadth-first search of one profile.
func (rn *runner) search(p *profile) (report map[string]any) {
	r := rn.r
	t0 := time.Now()
	seen := map[stateKey]struct{}{}
	frontier := [][]Op{{}}
	// the initial state
	o := rn.one(Case{Profile: p.Name, Ver: p.Ver, MaxOpen: p.MaxOpen})
	seen[o.key] = struct{}{}
	r.State(1)
	states, trans := int64(1), int64(0)
	perLevel := []string{}
	completed := 0
	for depth := 0; depth < p.MaxLen && len(frontier) > 0; depth++ {
		results := make([][]succ, len(frontier))
		var levelTrans atomic.Int64
		r.Par(len(frontier), func(i int) {
			if r.Expired() || r.TooManyViolations() {
				return
			}
			h := frontier[i]
			m := newModel()
			for _, op := range h {
				m.apply(op, p.MaxOpen)
			}
			ops := p.enabled(m, h)
			out := make([]succ, 0, len(ops))
			for _, op := range ops {
				h2 := make([]Op, len(h)+1)
				copy(h2, h)
				h2[len(h)] = op
				c := Case{Profile: p.Name, Ver: p.Ver, MaxOpen: p.MaxOpen, Ops: h2}
				o := rn.one(c)
				r.Trans(1)
				levelTrans.Add(1)
				if r.WantSample() && len(h2) >= 3 && o.pages > 16 {
					r.Sample(c)
				}
				out = append(out, succ{op: op, key: o.key, keep: len(o.fails) == 0 && o.infra == "",
					triv: o.treeDepth < 2 && len(m.writers) == 1 && op.K != "new"})
			}
			results[i] = out
		})
		if r.Expired() || r.TooManyViolations() {
			perLevel = append(perLevel, fmt.Sprintf("len=%d: incomplete (%d transitions executed)", depth+1, levelTrans.Load()))
			trans += levelTrans.Load()
			break
		}
		// de-duplicate in a fixed order so that the representatives do not
		// depend on scheduling
		var next [][]Op
		for i, rs := range results {
			for _, s := range rs {
				trans++
				if !s.keep {
					continue
				}
				if _, dup := seen[s.key]; dup {
					continue
				}
				seen[s.key] = struct{}{}
				states++
				r.State(1)
				if !s.triv {
					r.Distinct(s.key[:])
				}
				h2 := make([]Op, len(frontier[i])+1)
				copy(h2, frontier[i])
				h2[len(frontier[i])] = s.op
				next = append(next, h2)
			}
		}
		completed = depth + 1
		perLevel = append(perLevel, fmt.Sprintf("len=%d: %d histories executed, %d new states", depth+1, levelTrans.Load(), len(next)))
		frontier = next
	}
	fmt.Printf("  [%s] states=%d transitions=%d completed_len=%d/%d wall=%.0fs\n", p.Name, states, trans, completed, p.MaxLen, time.Since(t0).Seconds())
	return map[string]any{
		"alphabet":             p.describe(),
		"states":               states,
		"transitions":          trans,
		"history_len_complete": completed,
		"history_len_bound":    p.MaxLen,
		"levels":               perLevel,
		"wall_s":               int(time.Since(t0).Seconds()),
	}
}

// veryDeep runs a fixed list of histories around 16^4 pages (five levels of
// /Pages nodes); they are executions, not part of the state count.
func (rn *runner) veryDeep() map[string]any {
	r := rn.r
	x, y, z := at(1, 0, 0, 0), at(1, 1, 2, 1), at(2, 0, 1, 2)
	var hs [][]Op
	sizes := ev.Pick(r, []int{65537}, []int{65535, 65536, 65537})
	for _, n := range sizes {
		// in the root, followed by two single pages
		hs = append(hs, []Op{{K: "app", W: 0, N: n, API: "D", A: x}, {K: "npn", W: 0}, {K: "app", W: 0, N: 1, API: "P", A: z}, {K: "app", W: 0, N: 1, API: "D", A: y}})
		// in a range opened after one page, the root continues afterwards
		hs = append(hs, []Op{{K: "app", W: 0, N: 1, API: "P", A: z}, {K: "new", W: 0}, {K: "npn", W: 0}, {K: "app", W: 0, N: 17, API: "P", A: y},
			{K: "npn", W: 1}, {K: "app", W: 1, N: n, API: "D", A: x}})
		if r.Thorough() {
			// split over two sibling ranges, closed in reverse order
			hs = append(hs, []Op{{K: "new", W: 0}, {K: "new", W: 0}, {K: "app", W: 2, N: n - 4096, API: "D", A: y}, {K: "close", W: 2},
				{K: "app", W: 1, N: 4096, API: "D", A: x}, {K: "npn", W: 0}, {K: "app", W: 0, N: 1, API: "D", A: z}})
		}
	}
	var next atomic.Int64
	r.Par(len(hs), func(i int) {
		if r.Expired() {
			return
		}
		rn.one(Case{Profile: "very-deep", Ver: "1.4", MaxOpen: 3, Ops: hs[i]})
		next.Add(1)
	})
	fmt.Printf("  [very-deep] %d fixed histories executed\n", next.Load())
	return map[string]any{"fixed_histories": len(hs), "executed": next.Load(), "pages": sizes}
}

// ---------------------------------------------------------------------------

func singles(apis string, attrs ...int) []appendKind {
	var out []appendKind
	for _, a := range attrs {
		for _, api := range apis {
			out = append(out, appendKind{string(api), a})
		}
	}
	return out
}

func macros(ns []int, apis string, attrs ...int) []macroKind {
	var out []macroKind
	for _, n := range ns {
		for _, a := range attrs {
			for _, api := range apis {
				out = append(out, macroKind{n, string(api), a})
			}
		}
	}
	return out
}

func allAttrs() []int {
	out := make([]int, nAttr)
	for i := range out {
		out[i] = i
	}
	return out
}

func profiles(r *ev.Run) []*profile {
	// attribute sets chosen so that hoisting is triggered in every pattern:
	//   x: A4, no CropBox, Rotate absent, no resources   (the common page)
	//   y: A4, CropBox, Rotate 90, r1                     (hoistable MediaBox shared with x, Rotate that wins or loses the vote)
	//   z: Letter, no CropBox, explicit Rotate 0, r2      (second MediaBox, explicit default rotation)
	//   u: no MediaBox, CropBox, Rotate 90, no resources  (blocks MediaBox hoisting)
	x, y, z, u := at(1, 0, 0, 0), at(1, 1, 2, 1), at(2, 0, 1, 2), at(0, 1, 2, 0)
	var ps []*profile
	add := func(p *profile) { ps = append(ps, p) }
	small := append(macros([]int{15, 16, 17}, "P", y), macros([]int{255, 256, 257}, "D", x)...)
	if !r.Thorough() {
		// (1) ranges and callbacks with single pages: the futureInt wiring
		add(&profile{Name: "ranges-callbacks", Ver: "1.7", MaxLen: 6, MaxOpen: 3, NPN: true,
			Singles: []appendKind{{"D", x}, {"P", y}}})
		// (2) the complete attribute alphabet on single pages and on groups around the fan-out
		add(&profile{Name: "attributes", Ver: "1.7", MaxLen: 2, MaxOpen: 1,
			Singles: singles("DP", allAttrs()...), Macros: macros([]int{15, 16}, "D", allAttrs()...)})
		// (3) merge shapes: macro appends crossing the powers of the fan-out, inside ranges
		add(&profile{Name: "merge-shapes", Ver: "1.4", MaxLen: 4, MaxOpen: 3,
			Singles: []appendKind{{"D", z}}, Macros: small})
		// (4) everything together at a smaller depth
		add(&profile{Name: "mixed", Ver: "1.4", MaxLen: 3, MaxOpen: 3, NPN: true,
			Singles: singles("DP", x, y, z, u), Macros: small})
		// (5) deep trees: three and four levels of /Pages nodes
		add(&profile{Name: "deep", Ver: "1.4", MaxLen: 3, MaxOpen: 2, NPN: true, MaxMacros: 2,
			Singles: []appendKind{{"P", z}},
			Macros:  append(macros([]int{4095, 4097}, "D", x), macros([]int{257}, "D", y)...)})
		return ps
	}
	add(&profile{Name: "ranges-callbacks", Ver: "1.7", MaxLen: 7, MaxOpen: 3, NPN: true,
		Singles: []appendKind{{"D", x}, {"P", y}, {"D", z}}})
	add(&profile{Name: "attributes", Ver: "1.7", MaxLen: 2, MaxOpen: 1,
		Singles: singles("DP", allAttrs()...), Macros: macros([]int{14, 15, 16}, "DP", allAttrs()...)})
	// three different values inside one group of 16: all MediaBox x CropBox x Rotate
	// combinations (Resources are never hoisted and stay absent here)
	var noRes []int
	for a := 0; a < nAttr; a++ {
		if attrOf(a).Res == 0 {
			noRes = append(noRes, a)
		}
	}
	add(&profile{Name: "attributes-3", Ver: "1.4", MaxLen: 3, MaxOpen: 0,
		Singles: singles("D", noRes...), Macros: macros([]int{13, 14, 15}, "D", noRes...)})
	add(&profile{Name: "merge-shapes", Ver: "1.4", MaxLen: 5, MaxOpen: 3,
		Singles: []appendKind{{"D", z}}, Macros: small})
	add(&profile{Name: "mixed", Ver: "1.4", MaxLen: 3, MaxOpen: 3, NPN: true,
		Singles: singles("DP", x, y, z, u), Macros: macros([]int{15, 16, 17, 255, 256, 257}, "DP", x, y)})
	add(&profile{Name: "mixed-5", Ver: "1.4", MaxLen: 5, MaxOpen: 3, NPN: true,
		Singles: []appendKind{{"D", z}, {"P", u}},
		Macros:  append(macros([]int{16, 17}, "P", y), macros([]int{256, 257}, "D", x)...)})
	add(&profile{Name: "deep", Ver: "1.4", MaxLen: 4, MaxOpen: 2, NPN: true, MaxMacros: 2,
		Singles: []appendKind{{"P", z}},
		Macros:  macros([]int{257, 4095, 4096, 4097}, "D", x, y)})
	return ps
}

func selfTest(r *ev.Run) bool {
	if err := pagetree.VerifClosureSelfTest(); err != nil {
		r.Infra("closure layout self-test: " + err.Error())
		return false
	}
	// determinism: the same history twice gives the same key and verdict
	h := []Op{{K: "npn", W: 0}, {K: "app", W: 0, N: 17, API: "P", A: at(1, 1, 2, 1)}, {K: "new", W: 0}, {K: "npn", W: 1},
		{K: "app", W: 1, N: 1, API: "D", A: at(2, 0, 1, 2)}, {K: "npn", W: 0}, {K: "app", W: 0, N: 1, API: "D", A: at(0, 0, 0, 0)}}
	c := Case{Profile: "selftest", MaxOpen: 3, Ops: h}
	a, b := execute(c), execute(c)
	if a.infra != "" || a.key != b.key || len(a.fails) != len(b.fails) || a.pages != 19 {
		r.Infra(fmt.Sprintf("determinism self-test: %+v vs %+v", a, b))
		return false
	}
	// the key must separate states that differ only in a pending callback
	c2 := Case{Profile: "selftest", MaxOpen: 3, Ops: append(append([]Op{}, h...), Op{K: "npn", W: 1})}
	if execute(c2).key == a.key {
		r.Infra("state key does not see a pending callback")
		return false
	}
	// commuting operations on different writers must reach the same state
	h3 := []Op{{K: "new", W: 0}, {K: "app", W: 1, N: 1, API: "D", A: 1}, {K: "app", W: 0, N: 1, API: "P", A: 2}}
	h4 := []Op{{K: "new", W: 0}, {K: "app", W: 0, N: 1, API: "P", A: 2}, {K: "app", W: 1, N: 1, API: "D", A: 1}}
	if execute(Case{MaxOpen: 3, Ops: h3}).key != execute(Case{MaxOpen: 3, Ops: h4}).key {
		r.Infra("state key separates two histories that differ only in the order of independent appends")
		return false
	}
	return true
}

// Run is the check.
func Run(tier string) int {
	budget := 4 * time.Minute
	if tier == "thorough" {
		budget = 25 * time.Minute
	}
	r := ev.New("C16", tier, "model_checking", budget)
	rn := &runner{r: r}
	r.Rule("a case is a history of page tree operations (appends through both APIs, macro appends, NewRange, range Close, NextPageNumber) followed by the root Close, pdf.Writer.Close and a read-back; every history up to the bound is executed on the real writer and judged against the list-of-pages model; states = distinct (reference model state, writer heap dump with references abstracted) pairs; distinct non-trivial = states with at least one range or at least two levels of /Pages nodes; multipage profiles: a case is a history of document.MultiPage operations (AddPage, SetPageSize, content, Page.Close, fill macros) followed by the Close of the open pages, MultiPage.Close and the same read-back; every history up to the bound is executed and extended (no merging: pointer sharing between pages is not in the key), states there are only counted")
	r.Assume("raw /Pages nodes are read through pdf.Reader.Get (the file layer is C02/C04's subject); the walk, inheritance and comparison are the harness's own",
		"state merging: equal keys mean equal writer heap (tails, children, queued objects, futureInt/callback graph) up to renaming of references and equal model; pdf.Writer and ResourceManager are treated as an allocation counter plus write-once map",
		"GetPage is called for every index up to 64 pages, beyond that for indices within 2 of a multiple of 16 and the last 3")
	if !selfTest(r) {
		return r.Finish()
	}
	for _, k := range r.KnownWitnesses() {
		var c Case
		if json.Unmarshal(k.Witness, &c) == nil {
			rn.one(c)
		}
	}
	only := os.Getenv("VERIF_C16_PROFILE")
	rep := map[string]any{}
	var names []string
	// the multipage profiles are small; they run first so that a deadline hit
	// on a loaded machine cannot cut them
	for _, p := range mpProfiles(r.Thorough()) {
		if only != "" && only != p.Name {
			continue
		}
		if r.Expired() {
			r.Capped("deadline reached before profile " + p.Name)
			break
		}
		rep[p.Name] = rn.searchMP(p)
		names = append(names, p.Name)
	}
	for _, p := range profiles(r) {
		if only != "" && only != p.Name {
			continue
		}
		if r.Expired() {
			r.Capped("deadline reached before profile " + p.Name)
			break
		}
		rep[p.Name] = rn.search(p)
		names = append(names, p.Name)
	}
	sort.Strings(names)
	if only == "" || only == "very-deep" {
		rep["very-deep"] = rn.veryDeep()
	}
	r.Dim("profiles", rep)
	r.Dim("attribute_alphabet", map[string]int{"MediaBox": 3, "CropBox": 2, "Rotate": 3, "Resources": 3, "api": 2})
	r.Dim("multipage_alphabet", map[string]any{"default_page_size": "A4 (one *pdf.Rectangle shared by all pages of the document)",
		"SetPageSize": []string{"Letter", "A5"}, "rectangle_pointers": "one per size and execution, shared by all SetPageSize calls, never modified by the harness",
		"content": "Rectangle+Fill, at most once per page, before or after SetPageSize", "document_order": "order of the Page.Close calls"})
	r.Dim("max_levels_of_pages_nodes", rn.maxDepth.Load())
	r.Dim("max_pages_in_a_document", rn.maxPages.Load())
	return r.Finish()
}

// Replay re-executes the history of a replay file.
func Replay(path string) int {
	var c Case
	if err := ev.ReplayCase(path, &c); err != nil {
		fmt.Println("replay:", err)
		return 2
	}
	r := ev.New("C16", "quick", "model_checking", time.Minute)
	r.SetReplayMode()
	rn := &runner{r: r}
	o := rn.one(c)
	if c.MP != nil {
		fmt.Printf("multipage history %v: pages=%d levels=%d failures=%d\n", c.MP, o.pages, o.treeDepth, len(o.fails))
	} else {
		fmt.Printf("history %v: pages=%d levels=%d failures=%d\n", c.Ops, o.pages, o.treeDepth, len(o.fails))
	}
	return r.Finish()
}
