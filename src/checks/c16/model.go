//go:build verif

package c16

import (
	"fmt"
	"strings"
)

// Op is one operation of a history. Writers are numbered in creation order
// within the history: 0 is the root, every NewRange creates the next number.
type Op struct {
	K   string `json:"k"`             // "app" | "new" | "close" | "npn"
	W   int    `json:"w"`             // writer the operation is applied to
	N   int    `json:"n,omitempty"`   // app: number of pages (1 = single append, >1 = macro)
	API string `json:"api,omitempty"` // app: "D" AppendPageDict, "P" AppendPage
	A   int    `json:"a,omitempty"`   // app: attribute index (see attr)
}

func (o Op) String() string {
	switch o.K {
	case "app":
		return fmt.Sprintf("w%d.Append%s(%dx %s)", o.W, o.API, o.N, attrOf(o.A))
	case "new":
		return fmt.Sprintf("w%d.NewRange", o.W)
	case "close":
		return fmt.Sprintf("w%d.Close", o.W)
	default:
		return fmt.Sprintf("w%d.NextPageNumber", o.W)
	}
}

// attr is what a page is given.
type attr struct {
	MB  int // 0 absent, 1 A4, 2 Letter
	CB  int // 0 absent, 1 c
	Rot int // 0 absent, 1 explicit 0, 2 explicit 90
	Res int // 0 absent, 1 r1, 2 r2
}

const nAttr = 3 * 2 * 3 * 3

func attrOf(a int) attr {
	return attr{MB: a % 3, CB: a / 3 % 2, Rot: a / 6 % 3, Res: a / 18 % 3}
}

func (a attr) index() int { return a.MB + 3*(a.CB+2*(a.Rot+3*a.Res)) }

func (a attr) String() string {
	return "MB=" + []string{"-", "A4", "Letter"}[a.MB] + ",CB=" + []string{"-", "c"}[a.CB] +
		",Rot=" + []string{"-", "0", "90"}[a.Rot] + ",Res=" + []string{"-", "r1", "r2"}[a.Res]
}

// ---------------------------------------------------------------------------
// reference model: a tree of writers, each an ordered list of pages and
// sub-ranges; the document is its depth-first flattening.

type mPage struct {
	seq  int // global append order (identity of the page within the history)
	attr int
	api  byte
	cbs  []int  // callbacks whose "next page" this is
	mb   string // multipage family: name of the MediaBox the page was given (overrides attr.MB)
}

type mItem struct {
	page *mPage
	rng  *mWriter
}

type mWriter struct {
	id     int
	parent *mWriter
	open   bool
	items  []mItem
	pend   []int // callbacks registered since the last append
}

type mCb struct {
	w      int
	page   *mPage // nil while pending or when the writer was closed first
	closed bool   // writer closed before another page was added: expect -1
}

type model struct {
	writers []*mWriter
	cbs     []*mCb
	npages  int
	nopen   int // open ranges (root not counted)
}

func newModel() *model {
	return &model{writers: []*mWriter{{id: 0, open: true}}}
}

func (m *model) closeRec(w *mWriter) {
	if !w.open {
		return
	}
	for _, it := range w.items {
		if it.rng != nil {
			m.closeRec(it.rng)
		}
	}
	w.open = false
	if w.id != 0 {
		m.nopen--
	}
	for _, c := range w.pend {
		m.cbs[c].closed = true
	}
	w.pend = nil
}

// apply performs op on the model; false if the operation is not enabled.
func (m *model) apply(op Op, maxOpen int) bool {
	if op.W < 0 || op.W >= len(m.writers) {
		return false
	}
	w := m.writers[op.W]
	if !w.open {
		return false
	}
	switch op.K {
	case "app":
		if op.N < 1 || op.A < 0 || op.A >= nAttr || (op.API != "D" && op.API != "P") {
			return false
		}
		for i := 0; i < op.N; i++ {
			p := &mPage{seq: m.npages, attr: op.A, api: op.API[0]}
			m.npages++
			if i == 0 {
				p.cbs = w.pend
				for _, c := range w.pend {
					m.cbs[c].page = p
				}
				w.pend = nil
			}
			w.items = append(w.items, mItem{page: p})
		}
	case "new":
		if m.nopen >= maxOpen {
			return false
		}
		c := &mWriter{id: len(m.writers), parent: w, open: true}
		m.writers = append(m.writers, c)
		w.items = append(w.items, mItem{rng: c})
		m.nopen++
	case "close":
		if w.id == 0 {
			return false
		}
		m.closeRec(w)
	case "npn":
		w.pend = append(w.pend, len(m.cbs))
		m.cbs = append(m.cbs, &mCb{w: w.id})
	default:
		return false
	}
	return true
}

// flatten returns the pages in document order.
func (m *model) flatten() []*mPage {
	var out []*mPage
	var rec func(w *mWriter)
	rec = func(w *mWriter) {
		for _, it := range w.items {
			if it.page != nil {
				out = append(out, it.page)
			} else {
				rec(it.rng)
			}
		}
	}
	rec(m.writers[0])
	return out
}

// canonNames gives every writer a name that does not depend on the order
// in which ranges were created: its position in a depth-first walk.
func (m *model) canonNames() []int {
	names := make([]int, len(m.writers))
	n := 0
	var rec func(w *mWriter)
	rec = func(w *mWriter) {
		names[w.id] = n
		n++
		for _, it := range w.items {
			if it.rng != nil {
				rec(it.rng)
			}
		}
	}
	rec(m.writers[0])
	return names
}

// canon renders the model state for the state key. unsettled(cb) returns the
// text to record for a callback attached to a page ("" once its outcome can no
// longer depend on the future).
func (m *model) canon(cbText func(c int, positionFinal bool) string) string {
	var b strings.Builder
	final := true // no open range precedes the current position
	var rec func(w *mWriter)
	rec = func(w *mWriter) {
		if w.open {
			b.WriteString("{o")
		} else {
			b.WriteString("{c")
		}
		last, run := "", 0
		flush := func() {
			if run > 0 {
				fmt.Fprintf(&b, " %sx%d", last, run)
			}
			last, run = "", 0
		}
		for _, it := range w.items {
			if it.rng != nil {
				flush()
				rec(it.rng)
				if it.rng.open {
					// pages may still be inserted here, before everything that follows
					final = false
				}
				continue
			}
			tok := fmt.Sprintf("%c%d", it.page.api, it.page.attr)
			for _, c := range it.page.cbs {
				if t := cbText(c, final); t != "" {
					tok += "[" + t + "]"
				}
			}
			if tok != last {
				flush()
				last = tok
			}
			run++
		}
		flush()
		fmt.Fprintf(&b, " pend=%d}", len(w.pend))
	}
	rec(m.writers[0])
	return b.String()
}

// shape statistics used for outcome classes
func (m *model) maxNesting() int {
	best := 0
	for _, w := range m.writers {
		d := 0
		for p := w.parent; p != nil; p = p.parent {
			d++
		}
		if d > best {
			best = d
		}
	}
	return best
}
