//go:build verif

package c16

import (
	"bytes"
	"crypto/sha256"
	"fmt"
	"regexp"
	"strings"
	"unsafe"

	"seehuhn.de/go/pdf"
	"seehuhn.de/go/pdf/graphics/content"
	"seehuhn.de/go/pdf/optional"
	"seehuhn.de/go/pdf/page"
	"seehuhn.de/go/pdf/pagetree"
	"seehuhn.de/go/pdf/zzverif/checks/hx"
)

// Case is one replayable history (the root Close, pdf.Writer.Close and the
// read-back follow every history implicitly).
type Case struct {
	Profile string `json:"profile"`
	Ver     string `json:"version"` // "1.7": page tree nodes go to object streams; "1.4": written directly
	MaxOpen int    `json:"max_open"`
	Ops     []Op   `json:"ops"`
	// multipage family (see multipage.go): a history of document.MultiPage
	// operations; MaxOpen then bounds the pages open at the same time
	Entry string `json:"entry,omitempty"`
	MP    []MOp  `json:"mp,omitempty"`
}

type failure struct {
	fp, what string
}

type stateKey [16]byte

// outcome of executing one history on the real code
type outcome struct {
	key       stateKey // state before the root Close
	fails     []failure
	infra     string
	rejected  bool // root Close reported "no pages in document"
	pages     int
	treeDepth int // levels of /Pages nodes above the leaves
	nodes     int // /Pages nodes
	hoisted   int // inheritable attributes found on /Pages nodes
	cbMinus   int // callbacks that reported -1
	cbPos     int // callbacks that reported a position
}

func (o *outcome) fail(fp, format string, a ...any) {
	for _, f := range o.fails {
		if f.fp == fp {
			return
		}
	}
	if len(o.fails) < 6 {
		o.fails = append(o.fails, failure{fp, fmt.Sprintf(format, a...)})
	}
}

// callbacks are method values so that the state dump can identify them
type cbRec struct {
	id    int
	fired []int
}

func (c *cbRec) fire(n int) { c.fired = append(c.fired, n) }

var userCbCode = func() uintptr {
	c, _ := pagetree.VerifDecodeFunc((&cbRec{}).fire)
	return c
}()

// attribute values -----------------------------------------------------------

var (
	rectA4     = [4]float64{0, 0, 595, 842}
	rectLetter = [4]float64{0, 0, 612, 792}
	rectCrop   = [4]float64{10, 10, 500, 700}
)

func rectArray(r [4]float64) pdf.Array {
	return pdf.Array{pdf.Integer(r[0]), pdf.Integer(r[1]), pdf.Integer(r[2]), pdf.Integer(r[3])}
}

func rectPtr(r [4]float64) *pdf.Rectangle {
	return &pdf.Rectangle{LLx: r[0], LLy: r[1], URx: r[2], URy: r[3]}
}

func resDict(i int) pdf.Dict {
	if i == 1 {
		return pdf.Dict{"ProcSet": pdf.Array{pdf.Name("PDF")}}
	}
	return pdf.Dict{"ProcSet": pdf.Array{pdf.Name("PDF"), pdf.Name("Text")}}
}

var digits = regexp.MustCompile(`[0-9]+`)

func panicClass(v any) string {
	s := fmt.Sprint(v)
	if i := strings.IndexByte(s, '\n'); i >= 0 {
		s = s[:i]
	}
	s = digits.ReplaceAllString(s, "N")
	if len(s) > 60 {
		s = s[:60]
	}
	return s
}

// execute runs the history on fresh objects of the real code, takes the state
// key, closes everything, reopens the file and judges it against the model.
func execute(c Case) (o outcome) {
	m := newModel()
	for _, op := range c.Ops {
		if !m.apply(op, c.MaxOpen) {
			o.infra = fmt.Sprintf("history not enabled in the model at %v", op)
			return
		}
	}

	buf := &bytes.Buffer{}
	ver := pdf.V1_7
	if c.Ver == "1.4" {
		ver = pdf.V1_4
	}
	out, err := pdf.NewWriter(buf, ver, nil)
	if err != nil {
		o.infra = "pdf.NewWriter: " + err.Error()
		return
	}
	rm := pdf.NewResourceManager(out)

	// resources: the Page API shares two *content.Resources, the dictionary API
	// uses a direct dictionary (r1) and a reference to a shared object (r2).
	resP := [3]*content.Resources{nil,
		{ProcSet: content.ProcSet{PDF: true}},
		{ProcSet: content.ProcSet{PDF: true, Text: true}}}
	r2Ref := out.Alloc()
	if err := out.Put(r2Ref, resDict(2)); err != nil {
		o.infra = "Put: " + err.Error()
		return
	}
	var resPRef [3]pdf.Reference
	for i := 1; i <= 2; i++ {
		obj, err := rm.Embed(resP[i])
		ref, ok := obj.(pdf.Reference)
		if err != nil || !ok {
			o.infra = fmt.Sprintf("Embed(resources): %v %T", err, obj)
			return
		}
		resPRef[i] = ref
	}
	resName := func(v any) string {
		switch x := v.(type) {
		case *content.Resources:
			switch x {
			case nil:
				return "nil"
			case resP[1]:
				return "r1p"
			case resP[2]:
				return "r2p"
			}
			return "fresh"
		case pdf.Reference:
			switch x {
			case r2Ref:
				return "r2ref"
			case resPRef[1]:
				return "r1pref"
			case resPRef[2]:
				return "r2pref"
			}
			return "ref"
		case pdf.Object:
			return pdf.AsString(x)
		}
		return fmt.Sprintf("%T", v)
	}

	ws := []*pagetree.Writer{pagetree.NewWriter(out, rm)}
	var cbs []*cbRec
	pageRef := map[int]pdf.Reference{} // dictionary API: seq -> reference passed in
	seq := 0

	phase := "ops"
	defer func() {
		if r := recover(); r != nil {
			o.fail("panic:"+phase+":"+panicClass(r), "panic during %s: %v", phase, r)
		}
	}()

	for _, op := range c.Ops {
		w := ws[op.W]
		switch op.K {
		case "app":
			a := attrOf(op.A)
			for i := 0; i < op.N; i++ {
				var err error
				if op.API == "D" {
					d := pdf.Dict{"Type": pdf.Name("Page"), "VerifID": pdf.Integer(seq)}
					switch a.MB {
					case 1:
						d["MediaBox"] = rectArray(rectA4)
					case 2:
						d["MediaBox"] = rectArray(rectLetter)
					}
					if a.CB == 1 {
						d["CropBox"] = rectArray(rectCrop)
					}
					switch a.Rot {
					case 1:
						d["Rotate"] = pdf.Integer(0)
					case 2:
						d["Rotate"] = pdf.Integer(90)
					}
					switch a.Res {
					case 1:
						d["Resources"] = resDict(1)
					case 2:
						d["Resources"] = r2Ref
					}
					ref := out.Alloc()
					pageRef[seq] = ref
					err = w.AppendPageDict(ref, d)
				} else {
					p := &page.Page{StructParents: optional.NewUInt(uint(seq))}
					switch a.MB {
					case 1:
						p.MediaBox = rectPtr(rectA4)
					case 2:
						p.MediaBox = rectPtr(rectLetter)
					}
					if a.CB == 1 {
						p.CropBox = rectPtr(rectCrop)
					}
					switch a.Rot {
					case 1:
						p.Rotate = page.Rotate0
					case 2:
						p.Rotate = page.Rotate90
					}
					p.Resources = resP[a.Res]
					err = w.AppendPage(p)
				}
				seq++
				if err != nil {
					o.fail("append-error", "%v returned %v", op, err)
					return
				}
			}
		case "new":
			sub, err := w.NewRange()
			if err != nil || sub == nil {
				o.fail("newrange-error", "%v returned %v", op, err)
				return
			}
			ws = append(ws, sub)
		case "close":
			if _, err := w.Close(); err != nil {
				o.fail("range-close-error", "%v returned %v", op, err)
				return
			}
		case "npn":
			rec := &cbRec{id: len(cbs)}
			cbs = append(cbs, rec)
			w.NextPageNumber(rec.fire)
		}
	}

	// ---- state key (before the root is closed) ------------------------------
	phase = "dump"
	names := m.canonNames()
	cbLabel := func(id int) string {
		mc := m.cbs[id]
		s := fmt.Sprintf("w%d", names[mc.w])
		if mc.page != nil {
			// position of the page among the items of its writer
			for i, it := range m.writers[mc.w].items {
				if it.page == mc.page {
					s += fmt.Sprintf("@%d", i)
				}
			}
		} else if mc.closed {
			s += "@closed"
		} else {
			s += "@pending"
		}
		return s
	}
	dump, ok := pagetree.VerifDump(ws[0], func(code uintptr, recv unsafe.Pointer) (string, bool) {
		if code != userCbCode {
			return "", false
		}
		return cbLabel((*cbRec)(recv).id), true
	}, resName)
	if !ok {
		o.infra = "state dump met a callback it cannot identify: " + dump
		return
	}
	mcanon := m.canon(func(c int, positionFinal bool) string {
		f := cbs[c].fired
		if len(f) == 1 && positionFinal {
			return "" // fired, and the position it had to report can no longer change
		}
		return fmt.Sprint(f)
	})
	// callbacks that ended with "closed before another page": settled once fired
	var late []string
	for id, mc := range m.cbs {
		if mc.closed && len(cbs[id].fired) != 1 {
			late = append(late, fmt.Sprintf("%s%v", cbLabel(id), cbs[id].fired))
		}
	}
	sum := sha256.Sum256([]byte(mcanon + "|" + strings.Join(late, ",") + "|" + dump))
	copy(o.key[:], sum[:16])

	// ---- close everything ---------------------------------------------------
	phase = "root-close"
	rootRef, err := ws[0].Close()
	m.closeRec(m.writers[0])
	want := m.flatten()
	o.pages = len(want)
	checkCallbacks(&o, m, cbs, want)
	if len(want) == 0 {
		if err == nil {
			o.fail("empty-tree-accepted", "root Close of a tree without pages returned no error")
		}
		o.rejected = true
		return
	}
	if err != nil {
		o.fail("root-close-error", "root Close returned %v for %d pages", err, len(want))
		return
	}
	if rootRef == 0 {
		o.fail("root-ref-zero", "root Close returned reference 0")
		return
	}
	out.GetMeta().Catalog.Pages = rootRef
	phase = "file-close"
	if err := rm.Close(); err != nil {
		o.fail("rm-close-error", "ResourceManager.Close: %v", err)
		return
	}
	if err := out.Close(); err != nil {
		o.fail("file-close-error", "pdf.Writer.Close: %v", err)
		return
	}
	// callbacks must not fire after the tree is closed either
	checkCallbacks(&o, m, cbs, want)

	// ---- read back ----------------------------------------------------------
	phase = "read-back"
	data := buf.Bytes()
	rd, err := pdf.NewReader(bytes.NewReader(data), int64(len(data)), nil)
	if err != nil {
		o.fail("reopen-error", "pdf.NewReader: %v", err)
		return
	}
	defer rd.Close()
	verify(&o, &cachedReader{r: rd, m: map[pdf.Reference]pdf.Native{}}, want, pageRef)
	return
}

func checkCallbacks(o *outcome, m *model, cbs []*cbRec, want []*mPage) {
	pos := map[*mPage]int{}
	for i, p := range want {
		pos[p] = i
	}
	o.cbMinus, o.cbPos = 0, 0
	for id, mc := range m.cbs {
		exp := -1
		kind := "none-follows"
		if mc.page != nil {
			exp = pos[mc.page]
			kind = "page-follows"
		}
		f := cbs[id].fired
		switch {
		case len(f) == 0:
			o.fail("callback-not-fired:"+kind, "NextPageNumber callback %d on writer %d never fired (expected %d)", id, mc.w, exp)
		case len(f) > 1:
			o.fail("callback-fired-twice:"+kind, "NextPageNumber callback %d on writer %d fired %d times: %v", id, mc.w, len(f), f)
		case f[0] != exp:
			got := "position"
			if f[0] < 0 {
				got = "negative"
			}
			o.fail("callback-value:"+kind+":got-"+got, "NextPageNumber callback %d on writer %d reported %d, the page is at %d", id, mc.w, f[0], exp)
		}
		if len(f) > 0 && f[0] < 0 {
			o.cbMinus++
		} else if len(f) > 0 {
			o.cbPos++
		}
	}
}

// ---------------------------------------------------------------------------
// the oracle on the written file

var inheritable = []pdf.Name{"MediaBox", "CropBox", "Rotate", "Resources"}

type leaf struct {
	ref  pdf.Reference
	dict pdf.Dict
	eff  map[pdf.Name]pdf.Object
}

func num(o pdf.Object) (float64, bool) {
	switch x := o.(type) {
	case pdf.Integer:
		return float64(x), true
	case pdf.Real:
		return float64(x), true
	}
	return 0, false
}

// cachedReader reads every object once from the file and hands out deep
// copies (the reading functions of pagetree modify the dictionaries they get).
// Without it every Get re-inflates a whole object stream.
type cachedReader struct {
	r *pdf.Reader
	m map[pdf.Reference]pdf.Native
}

func (c *cachedReader) GetMeta() *pdf.MetaInfo { return c.r.GetMeta() }

func (c *cachedReader) Get(ref pdf.Reference, canObjStm bool) (pdf.Native, error) {
	if o, ok := c.m[ref]; ok {
		n, _ := hx.Clone(o).(pdf.Native)
		return n, nil
	}
	o, err := c.r.Get(ref, canObjStm)
	if err != nil {
		return nil, err
	}
	switch o.(type) {
	case pdf.Dict, pdf.Array, pdf.Integer, pdf.Real, pdf.Name, pdf.String, pdf.Boolean:
		c.m[ref] = o
		n, _ := hx.Clone(o).(pdf.Native)
		return n, nil
	}
	return o, nil
}

func resolve(rd *cachedReader, o pdf.Object) pdf.Object {
	for i := 0; i < 8; i++ {
		ref, ok := o.(pdf.Reference)
		if !ok {
			return o
		}
		n, err := rd.Get(ref, true)
		if err != nil {
			return pdf.Name("!unreadable:" + err.Error())
		}
		o = n
	}
	return o
}

func rectName(rd *cachedReader, o pdf.Object) string {
	if o == nil {
		return "absent"
	}
	a, ok := resolve(rd, o).(pdf.Array)
	if !ok || len(a) != 4 {
		return "malformed"
	}
	var r [4]float64
	for i := range a {
		f, ok := num(resolve(rd, a[i]))
		if !ok {
			return "malformed"
		}
		r[i] = f
	}
	switch r {
	case rectA4:
		return "A4"
	case rectLetter:
		return "Letter"
	case rectCrop:
		return "c"
	case rectA5:
		return "A5"
	}
	return "other"
}

func rotName(rd *cachedReader, o pdf.Object) string {
	if o == nil {
		return "0"
	}
	f, ok := num(resolve(rd, o))
	if !ok {
		return "malformed"
	}
	return fmt.Sprint(f)
}

func resKind(rd *cachedReader, o pdf.Object) string {
	if o == nil {
		return "absent"
	}
	d, ok := resolve(rd, o).(pdf.Dict)
	if !ok {
		return "malformed"
	}
	if len(d) == 0 {
		return "empty"
	}
	for i := 1; i <= 2; i++ {
		if hx.Equal(d, resDict(i)) {
			return fmt.Sprintf("r%d", i)
		}
	}
	return "other"
}

// checkAttrs compares the effective inheritable attributes of one page with
// what the page was given.
func checkAttrs(o *outcome, rd *cachedReader, via string, idx int, p *mPage, eff func(pdf.Name) pdf.Object) {
	a := attrOf(p.attr)
	wantMB := []string{"absent", "A4", "Letter"}[a.MB]
	if p.mb != "" {
		wantMB = p.mb
	}
	if got := rectName(rd, eff("MediaBox")); got != wantMB {
		o.fail(fmt.Sprintf("attr:%s:MediaBox:given=%s,effective=%s", via, wantMB, got),
			"page %d (%c, %v): effective MediaBox is %s", idx, p.api, a, got)
	}
	wantCB := []string{"absent", "c"}[a.CB]
	if got := rectName(rd, eff("CropBox")); got != wantCB {
		o.fail(fmt.Sprintf("attr:%s:CropBox:given=%s,effective=%s", via, wantCB, got),
			"page %d (%c, %v): effective CropBox is %s", idx, p.api, a, got)
	}
	wantRot := []string{"0", "0", "90"}[a.Rot]
	if got := rotName(rd, eff("Rotate")); got != wantRot {
		o.fail(fmt.Sprintf("attr:%s:Rotate:given=%s,effective=%s", via, []string{"absent", "0", "90"}[a.Rot], got),
			"page %d (%c, %v): effective Rotate is %s", idx, p.api, a, got)
	}
	wantRes := []string{"absent", "r1", "r2"}[a.Res]
	got := resKind(rd, eff("Resources"))
	if got == "empty" && a.Res == 0 && p.api == 'P' {
		// AppendPage gives a page without resources an empty resource dictionary
		got = "absent"
	}
	if got != wantRes {
		o.fail(fmt.Sprintf("attr:%s:Resources:given=%s,effective=%s", via, wantRes, got),
			"page %d (%c, %v): effective Resources is %s", idx, p.api, a, got)
	}
}

func pageIdentity(d pdf.Dict) (seq int, api byte, ok bool) {
	if v, has := d["VerifID"].(pdf.Integer); has {
		return int(v), 'D', true
	}
	if v, has := d["StructParents"].(pdf.Integer); has {
		return int(v), 'P', true
	}
	return 0, 0, false
}

func verify(o *outcome, rd *cachedReader, want []*mPage, pageRef map[int]pdf.Reference) {
	root := rd.GetMeta().Catalog.Pages
	if root == 0 {
		o.fail("no-root", "catalog has no /Pages after reopening")
		return
	}

	// (1) raw walk of the /Pages nodes
	var leaves []leaf
	seen := map[pdf.Reference]bool{}
	broken := false
	var walk func(ref, parent pdf.Reference, inh map[pdf.Name]pdf.Object, level int) int
	walk = func(ref, parent pdf.Reference, inh map[pdf.Name]pdf.Object, level int) int {
		if seen[ref] {
			o.fail("reachable-twice", "object %v is reachable twice in the page tree", ref)
			broken = true
			return 0
		}
		seen[ref] = true
		obj, err := rd.Get(ref, true)
		d, ok := obj.(pdf.Dict)
		if err != nil || !ok {
			o.fail("node-unreadable", "page tree node %v: %T %v", ref, obj, err)
			broken = true
			return 0
		}
		if parent != 0 {
			if d["Parent"] != parent {
				o.fail("parent", "node %v is listed by %v but its /Parent is %s", ref, parent, hx.Show(d["Parent"]))
			}
		}
		switch d["Type"] {
		case pdf.Name("Page"):
			if parent == 0 {
				o.fail("root-is-leaf", "the root of the page tree is a /Page")
			}
			eff := map[pdf.Name]pdf.Object{}
			for _, k := range inheritable {
				if v, ok := d[k]; ok {
					eff[k] = v
				} else if v, ok := inh[k]; ok {
					eff[k] = v
				}
			}
			leaves = append(leaves, leaf{ref, d, eff})
			if level > o.treeDepth {
				o.treeDepth = level
			}
			return 1
		case pdf.Name("Pages"):
			o.nodes++
			kids, ok := d["Kids"].(pdf.Array)
			if !ok {
				o.fail("kids-not-array", "node %v: /Kids is %s", ref, hx.Show(d["Kids"]))
				broken = true
				return 0
			}
			if len(kids) > pagetree.VerifMaxDegree {
				o.fail("fan-out", "node %v has %d kids", ref, len(kids))
			}
			inh2 := make(map[pdf.Name]pdf.Object, len(inh)+len(inheritable))
			for k, v := range inh {
				inh2[k] = v
			}
			for _, k := range inheritable {
				if v, ok := d[k]; ok {
					inh2[k] = v
					o.hoisted++
				}
			}
			n := 0
			for _, kid := range kids {
				kr, ok := kid.(pdf.Reference)
				if !ok {
					o.fail("kid-not-reference", "node %v lists %s", ref, hx.Show(kid))
					broken = true
					continue
				}
				n += walk(kr, ref, inh2, level+1)
			}
			if cnt, ok := d["Count"].(pdf.Integer); !ok || int(cnt) != n {
				o.fail("count", "node %v has /Count %s and %d leaf pages below", ref, hx.Show(d["Count"]), n)
			}
			return n
		default:
			o.fail("node-type", "node %v has /Type %s", ref, hx.Show(d["Type"]))
			broken = true
			return 0
		}
	}
	walk(root, 0, map[pdf.Name]pdf.Object{}, 0)

	// (2) the leaves are the pages of the model, in document order
	if len(leaves) != len(want) {
		o.fail("page-count", "the tree has %d leaf pages, %d were appended", len(leaves), len(want))
		return
	}
	orderOK := true
	for i, lf := range leaves {
		seq, api, ok := pageIdentity(lf.dict)
		if !ok || seq != want[i].seq || api != want[i].api {
			o.fail("order", "position %d holds page #%d (%c), the history puts page #%d (%c) there", i, seq, api, want[i].seq, want[i].api)
			orderOK = false
			break
		}
		if api == 'D' && pageRef[seq] != lf.ref {
			o.fail("page-reference", "page #%d was appended as %v and is listed as %v", seq, pageRef[seq], lf.ref)
		}
	}
	if !orderOK || broken {
		return
	}
	for i, lf := range leaves {
		checkAttrs(o, rd, "raw", i, want[i], func(k pdf.Name) pdf.Object { return lf.eff[k] })
	}

	// (3) the reading functions of the package
	if n, err := pagetree.NumPages(rd); err != nil || n != len(want) {
		o.fail("api:NumPages", "NumPages = %d, %v; want %d", n, err, len(want))
	}
	refs, err := pagetree.FindPages(rd)
	if err != nil || len(refs) != len(leaves) {
		o.fail("api:FindPages:length", "FindPages returned %d references, %v; want %d", len(refs), err, len(leaves))
	} else {
		for i := range refs {
			if refs[i] != leaves[i].ref {
				o.fail("api:FindPages:order", "FindPages[%d] = %v, the tree lists %v there", i, refs[i], leaves[i].ref)
				break
			}
		}
	}
	it := pagetree.NewIterator(rd)
	i := 0
	for ref, d := range it.All() {
		if i >= len(leaves) {
			o.fail("api:Iterator:length", "Iterator yields more than %d pages", len(leaves))
			break
		}
		if ref != leaves[i].ref {
			o.fail("api:Iterator:order", "Iterator page %d is %v, the tree lists %v there", i, ref, leaves[i].ref)
			break
		}
		checkAttrs(o, rd, "Iterator", i, want[i], func(k pdf.Name) pdf.Object { return d[k] })
		i++
	}
	if it.Err != nil || i != len(leaves) {
		o.fail("api:Iterator:length", "Iterator yielded %d of %d pages, Err = %v", i, len(leaves), it.Err)
	}
	for _, i := range getPageIndices(len(leaves)) {
		ref, d, err := pagetree.GetPage(rd, i)
		if err != nil {
			o.fail("api:GetPage:error", "GetPage(%d) of %d: %v", i, len(leaves), err)
			continue
		}
		if ref != leaves[i].ref {
			o.fail("api:GetPage:order", "GetPage(%d) = %v, the tree lists %v there", i, ref, leaves[i].ref)
			continue
		}
		checkAttrs(o, rd, "GetPage", i, want[i], func(k pdf.Name) pdf.Object { return d[k] })
	}
	if _, _, err := pagetree.GetPage(rd, len(leaves)); err == nil {
		o.fail("api:GetPage:past-end", "GetPage(%d) of a %d page document returned a page", len(leaves), len(leaves))
	}
}

// getPageIndices: every index for documents up to 64 pages; beyond that every
// index within 2 of a multiple of 16 and of both ends (GetPage descends by
// /Count, the boundaries of subtrees are where it can go wrong; the complete
// order and attribute check is done by the raw walk and the Iterator).
func getPageIndices(n int) []int {
	var out []int
	for i := 0; i < n; i++ {
		r := i % 16
		if n <= 64 || r <= 1 || r >= 14 || i >= n-3 {
			out = append(out, i)
		}
	}
	return out
}
