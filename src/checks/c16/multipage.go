//go:build verif

package c16

import (
	"bytes"
	"crypto/sha256"
	"fmt"
	"strings"
	"sync/atomic"
	"time"
	"unsafe"

	"seehuhn.de/go/pdf"
	"seehuhn.de/go/pdf/document"
	"seehuhn.de/go/pdf/optional"
	"seehuhn.de/go/pdf/pagetree"
)

// The multipage family: page insertions made through the document level
// wrapper of the page tree writer.  document.MultiPage.AddPage hands out a
// page whose Close appends it to the page tree (AppendPageRef); every page
// starts with the document's default page size (one *pdf.Rectangle shared by
// all pages), SetPageSize gives a page its own size.  Several pages can be
// open at the same time; the document order is the order of the Close calls.
//
// Nothing is merged in this family: sharing of rectangle pointers between
// pages is part of the heap and is exactly what a state key built from values
// cannot see, so every history up to the bound is executed and extended.  The
// number of distinct (model, writer dump) pairs is only reported.

// MOp is one operation of a multipage history.  Pages are numbered in the
// order of the AddPage calls.
type MOp struct {
	K string `json:"k"`           // "add" | "size" | "draw" | "close" | "fill"
	P int    `json:"p,omitempty"` // page the operation is applied to
	S int    `json:"s,omitempty"` // size: 1 Letter, 2 A5
	N int    `json:"n,omitempty"` // fill: number of default-size pages added, drawn and closed
}

func (o MOp) String() string {
	switch o.K {
	case "add":
		return "AddPage"
	case "size":
		return fmt.Sprintf("p%d.SetPageSize(%s)", o.P, mpSizeName[o.S])
	case "draw":
		return fmt.Sprintf("p%d.draw", o.P)
	case "close":
		return fmt.Sprintf("p%d.Close", o.P)
	default:
		return fmt.Sprintf("%dx(AddPage,draw,Close)", o.N)
	}
}

var (
	rectA5     = [4]float64{0, 0, 420, 595}
	mpSizeName = []string{"A4", "Letter", "A5"} // 0 is the default page size of the document
	mpSizeRect = [][4]float64{rectA4, rectLetter, rectA5}
)

// mpProfile bounds one multipage search.
type mpProfile struct {
	Name     string
	Ver      string
	Entry    string // "write": document.WriteMultiPage, "add": pdf.NewWriter + document.AddMultiPage
	MaxLen   int
	MaxOpen  int   // pages open at the same time
	Sizes    []int // SetPageSize alphabet (indices into mpSizeName)
	Draw     bool  // the draw operation is part of the alphabet (SetPageSize before/after content)
	Fills    []int
	MaxFills int
}

func (p *mpProfile) describe() string {
	var s []string
	for _, x := range p.Sizes {
		s = append(s, mpSizeName[x])
	}
	return fmt.Sprintf("pdf=%s entry=%s len<=%d open_pages<=%d default=A4 ops=[AddPage | SetPageSize(%s) per open page | draw(once per page)=%v | Close per open page | fill n=%v (<=%d per history)]; implicit end: Close of the open pages in AddPage order, MultiPage.Close",
		p.Ver, p.Entry, p.MaxLen, p.MaxOpen, strings.Join(s, ","), p.Draw, p.Fills, p.MaxFills)
}

// model of a multipage history ---------------------------------------------

type mpPage struct {
	seq    int
	size   int
	drawn  bool
	open   bool
	closed bool
}

type mpModel struct {
	pages []*mpPage
	order []*mpPage // closed pages in document order
	nopen int
	fills int
}

func (m *mpModel) apply(op MOp, maxOpen int) bool {
	switch op.K {
	case "add":
		if m.nopen >= maxOpen {
			return false
		}
		m.pages = append(m.pages, &mpPage{seq: len(m.pages), open: true})
		m.nopen++
		return true
	case "fill":
		if op.N < 1 {
			return false
		}
		for i := 0; i < op.N; i++ {
			p := &mpPage{seq: len(m.pages), drawn: true, closed: true}
			m.pages = append(m.pages, p)
			m.order = append(m.order, p)
		}
		m.fills++
		return true
	}
	if op.P < 0 || op.P >= len(m.pages) || !m.pages[op.P].open {
		return false
	}
	p := m.pages[op.P]
	switch op.K {
	case "size":
		if op.S < 1 || op.S >= len(mpSizeName) {
			return false
		}
		p.size = op.S
	case "draw":
		if p.drawn {
			return false
		}
		p.drawn = true
	case "close":
		p.open, p.closed = false, true
		m.nopen--
		m.order = append(m.order, p)
	default:
		return false
	}
	return true
}

func (m *mpModel) canon() string {
	var b strings.Builder
	for _, p := range m.order {
		fmt.Fprintf(&b, "%d", p.size)
	}
	b.WriteByte('|')
	for _, p := range m.pages {
		if p.open {
			fmt.Fprintf(&b, "(%d,%v)", p.size, p.drawn)
		}
	}
	return b.String()
}

func (p *mpProfile) enabled(m *mpModel) []MOp {
	var ops []MOp
	if m.nopen < p.MaxOpen {
		ops = append(ops, MOp{K: "add"})
	}
	for _, pg := range m.pages {
		if !pg.open {
			continue
		}
		for _, s := range p.Sizes {
			ops = append(ops, MOp{K: "size", P: pg.seq, S: s})
		}
		if p.Draw && !pg.drawn {
			ops = append(ops, MOp{K: "draw", P: pg.seq})
		}
		ops = append(ops, MOp{K: "close", P: pg.seq})
	}
	if m.fills < p.MaxFills {
		for _, n := range p.Fills {
			ops = append(ops, MOp{K: "fill", N: n})
		}
	}
	return ops
}

// executeMP runs a multipage history on fresh objects of the real code and
// judges the written file: the pages in the order of their Close calls, each
// with the MediaBox it was given (the size of its last SetPageSize call, else
// the default of the document), no CropBox, no rotation, no resources.
func executeMP(c Case) (o outcome) {
	m := &mpModel{}
	for _, op := range c.MP {
		if !m.apply(op, c.MaxOpen) {
			o.infra = fmt.Sprintf("multipage history not enabled in the model at %v", op)
			return
		}
	}

	// The rectangles belong to this execution; they are never modified by the
	// harness.  One pointer per size is used for all SetPageSize calls, the way
	// the package level variables document.A4 ... are used by callers.
	rects := make([]*pdf.Rectangle, len(mpSizeRect))
	for i, r := range mpSizeRect {
		rects[i] = rectPtr(r)
	}

	buf := &bytes.Buffer{}
	ver := pdf.V1_7
	if c.Ver == "1.4" {
		ver = pdf.V1_4
	}
	var doc *document.MultiPage
	var err error
	if c.Entry == "add" {
		var out *pdf.Writer
		out, err = pdf.NewWriter(buf, ver, nil)
		if err != nil {
			o.infra = "pdf.NewWriter: " + err.Error()
			return
		}
		doc, err = document.AddMultiPage(out, rects[0])
	} else {
		doc, err = document.WriteMultiPage(buf, rects[0], ver, nil)
	}
	if err != nil || doc == nil {
		o.infra = fmt.Sprintf("creating the MultiPage: %v", err)
		return
	}

	phase := "ops"
	defer func() {
		if r := recover(); r != nil {
			o.fail("panic:multipage:"+phase+":"+panicClass(r), "panic during %s: %v", phase, r)
		}
	}()

	var pages []*document.Page
	add := func() *document.Page {
		p := doc.AddPage()
		// identity of the page in the written file
		p.Page.StructParents = optional.NewUInt(uint(len(pages)))
		pages = append(pages, p)
		return p
	}
	draw := func(p *document.Page) {
		p.Rectangle(10, 10, 50, 50)
		p.Fill()
	}
	for _, op := range c.MP {
		var err error
		switch op.K {
		case "add":
			add()
		case "size":
			pages[op.P].SetPageSize(rects[op.S])
		case "draw":
			draw(pages[op.P])
		case "close":
			err = pages[op.P].Close()
		case "fill":
			for i := 0; i < op.N && err == nil; i++ {
				p := add()
				draw(p)
				err = p.Close()
			}
		}
		if err != nil {
			o.fail("multipage:page-close-error", "%v returned %v", op, err)
			return
		}
	}

	// state (reported only, see the comment at the top of the file)
	phase = "dump"
	dump, ok := pagetree.VerifDump(doc.Tree, func(uintptr, unsafe.Pointer) (string, bool) { return "", false },
		func(v any) string { return "res" })
	if !ok {
		o.infra = "state dump met a callback in a multipage history: " + dump
		return
	}
	sum := sha256.Sum256([]byte("multipage|" + m.canon() + "|" + dump))
	copy(o.key[:], sum[:16])

	// implicit end
	phase = "end"
	for _, pg := range m.pages {
		if pg.open {
			m.apply(MOp{K: "close", P: pg.seq}, c.MaxOpen)
			if err := pages[pg.seq].Close(); err != nil {
				o.fail("multipage:page-close-error", "implicit Close of page %d returned %v", pg.seq, err)
				return
			}
		}
	}
	want := make([]*mPage, len(m.order))
	for i, pg := range m.order {
		want[i] = &mPage{seq: pg.seq, api: 'P', attr: at(1, 0, 0, 0), mb: mpSizeName[pg.size]}
	}
	o.pages = len(want)
	err = doc.Close()
	if len(want) == 0 {
		if err == nil {
			o.fail("empty-tree-accepted", "MultiPage.Close of a document without pages returned no error")
		}
		o.rejected = true
		return
	}
	if err != nil {
		o.fail("multipage:doc-close-error", "MultiPage.Close returned %v for %d pages", err, len(want))
		return
	}

	phase = "read-back"
	data := buf.Bytes()
	rd, err := pdf.NewReader(bytes.NewReader(data), int64(len(data)), nil)
	if err != nil {
		o.fail("reopen-error", "pdf.NewReader: %v", err)
		return
	}
	defer rd.Close()
	verify(&o, &cachedReader{r: rd, m: map[pdf.Reference]pdf.Native{}}, want, nil)
	// name the family in the fingerprints
	for i := range o.fails {
		if !strings.HasPrefix(o.fails[i].fp, "panic:") && !strings.HasPrefix(o.fails[i].fp, "multipage:") {
			o.fails[i].fp = "multipage:" + o.fails[i].fp
		}
	}
	return
}

// searchMP executes every multipage history up to the bound, level by level
// (so that the first witness of a fingerprint has minimal length); histories
// with a failure are reported and not extended.
func (rn *runner) searchMP(p *mpProfile) map[string]any {
	r := rn.r
	t0 := time.Now()
	mk := func(h []MOp) Case {
		return Case{Profile: p.Name, Ver: p.Ver, MaxOpen: p.MaxOpen, Entry: p.Entry, MP: h}
	}
	seen := map[stateKey]struct{}{}
	o := rn.one(mk(nil))
	seen[o.key] = struct{}{}
	r.State(1)
	states, trans := int64(1), int64(0)
	frontier := [][]MOp{{}}
	var perLevel []string
	completed := 0
	for depth := 0; depth < p.MaxLen && len(frontier) > 0; depth++ {
		type res struct {
			h    []MOp
			key  stateKey
			keep bool
			triv bool
		}
		results := make([][]res, len(frontier))
		var levelTrans atomic.Int64
		r.Par(len(frontier), func(i int) {
			if r.Expired() || r.TooManyViolations() {
				return
			}
			h := frontier[i]
			m := &mpModel{}
			for _, op := range h {
				m.apply(op, p.MaxOpen)
			}
			ops := p.enabled(m)
			out := make([]res, 0, len(ops))
			for _, op := range ops {
				h2 := make([]MOp, len(h)+1)
				copy(h2, h)
				h2[len(h)] = op
				c := mk(h2)
				o := rn.one(c)
				r.Trans(1)
				levelTrans.Add(1)
				if r.WantSample() && len(h2) >= 5 && o.pages >= 2 {
					r.Sample(c)
				}
				// non-trivial: at least two pages
				out = append(out, res{h: h2, key: o.key, keep: len(o.fails) == 0 && o.infra == "", triv: o.pages < 2})
			}
			results[i] = out
		})
		trans += levelTrans.Load()
		if r.Expired() || r.TooManyViolations() {
			perLevel = append(perLevel, fmt.Sprintf("len=%d: incomplete (%d histories executed)", depth+1, levelTrans.Load()))
			break
		}
		var next [][]MOp
		newStates := 0
		for _, rs := range results {
			for _, s := range rs {
				if !s.keep {
					continue
				}
				next = append(next, s.h)
				if _, dup := seen[s.key]; dup {
					continue
				}
				seen[s.key] = struct{}{}
				states++
				newStates++
				r.State(1)
				if !s.triv {
					r.Distinct(s.key[:])
				}
			}
		}
		completed = depth + 1
		perLevel = append(perLevel, fmt.Sprintf("len=%d: %d histories executed, %d new states (none merged away)", depth+1, levelTrans.Load(), newStates))
		frontier = next
	}
	fmt.Printf("  [%s] states=%d transitions=%d completed_len=%d/%d wall=%.0fs\n", p.Name, states, trans, completed, p.MaxLen, time.Since(t0).Seconds())
	return map[string]any{
		"alphabet":             p.describe(),
		"states":               states,
		"transitions":          trans,
		"history_len_complete": completed,
		"history_len_bound":    p.MaxLen,
		"levels":               perLevel,
		"wall_s":               int(time.Since(t0).Seconds()),
	}
}

func mpProfiles(thorough bool) []*mpProfile {
	if !thorough {
		return []*mpProfile{
			// SetPageSize before/after content on up to two open pages
			{Name: "multipage", Ver: "1.7", Entry: "write", MaxLen: 7, MaxOpen: 2, Sizes: []int{1, 2}, Draw: true},
			// flushed and pending default-size pages around the fan-out
			{Name: "multipage-fill", Ver: "1.4", Entry: "add", MaxLen: 5, MaxOpen: 2, Sizes: []int{1, 2}, Fills: []int{15, 16}, MaxFills: 2},
		}
	}
	return []*mpProfile{
		{Name: "multipage", Ver: "1.7", Entry: "write", MaxLen: 8, MaxOpen: 2, Sizes: []int{1, 2}, Draw: true},
		{Name: "multipage-open3", Ver: "1.4", Entry: "add", MaxLen: 8, MaxOpen: 3, Sizes: []int{1}},
		{Name: "multipage-fill", Ver: "1.4", Entry: "add", MaxLen: 6, MaxOpen: 2, Sizes: []int{1, 2}, Fills: []int{14, 15, 16, 17}, MaxFills: 2},
		{Name: "multipage-fill-write", Ver: "1.7", Entry: "write", MaxLen: 5, MaxOpen: 2, Sizes: []int{1, 2}, Fills: []int{15, 16}, MaxFills: 2},
	}
}
