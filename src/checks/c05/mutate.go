//go:build verif

package c05

import (
	"bytes"
	"encoding/hex"
	"fmt"
	"os"
	"sort"
	"strings"

	"seehuhn.de/go/pdf/zzverif/checks/c08"
	"seehuhn.de/go/pdf/zzverif/ref/pdffile"
	"seehuhn.de/go/pdf/zzverif/ref/pdfsyn"
)

// The mutation menu.  Every mutant is one deviation from a seed (the pair
// spaces of the thorough tier: two).

var intMenu = []string{
	"0", "1", "-1", "255", "256", "65535", "65536", "16777215", "16777216",
	"2147483647", "2147483648", "9223372036854775807", "123456789012345678901234567890",
}

// the 24 structural names every name token is replaced by
var nameMenu = []string{
	"Type", "Pages", "Page", "Kids", "Parent", "Count", "Length", "Filter",
	"FlateDecode", "DecodeParms", "Prev", "Size", "Root", "W", "Index", "N",
	"First", "Next", "Contents", "Resources", "Font", "XRef", "ObjStm", "Encrypt",
}

// keys whose integer / reference values form the structural subset of the pair space
var structKeys = map[string]bool{
	"Kids": true, "Parent": true, "Count": true, "Length": true, "Prev": true, "Size": true, "Root": true,
	"W": true, "Index": true, "N": true, "First": true, "Next": true, "Last": true, "Contents": true,
	"Resources": true, "Pages": true, "Outlines": true, "FontFile": true, "FontFile2": true, "FontFile3": true,
	"FontDescriptor": true, "DescendantFonts": true, "ToUnicode": true, "Length1": true, "Columns": true,
	"Predictor": true, "Dests": true, "Names": true, "Metadata": true, "Info": true, "Encrypt": true, "Extends": true,
	"Widths": true, "Encoding": true, "CIDSystemInfo": true, "CIDToGIDMap": true, "Font": true, "F1": true, "F2": true,
}

// linkKeys are the keys whose reference values hold the recursive structures
// of a document together (outline, page tree, name tree).  The pair space
// "pair-ll" rewires every two of these sites to every node of those
// structures.
var linkKeys = map[string]bool{"Kids": true, "Parent": true, "First": true, "Last": true, "Next": true, "Prev": true, "Outlines": true, "Pages": true, "Dests": true}

var pairIntMenu = []string{"0", "1", "-1", "65536", "2147483648", "9223372036854775807", "123456789012345678901234567890"}

// nRefT is the number of reference targets of the pair space: the enclosing
// object, the page tree root, the catalog, the first stream, the last object,
// a missing object.
const nRefT = 6

var regionBytes = []byte{0x00, ' ', '0', '9', 0xFF}

type site struct {
	layer int
	tok   int
}

type streamWin struct {
	obj  int
	pos  []int // offsets into the raw body (first 48 and last 16)
	dec  []byte
	dpos []int // offsets into the decoded body, nil if the stream cannot be re-encoded
}

// seedSpace is everything that can be mutated in one seed.
type seedSpace struct {
	m        *model
	ints     []site
	refs     []site
	names    []site
	toks     []site
	targets  []int  // reference targets: every object number, then a missing one
	region   []site // layer, byte offset (tok field) of the xref/trailer region
	streams  []streamWin
	strunc   [][2]int // stream index, length
	nobj     int
	structI  [][]site // structural subset: integer sites, per layer
	structR  [][]site // structural subset: reference sites, per layer
	pairRefT []int
	linkR    [][]site // reference sites under linkKeys, per layer
	linkT    []int    // object numbers of the nodes of the linked structures (objects holding or receiving such a reference)
	strs     []site   // string tokens of the file layer (each is encrypted on its own in an encrypted file)
	regInts  []site   // integer tokens of the cross-reference / trailer region (layer 0)
	regRefs  []site   // references in that region
}

// strLenMenu: the length of a string changed (in an encrypted file the string
// is a ciphertext: an IV plus whole cipher blocks for AES).
type strLenMut struct {
	name  string
	apply func(b []byte) ([]byte, bool)
}

func cutTo(n int) func(b []byte) ([]byte, bool) {
	return func(b []byte) ([]byte, bool) {
		if len(b) <= n {
			return nil, false
		}
		return b[:n], true
	}
}

var strLenMenu = []strLenMut{
	{"last byte dropped", func(b []byte) ([]byte, bool) { return b[:max(len(b)-1, 0)], len(b) > 0 }},
	{"first byte dropped", func(b []byte) ([]byte, bool) { return b[min(1, len(b)):], len(b) > 0 }},
	{"one byte appended", func(b []byte) ([]byte, bool) { return append(append([]byte{}, b...), 0x41), true }},
	{"15 bytes appended", func(b []byte) ([]byte, bool) { return append(append([]byte{}, b...), bytes.Repeat([]byte{0x41}, 15)...), true }},
	{"cut to 0 bytes", cutTo(0)}, {"cut to 1 byte", cutTo(1)}, {"cut to 15 bytes", cutTo(15)}, {"cut to 16 bytes", cutTo(16)}, {"cut to 17 bytes", cutTo(17)},
	{"cut to 31 bytes", cutTo(31)}, {"cut to 32 bytes", cutTo(32)}, {"cut to 33 bytes", cutTo(33)},
}

// group is a contiguous range of case indices.
type group struct {
	seed  int
	kind  string
	n     int
	layer int // pair groups: both sites lie in this layer
}

type table struct {
	seeds  []*Seed
	spaces []*seedSpace
	groups []group
	starts []int
	total  int
	dims   map[string]any

	chainLen int // filter chains of length 1..chainLen

	// xrefcraft.go
	xg           *xrefGroups
	xrefRefStart []int
	pfxCraft     []craftCase

	// lengthwire.go
	lenWires []lenWire

	// formcraft.go
	formCases []formCase

	// LZW table-state bodies (generator shared with C08)
	lzwStates []c08.LZWStateCase
}

// Mut identifies a mutant (JSON-able; informational in replays, the mutated file itself is stored too).
type Mut struct {
	Seed  string `json:"seed"`
	Kind  string `json:"kind"`
	Index int    `json:"index_in_group"`
	Desc  string `json:"desc"`
}

func newSeedSpace(m *model) *seedSpace {
	sp := &seedSpace{m: m}
	for li, l := range m.layers {
		for i, t := range l.toks {
			sp.toks = append(sp.toks, site{li, i})
			switch t.kind {
			case tString:
				if li == 0 {
					sp.strs = append(sp.strs, site{li, i})
				}
			case tInt:
				sp.ints = append(sp.ints, site{li, i})
				if l.isRef(i) {
					sp.refs = append(sp.refs, site{li, i})
				}
			case tName:
				sp.names = append(sp.names, site{li, i})
			}
		}
	}
	for n := 1; n < m.size; n++ {
		sp.targets = append(sp.targets, n)
	}
	sp.targets = append(sp.targets, m.size+5)
	sp.nobj = len(m.objs)

	// xref / trailer region
	f := m.file()
	if m.classic {
		for p := m.xrefPos; p < len(f.text); p++ {
			sp.region = append(sp.region, site{0, p})
		}
	} else {
		xo := m.objs[m.xrefObj]
		for p := xo.off; p < len(f.text); p++ {
			if p >= xo.rawA && p < xo.rawB {
				continue
			}
			sp.region = append(sp.region, site{0, p})
		}
		for p := range m.layers[xo.container].text {
			sp.region = append(sp.region, site{xo.container, p})
		}
	}

	// streams
	win := func(n int) []int {
		var pos []int
		for i := 0; i < n && i < 48; i++ {
			pos = append(pos, i)
		}
		for i := max(n-16, 48); i < n; i++ {
			pos = append(pos, i)
		}
		return pos
	}
	for oi, o := range m.objs {
		if o.inLayer != 0 || o.streamKw < 0 {
			continue
		}
		sw := streamWin{obj: oi, pos: win(o.rawB - o.rawA)}
		if o.container == 0 && o.lenTokOrIndirect(m) {
			fv := f.dictValue(o.objKw, o.streamKw, "Filter")
			if fv >= 0 && f.name(fv) == "FlateDecode" && f.dictValue(o.objKw, o.streamKw, "DecodeParms") < 0 {
				if dec, err := m.decodePlainStream(o); err == nil {
					sw.dec = dec
					sw.dpos = win(len(dec))
				}
			}
		}
		si := len(sp.streams)
		sp.streams = append(sp.streams, sw)
		for _, n := range sw.pos {
			sp.strunc = append(sp.strunc, [2]int{si, n})
		}
	}

	// structural subset for the pair space (layer 0 and object stream layers)
	sp.structI = make([][]site, len(m.layers))
	sp.structR = make([][]site, len(m.layers))
	sp.linkR = make([][]site, len(m.layers))
	linkNodes := map[int]bool{}
	for li, l := range m.layers {
		for i := range l.toks {
			if l.toks[i].kind != tName || !structKeys[l.name(i)] || i+1 >= len(l.toks) {
				continue
			}
			isLink := linkKeys[l.name(i)]
			add := func(j int) {
				if l.isRef(j) {
					sp.structR[li] = append(sp.structR[li], site{li, j})
					if isLink {
						sp.linkR[li] = append(sp.linkR[li], site{li, j})
						linkNodes[int(l.toks[j].ival)] = true
						if self := sp.selfNum(site{li, j}); self > 0 {
							linkNodes[self] = true
						}
					}
				} else if l.toks[j].kind == tInt && !(j >= 1 && l.isRef(j-1)) {
					sp.structI[li] = append(sp.structI[li], site{li, j})
				}
			}
			if l.toks[i+1].kind == tOpen && l.text[l.toks[i+1].a] == '[' {
				depth := 0
				for j := i + 1; j < len(l.toks); j++ {
					if l.toks[j].kind == tOpen {
						depth++
					} else if l.toks[j].kind == tClose {
						if depth--; depth == 0 {
							break
						}
					} else if depth == 1 {
						add(j)
					}
				}
			} else {
				add(i + 1)
			}
		}
	}
	// pair targets: the page tree root, the catalog, the first stream, the last object, a missing object ("itself" is added per site)
	root, pages := 1, 1
	for i := range f.toks {
		switch f.name(i) {
		case "Root":
			if f.isRef(i + 1) {
				root = int(f.toks[i+1].ival)
			}
		}
	}
	for _, l := range m.layers {
		for i := range l.toks {
			if l.name(i) == "Pages" && l.isRef(i+1) {
				pages = int(l.toks[i+1].ival)
			}
		}
	}
	firstStream := 1
	for _, o := range m.objs {
		if o.streamKw >= 0 && o.container == 0 {
			firstStream = o.num
			break
		}
	}
	sp.pairRefT = []int{pages, root, firstStream, m.size - 1, m.size + 5}
	for n := range linkNodes {
		sp.linkT = append(sp.linkT, n)
	}
	sort.Ints(sp.linkT)
	return sp
}

// lenTokOrIndirect reports whether the stream's /Length can be patched.
func (o *sobj) lenTokOrIndirect(m *model) bool {
	if o.lenTok >= 0 {
		return true
	}
	return m.indirectLenTok(o) >= 0
}

// indirectLenTok returns the layer-0 token of the integer object an indirect /Length points to.
func (m *model) indirectLenTok(o *sobj) int {
	f := m.file()
	v := f.dictValue(o.objKw, o.streamKw, "Length")
	if v < 0 || !f.isRef(v) {
		return -1
	}
	ti, ok := m.byNum[int(f.toks[v].ival)]
	if !ok || m.objs[ti].inLayer != 0 {
		return -1
	}
	t := m.objs[ti].objKw + 1
	if f.toks[t].kind != tInt || t+1 != m.objs[ti].endKw {
		return -1
	}
	return t
}

func (m *model) lengthEdit(o *sobj, n int) (edit, bool) {
	f := m.file()
	ti := o.lenTok
	if ti < 0 {
		ti = m.indirectLenTok(o)
	}
	if ti < 0 {
		return edit{}, false
	}
	return edit{f.toks[ti].a, f.toks[ti].b, itoa(n)}, true
}

func (m *model) decodePlainStream(o *sobj) ([]byte, error) {
	raw := m.data[o.rawA:o.rawB]
	if m.h != nil {
		var err error
		raw, err = m.h.DecryptStream(o.num, o.gen, raw)
		if err != nil {
			return nil, err
		}
	}
	return inflate(raw)
}

func (m *model) encodePlainStream(o *sobj, dec []byte) ([]byte, error) {
	enc := deflate(dec)
	if m.h != nil {
		return m.h.EncryptStream(o.num, o.gen, enc)
	}
	return enc, nil
}

func pairCount(n int) int { return n * (n - 1) / 2 }

func buildTable(seeds []*Seed, thorough bool) (*table, error) {
	t := &table{seeds: seeds, dims: map[string]any{}}
	var names []string
	var sizes []int
	// crafted hostile structures (crafted.go): not mutations, no seed
	for st, cs := range craftStructs {
		t.groups = append(t.groups, group{seed: -1, kind: "craft-" + cs.name, n: len(craftCases(st)), layer: st})
	}
	t.chainLen = 3
	if thorough {
		t.chainLen = 4
	}
	t.groups = append(t.groups, group{seed: -1, kind: "craft-filters", n: chainCount(t.chainLen) * len(chainPayloadNames)})
	// one LZWDecode stream per table-state body around the full code table
	t.lzwStates = c08.LZWStateCases(!thorough)
	t.groups = append(t.groups, group{seed: -1, kind: "craft-lzwstate", n: len(t.lzwStates)})
	t.dims["lzw_state_streams"] = fmt.Sprintf("%d documents with one LZWDecode image stream: C08's table-state bodies (clear + N filler codes around the full table%s + every tail of length <= 4 (literal filler) / <= 3 (kwkwk filler) over {top code, top-1, clear, EOD, literal}, both EarlyChange values)", len(t.lzwStates), map[bool]string{false: "", true: " and around every code-width boundary"}[thorough])
	// crafted /Length wirings (lengthwire.go)
	t.lenWires = lenWireCases(thorough)
	t.groups = append(t.groups, group{seed: -1, kind: "len-wire", n: len(t.lenWires)})
	t.dims["length_wiring_targets"] = append(append([]string{}, lwTargetNames...), "node j (any j, itself included)")
	t.dims["length_wiring_places"] = lwPlaceNames
	t.dims["length_wiring_space"] = "holders S1, S2 (object streams) and n stream nodes; every assignment for n = 1; n = 2: every assignment of the nodes and of S1 (thorough: and of S2); thorough n = 3: every assignment of the nodes (object streams direct)"
	// crafted catalog-level shared structure: the interactive form (formcraft.go)
	t.formCases = formCases(thorough)
	t.groups = append(t.groups, group{seed: -1, kind: "craft-form", n: len(t.formCases)})
	var fvn []string
	for _, v := range formValues {
		n := v.name
		if v.indirectOnly {
			n += " (indirect only)"
		}
		fvn = append(fvn, n)
	}
	t.dims["form_acroform_values"] = append([]string{"no /AcroForm entry"}, fvn...)
	t.dims["form_acroform_indirection"] = []string{"direct in the catalog", "reference"}
	t.dims["form_page_annotation_kinds"] = formAnnotKinds
	t.dims["form_pages"] = fmt.Sprintf("1..%d pages, every assignment of an annotation kind to every page", formMaxPages(thorough))
	t.dims["form_widget_flavours"] = formFlavours
	// crafted cross-reference level structures (xrefcraft.go); cheap, and early in the
	// table so that a capped run on a slow machine has still explored them
	if err := t.addXrefCrafted(thorough); err != nil {
		return nil, err
	}
	for si, s := range seeds {
		m, err := buildModel(s)
		if err != nil {
			return nil, err
		}
		sp := newSeedSpace(m)
		t.spaces = append(t.spaces, sp)
		names = append(names, s.Name)
		sizes = append(sizes, len(s.Data))
		add := func(kind string, n int) {
			if n > 0 {
				t.groups = append(t.groups, group{seed: si, kind: kind, n: n})
			}
		}
		add("plain", 1)
		add("int", len(sp.ints)*len(intMenu))
		add("ref", len(sp.refs)*len(sp.targets))
		add("name", len(sp.names)*len(nameMenu))
		add("strlen", len(sp.strs)*len(strLenMenu))
		add("tokdel", len(sp.toks))
		add("tokdup", len(sp.toks))
		add("tokswap", len(sp.toks))
		add("trunc", len(s.Data))
		add("xbyte", len(sp.region)*len(regionBytes))
		nb, nd := 0, 0
		for _, sw := range sp.streams {
			nb += len(sw.pos)
			nd += len(sw.dpos)
		}
		add("sbyte", nb*4)
		add("sdec", nd*4)
		add("strunc", len(sp.strunc)*2)
		add("splice", sp.nobj*sp.nobj)
		if thorough || si == 0 {
			// all pairs of link rewirings among the nodes of the outline / page tree / name tree
			// (quick: first seed only)
			for li := range m.layers {
				if n := pairCount(len(sp.linkR[li])) * len(sp.linkT) * len(sp.linkT); n > 0 {
					t.groups = append(t.groups, group{seed: si, kind: "pair-ll", n: n, layer: li})
				}
			}
		}
		if thorough {
			nm := len(pairIntMenu)
			for li := range m.layers {
				for _, kn := range []struct {
					kind string
					n    int
				}{
					{"pair-ii", pairCount(len(sp.structI[li])) * nm * nm},
					{"pair-rr", pairCount(len(sp.structR[li])) * nRefT * nRefT},
					{"pair-ir", len(sp.structI[li]) * len(sp.structR[li]) * nm * nRefT},
				} {
					if kn.n > 0 {
						t.groups = append(t.groups, group{seed: si, kind: kn.kind, n: kn.n, layer: li})
					}
				}
			}
		}
	}
	// bytes before the header (xrefcraft.go)
	t.addPrefixGroups(thorough)
	if only := os.Getenv("C05_ONLY"); only != "" {
		var keep []group
		for _, g := range t.groups {
			if strings.HasPrefix(g.kind, only) {
				keep = append(keep, g)
			}
		}
		t.groups = keep
	}
	t.starts = make([]int, len(t.groups))
	per := map[string]int{}
	for i, g := range t.groups {
		t.starts[i] = t.total
		t.total += g.n
		per[g.kind] += g.n
	}
	t.dims["seeds"] = names
	t.dims["seed_bytes"] = sizes
	t.dims["int_menu"] = intMenu
	t.dims["name_menu"] = nameMenu
	t.dims["region_byte_menu"] = []string{"00", "20", "30", "39", "FF"}
	t.dims["stream_byte_menu"] = []string{"00", "FF", "bit0 flipped", "bit7 flipped"}
	var kinds []string
	for k := range per {
		kinds = append(kinds, k)
	}
	sort.Strings(kinds)
	var ks []string
	for _, k := range kinds {
		ks = append(ks, fmt.Sprintf("%s=%d", k, per[k]))
	}
	t.dims["mutants_by_kind"] = ks
	var sites []string
	for i, sp := range t.spaces {
		sites = append(sites, fmt.Sprintf("%s: tokens=%d ints=%d refs=%d names=%d objects=%d streams=%d region_bytes=%d struct_int=%d struct_ref=%d layers=%d",
			seeds[i].Name, len(sp.toks), len(sp.ints), len(sp.refs), len(sp.names), sp.nobj, len(sp.streams), len(sp.region), count2(sp.structI), count2(sp.structR), len(sp.m.layers)))
	}
	t.dims["sites_per_seed"] = sites
	var lsites []string
	for i, sp := range t.spaces {
		if thorough || i == 0 {
			lsites = append(lsites, fmt.Sprintf("%s: link_sites=%d link_targets=%d", seeds[i].Name, count2(sp.linkR), len(sp.linkT)))
		}
	}
	t.dims["pair_ll_sites"] = lsites
	var cs []string
	for st, s := range craftStructs {
		cs = append(cs, fmt.Sprintf("%s: slots=%d cases=%d", s.name, s.slots, len(craftCases(st))))
	}
	t.dims["crafted_structures"] = cs
	t.dims["crafted_link_targets"] = linkTargets
	t.dims["crafted_sizes"] = craftSmall
	t.dims["crafted_sizes_large_at_most_one_forward_slot"] = craftLarge
	t.dims["crafted_nest_variants"] = craftStructs[len(craftStructs)-1].vars
	t.dims["filter_chain_alphabet"] = filterNames
	t.dims["filter_chain_max_length"] = t.chainLen
	t.dims["filter_chain_payloads"] = chainPayloadNames
	t.dims["filter_chains"] = chainCount(t.chainLen)
	return t, nil
}

func (t *table) locate(idx int) (group, int) {
	gi := sort.Search(len(t.starts), func(i int) bool { return t.starts[i] > idx }) - 1
	return t.groups[gi], idx - t.starts[gi]
}

func (l *layer) tokText(i int) []byte { return l.text[l.toks[i].a:l.toks[i].b] }

// selfNum returns the number of the object that encloses token s.
func (sp *seedSpace) selfNum(s site) int {
	m := sp.m
	l := m.layers[s.layer]
	oi := l.toks[s.tok].obj
	if oi < 0 {
		return 0
	}
	if s.layer == 0 {
		return m.objs[oi].num
	}
	return l.members[oi].num
}

func unpair(k, n int) (int, int) {
	// k-th pair (i<j) of n items in lexicographic order
	for i := 0; i < n; i++ {
		c := n - 1 - i
		if k < c {
			return i, i + 1 + k
		}
		k -= c
	}
	return 0, 1
}

// mutant builds case idx: the mutated file and its description.  ok=false
// means the mutation is the identity at that site (counted as trivial).
func (t *table) mutant(idx int) (data []byte, mu Mut, trivial bool, err error) {
	g, k := t.locate(idx)
	if g.seed < 0 {
		if strings.HasPrefix(g.kind, "xref-") || g.kind == "pfx-craft" {
			return t.xrefCrafted(g, k)
		}
		if g.kind == "craft-lzwstate" {
			c := t.lzwStates[k]
			return buildLZWStateFile(c.EarlyChange, c.Body()), Mut{Seed: "crafted", Kind: g.kind, Index: k, Desc: "crafted: " + c.String()}, false, nil
		}
		if g.kind == "craft-form" {
			c := t.formCases[k]
			return c.build(), Mut{Seed: "crafted", Kind: g.kind, Index: k, Desc: "crafted: " + c.String()}, false, nil
		}
		if g.kind == "len-wire" {
			c := t.lenWires[k]
			return c.build(), Mut{Seed: "crafted", Kind: g.kind, Index: k, Desc: "crafted: " + c.String()}, false, nil
		}
		return t.crafted(g, k)
	}
	if strings.HasPrefix(g.kind, "pfx-") {
		return t.pfxMutant(g, k)
	}
	sp := t.spaces[g.seed]
	m := sp.m
	mu = Mut{Seed: t.seeds[g.seed].Name, Kind: g.kind, Index: k}
	tokEdit := func(s site, repl []byte) (int, []edit) {
		tk := m.layers[s.layer].toks[s.tok]
		return s.layer, []edit{{tk.a, tk.b, repl}}
	}
	ctx := func(s site) string {
		l := m.layers[s.layer]
		a := l.toks[s.tok].a
		return fmt.Sprintf("layer %d (%s) offset %d object %d %q", s.layer, l.kind, a, sp.selfNum(s), clipB(l.text[max(a-24, 0):min(l.toks[s.tok].b+8, len(l.text))], 60))
	}
	var li int
	var es []edit
	fix := true
	switch g.kind {
	case "plain":
		return m.data, mu, true, nil
	case "int":
		s, v := sp.ints[k/len(intMenu)], intMenu[k%len(intMenu)]
		if string(m.layers[s.layer].tokText(s.tok)) == v {
			trivial = true
		}
		li, es = tokEdit(s, []byte(v))
		mu.Desc = fmt.Sprintf("integer -> %s at %s", v, ctx(s))
	case "ref":
		s, v := sp.refs[k/len(sp.targets)], sp.targets[k%len(sp.targets)]
		if int(m.layers[s.layer].toks[s.tok].ival) == v {
			trivial = true
		}
		li, es = tokEdit(s, itoa(v))
		rel := ""
		if v == sp.selfNum(s) {
			rel = " (the enclosing object)"
		} else if v >= m.size {
			rel = " (missing)"
		}
		mu.Desc = fmt.Sprintf("reference -> %d 0 R%s at %s", v, rel, ctx(s))
	case "name":
		s, v := sp.names[k/len(nameMenu)], nameMenu[k%len(nameMenu)]
		if m.layers[s.layer].name(s.tok) == v {
			trivial = true
		}
		li, es = tokEdit(s, []byte("/"+v))
		mu.Desc = fmt.Sprintf("name -> /%s at %s", v, ctx(s))
	case "strlen":
		s, v := sp.strs[k/len(strLenMenu)], strLenMenu[k%len(strLenMenu)]
		l := m.layers[s.layer]
		val, err := pdfsyn.NewParser(l.tokText(s.tok)).Object()
		if err != nil || val.K != pdfsyn.String {
			return m.data, mu, true, nil
		}
		raw, ok := v.apply(val.S)
		if !ok {
			return m.data, mu, true, nil
		}
		li, es = tokEdit(s, []byte("<"+hex.EncodeToString(raw)+">"))
		mu.Desc = fmt.Sprintf("string of %d bytes -> %s (%d bytes) at %s", len(val.S), v.name, len(raw), ctx(s))
	case "tokdel":
		s := sp.toks[k]
		li, es = tokEdit(s, nil)
		mu.Desc = "token deleted at " + ctx(s)
	case "tokdup":
		s := sp.toks[k]
		l := m.layers[s.layer]
		li = s.layer
		es = []edit{{l.toks[s.tok].b, l.toks[s.tok].b, append([]byte{' '}, l.tokText(s.tok)...)}}
		mu.Desc = "token duplicated at " + ctx(s)
	case "tokswap":
		s := sp.toks[k]
		l := m.layers[s.layer]
		if s.tok+1 >= len(l.toks) || bytes.Equal(l.tokText(s.tok), l.tokText(s.tok+1)) {
			return m.data, mu, true, nil
		}
		li = s.layer
		a, b := l.toks[s.tok], l.toks[s.tok+1]
		es = []edit{{a.a, a.b, append([]byte{}, l.tokText(s.tok+1)...)}, {b.a, b.b, append([]byte{}, l.tokText(s.tok)...)}}
		mu.Desc = "token swapped with the next one at " + ctx(s)
	case "trunc":
		mu.Desc = fmt.Sprintf("file truncated to %d of %d bytes", k, len(m.data))
		return m.data[:k:k], mu, false, nil
	case "xbyte":
		s, v := sp.region[k/len(regionBytes)], regionBytes[k%len(regionBytes)]
		l := m.layers[s.layer]
		if l.text[s.tok] == v {
			trivial = true
		}
		li, es, fix = s.layer, []edit{{s.tok, s.tok + 1, []byte{v}}}, false
		mu.Desc = fmt.Sprintf("xref/trailer region byte %d of layer %d (%s) %#02x -> %#02x", s.tok, s.layer, l.kind, l.text[s.tok], v)
	case "sbyte", "sdec":
		var sw *streamWin
		var p int
		q := k / 4
		for i := range sp.streams {
			n := len(sp.streams[i].pos)
			if g.kind == "sdec" {
				n = len(sp.streams[i].dpos)
			}
			if q < n {
				sw = &sp.streams[i]
				if g.kind == "sdec" {
					p = sw.dpos[q]
				} else {
					p = sw.pos[q]
				}
				break
			}
			q -= n
		}
		o := m.objs[sw.obj]
		var old byte
		if g.kind == "sdec" {
			old = sw.dec[p]
		} else {
			old = m.data[o.rawA+p]
		}
		nv := [4]byte{0x00, 0xFF, old ^ 1, old ^ 0x80}[k%4]
		if nv == old {
			trivial = true
		}
		if g.kind == "sbyte" {
			li, es, fix = 0, []edit{{o.rawA + p, o.rawA + p + 1, []byte{nv}}}, false
			mu.Desc = fmt.Sprintf("raw body byte %d of %d of stream %d: %#02x -> %#02x", p, o.rawB-o.rawA, o.num, old, nv)
		} else {
			dec := append([]byte{}, sw.dec...)
			dec[p] = nv
			enc, err := m.encodePlainStream(o, dec)
			if err != nil {
				return nil, mu, false, err
			}
			es = []edit{{o.rawA, o.rawB, enc}}
			if len(enc) != o.rawB-o.rawA {
				le, _ := m.lengthEdit(o, len(enc))
				es = append(es, le)
			}
			mu.Desc = fmt.Sprintf("decoded body byte %d of %d of stream %d: %#02x -> %#02x (re-encoded, /Length adjusted)", p, len(sw.dec), o.num, old, nv)
		}
	case "strunc":
		st := sp.strunc[k/2]
		sw := &sp.streams[st[0]]
		o := m.objs[sw.obj]
		es = []edit{{o.rawA + st[1], o.rawB, nil}}
		if k%2 == 0 {
			le, ok := m.lengthEdit(o, st[1])
			if !ok {
				return m.data, mu, true, nil
			}
			es = append(es, le)
			mu.Desc = fmt.Sprintf("body of stream %d cut to %d of %d bytes, /Length adjusted", o.num, st[1], o.rawB-o.rawA)
		} else {
			mu.Desc = fmt.Sprintf("body of stream %d cut to %d of %d bytes, /Length kept", o.num, st[1], o.rawB-o.rawA)
		}
	case "splice":
		i, j := k/sp.nobj, k%sp.nobj
		if i == j {
			return m.data, mu, true, nil
		}
		src := m.body(i)
		oj := m.objs[j]
		if oj.inLayer != 0 {
			li = oj.inLayer
			es = []edit{{oj.off, oj.end, append(bytes.TrimSpace(src), '\n')}}
		} else {
			f := m.file()
			if m.objs[i].inLayer != 0 {
				src = append(append([]byte{'\n'}, src...), '\n')
			}
			es = []edit{{f.toks[oj.objKw].b, f.toks[oj.endKw].a, append([]byte{}, src...)}}
		}
		mu.Desc = fmt.Sprintf("body of object %d spliced into object %d", m.objs[i].num, oj.num)
	case "pair-ll":
		sL := sp.linkR[g.layer]
		nt := len(sp.linkT)
		a, b := unpair(k/(nt*nt), len(sL))
		s1, s2 := sL[a], sL[b]
		t1, t2 := sp.linkT[k/nt%nt], sp.linkT[k%nt]
		l := m.layers[g.layer]
		if int(l.toks[s1.tok].ival) == t1 && int(l.toks[s2.tok].ival) == t2 {
			trivial = true
		}
		mu.Desc = fmt.Sprintf("link pair: -> %d 0 R at %s; -> %d 0 R at %s", t1, ctx(s1), t2, ctx(s2))
		li = g.layer
		es = []edit{{l.toks[s1.tok].a, l.toks[s1.tok].b, itoa(t1)}, {l.toks[s2.tok].a, l.toks[s2.tok].b, itoa(t2)}}
	case "pair-ii", "pair-rr", "pair-ir":
		var s1, s2 site
		var v1, v2 []byte
		var d1, d2 string
		sI, sR := sp.structI[g.layer], sp.structR[g.layer]
		refVal := func(s site, c int) ([]byte, string) {
			if c == 0 {
				return itoa(sp.selfNum(s)), "itself"
			}
			return itoa(sp.pairRefT[c-1]), fmt.Sprint(sp.pairRefT[c-1])
		}
		switch g.kind {
		case "pair-ii":
			nm := len(pairIntMenu)
			a, b := unpair(k/(nm*nm), len(sI))
			s1, s2 = sI[a], sI[b]
			d1, d2 = pairIntMenu[k/nm%nm], pairIntMenu[k%nm]
			v1, v2 = []byte(d1), []byte(d2)
		case "pair-rr":
			a, b := unpair(k/(nRefT*nRefT), len(sR))
			s1, s2 = sR[a], sR[b]
			v1, d1 = refVal(s1, k/nRefT%nRefT)
			v2, d2 = refVal(s2, k%nRefT)
		default:
			nm := len(pairIntMenu)
			q := k / (nm * nRefT)
			s1, s2 = sI[q/len(sR)], sR[q%len(sR)]
			d1 = pairIntMenu[k/nRefT%nm]
			v1 = []byte(d1)
			v2, d2 = refVal(s2, k%nRefT)
		}
		mu.Desc = fmt.Sprintf("pair: -> %s at %s; -> %s at %s", d1, ctx(s1), d2, ctx(s2))
		li = s1.layer
		l := m.layers[li]
		es = []edit{{l.toks[s1.tok].a, l.toks[s1.tok].b, v1}, {l.toks[s2.tok].a, l.toks[s2.tok].b, v2}}
	default:
		return nil, mu, false, fmt.Errorf("unknown group %q", g.kind)
	}
	out, err := m.build(li, es, fix)
	if err != nil {
		return nil, mu, false, err
	}
	if !trivial && bytes.Equal(out, m.data) {
		trivial = true
	}
	return out, mu, trivial, nil
}

// crafted builds case k of a crafted group.
func (t *table) crafted(g group, k int) ([]byte, Mut, bool, error) {
	mu := Mut{Seed: "crafted", Kind: g.kind, Index: k}
	if g.kind == "craft-filters" {
		pl, err := chainPayloads()
		if err != nil {
			return nil, mu, false, err
		}
		chain := chainAt(k / len(pl))
		p := k % len(pl)
		mu.Desc = fmt.Sprintf("crafted: stream with /Filter [%s] over a body whose first layer decodes to the %s payload", strings.Join(chain, " "), chainPayloadNames[p])
		return buildChainFile(chain, pl[p]), mu, false, nil
	}
	cs := craftCases(g.layer)
	if k >= len(cs) {
		return nil, mu, false, fmt.Errorf("crafted case %d out of range", k)
	}
	mu.Desc = "crafted: " + cs[k].String()
	return cs[k].build(), mu, false, nil
}

func count2(x [][]site) int {
	n := 0
	for _, y := range x {
		n += len(y)
	}
	return n
}

func inflate(raw []byte) ([]byte, error) { return pdffile.Inflate(raw) }

func clipB(b []byte, n int) string {
	if len(b) > n {
		b = b[:n]
	}
	return string(b)
}
