//go:build verif

package c05

import (
	"bytes"
	"fmt"
	"regexp"
	"strconv"
	"strings"
	"sync"

	"seehuhn.de/go/pdf/zzverif/ref/pdffile"
	"seehuhn.de/go/pdf/zzverif/ref/pdfsyn"
)

// Cross-reference level structures and bytes before the header.
//
// The Writer-built seeds have one cross-reference section and start with the
// %PDF- header, and the crafted structures of crafted.go live inside the
// document.  Two families close that gap:
//
// (1) Prefix: every seed, every crafted structure and every mutation of an
// integer or reference token in the cross-reference / trailer region of a seed
// is also walked with 1, 7 and 1000 bytes of junk in front of the header.
// The mutated file is built as before and the junk is put in front of it;
// all offsets in a PDF file count from the '%' of the header, so what follows
// the junk is the same valid (or singly mutated) file, exactly what the
// library's Writer output becomes when something is prepended to it.
//
// (2) Crafted cross-reference structures, serialised by ref/pdffile.Write
// (revisions of kind table / xref stream / hybrid, object streams, the Prefix
// knob): files with n = 1..8 cross-reference sections in which
//   - "xref-prev": the /Prev entry of every section is wired by a link pattern
//     out of {the next newer section, the section itself, the oldest section,
//     the previous section (= the valid chain), absent, an offset beyond the
//     end of the file}, every assignment per section for small n, uniform and
//     one-deviant assignments for large n, for several kind vectors;
//   - "xref-stm": the /XRefStm entry of every hybrid section is wired to {its
//     own stream (valid), its own table, the previous section, the stream of
//     the nearest older hybrid section, the next newer section, beyond the end
//     of the file, absent};
//   - "xref-int" / "xref-ref": every integer token (table entries, subsection
//     headers, /Size /W /Index /Length /Prev /XRefStm, startxref, the object
//     header of a cross-reference stream) and every reference (/Root) of every
//     section of a valid multi-revision file is replaced by every value of the
//     integer menu / every object number.
// each for 0, 1 and 1000 bytes before the header.
//
// Write always produces the valid /Prev chain; the hostile values are patched
// in afterwards WITHOUT moving a byte: the documents are laid out so that every
// section offset has four digits (a 1000-byte content stream in the first
// revision; files stay below 9999 bytes), a link is a four-digit number
// overwritten by another, "absent" renames the key (/Prev -> /Xrev), and the
// integer menu is compensated by growing or shrinking a /Pad string in the
// same trailer / stream dictionary, so nothing that an offset refers to moves.

var (
	xrefPrefixes = []int{0, 1, 1000} // crafted cross-reference structures
	seedPrefixes = []int{1, 7, 1000} // seeds, crafted structures and their xref-region mutations
)

// junk is the bytes put in front of a file (the same text ref/pdffile uses
// for its Prefix knob; it does not contain "%PDF-").
func junk(n int) []byte {
	b := make([]byte, n)
	for i := range b {
		b[i] = "junk before the header \n"[i%24]
	}
	return b
}

func withPrefix(n int, data []byte) []byte {
	return append(junk(n), data...)
}

var xKindNames = []string{"table", "stream", "hybrid"}

const (
	kTable = iota
	kStream
	kHybrid
)

// /Prev link targets
var prevTargets = []string{"next", "self", "first", "previous", "absent", "beyond-eof"}

const (
	pNext = iota
	pSelf
	pFirst
	pPrevious
	pAbsent
	pBeyond
)

// /XRefStm link targets
var stmTargets = []string{"own-stream", "own-table", "previous-section", "older-hybrid-stream", "next-section", "beyond-eof", "absent"}

const (
	sOwn = iota
	sTable
	sPrevSec
	sOlderStm
	sNextSec
	sBeyond
	sAbsent
)

const beyondEOF = 9999

// xsec is one cross-reference section of a crafted document.
type xsec struct {
	kind int
	off  int // header-relative offset of the section ("xref" keyword / xref stream object)
	a, b int // absolute byte range: start of the section .. just past its %%EOF line
	stm  int // hybrid: the value of /XRefStm as written (0: none)
}

type xdoc struct {
	data   []byte
	prefix int
	secs   []xsec // oldest first
}

var (
	xdocMu    sync.Mutex
	xdocCache = map[string]*xdoc{}
)

const padLen = 40

var reStartxref = regexp.MustCompile(`startxref\n(\d+)\n%%EOF\n`)

// xrefDoc builds (and caches) the valid document with the given section
// kinds: revision 0 holds a one-page document (catalog, page tree, page,
// Helvetica, a content stream padded to 1000 bytes), every later revision
// redefines the font dictionary and adds one marker object.  prev0 adds a
// /Prev placeholder to the oldest section so that it can be wired, too.
func xrefDoc(kinds []int, prefix int, prev0 bool) (*xdoc, error) {
	key := fmt.Sprint(kinds, prefix, prev0)
	xdocMu.Lock()
	defer xdocMu.Unlock()
	if d, ok := xdocCache[key]; ok {
		return d, nil
	}
	pad := pdfsyn.Entry{Key: []byte("Pad"), Val: pdfsyn.StrV(strings.Repeat("p", padLen))}
	root := pdfsyn.Entry{Key: []byte("Root"), Val: pdfsyn.RefV(1, 0)}
	font := func(rev int) pdfsyn.Value {
		return pdfsyn.DictV("Type", pdfsyn.NameV("Font"), "Subtype", pdfsyn.NameV("Type1"), "BaseFont", pdfsyn.NameV("Helvetica"),
			"Encoding", pdfsyn.NameV("WinAnsiEncoding"), "Rev", pdfsyn.IntV(int64(rev)))
	}
	content := []byte("BT /F1 10 Tf 10 50 Td (Hi) Tj ET\n")
	for len(content) < 1000 {
		content = append(content, "% padding so that every cross-reference section lies at a four-digit offset\n"...)
	}
	var revs []pdffile.Revision
	for i, k := range kinds {
		rev := pdffile.Revision{Kind: xKindNames[k], Trailer: []pdfsyn.Entry{root, pad}}
		if i == 0 {
			rev.Objs = []pdffile.ObjDef{
				{Num: 1, Val: pdfsyn.DictV("Type", pdfsyn.NameV("Catalog"), "Pages", pdfsyn.RefV(2, 0))},
				{Num: 2, Val: pdfsyn.DictV("Type", pdfsyn.NameV("Pages"), "Kids", pdfsyn.ArrV(pdfsyn.RefV(3, 0)), "Count", pdfsyn.IntV(1),
					"MediaBox", pdfsyn.ArrV(pdfsyn.IntV(0), pdfsyn.IntV(0), pdfsyn.IntV(200), pdfsyn.IntV(100)))},
				{Num: 3, Val: pdfsyn.DictV("Type", pdfsyn.NameV("Page"), "Parent", pdfsyn.RefV(2, 0),
					"Resources", pdfsyn.DictV("Font", pdfsyn.DictV("F1", pdfsyn.RefV(4, 0))), "Contents", pdfsyn.RefV(5, 0))},
				{Num: 4, Val: font(0)},
				{Num: 5, Val: pdfsyn.DictV(), Stream: content},
			}
			if prev0 {
				rev.Trailer = append(rev.Trailer, pdfsyn.Entry{Key: []byte("Prev"), Val: pdfsyn.IntV(1000)})
			}
		} else {
			rev.Objs = []pdffile.ObjDef{
				{Num: 4, Val: font(i)},
				{Num: 10 + i, Val: pdfsyn.DictV("Type", pdfsyn.NameV("Marker"), "Rev", pdfsyn.IntV(int64(i)))},
			}
		}
		revs = append(revs, rev)
	}
	data := pdffile.Write(revs, pdffile.Knobs{Prefix: prefix, ObjStm: true})
	d := &xdoc{data: data, prefix: prefix}
	ms := reStartxref.FindAllSubmatchIndex(data, -1)
	if len(ms) != len(kinds) {
		return nil, fmt.Errorf("crafted xref document %v: %d startxref lines for %d revisions", kinds, len(ms), len(kinds))
	}
	if len(data)-prefix >= beyondEOF {
		return nil, fmt.Errorf("crafted xref document %v: %d bytes, the layout needs less than %d", kinds, len(data)-prefix, beyondEOF)
	}
	for i, m := range ms {
		off, _ := strconv.Atoi(string(data[m[2]:m[3]]))
		if off < 1000 || off > 9998 {
			return nil, fmt.Errorf("crafted xref document %v: section %d at offset %d is not a four-digit offset", kinds, i, off)
		}
		s := xsec{kind: kinds[i], off: off, a: off + prefix, b: m[1]}
		if i > 0 && s.a < d.secs[i-1].b {
			return nil, fmt.Errorf("crafted xref document %v: sections out of order", kinds)
		}
		reg := data[s.a:s.b]
		if kinds[i] == kHybrid {
			j := bytes.Index(reg, []byte("/XRefStm "))
			if j < 0 {
				return nil, fmt.Errorf("crafted xref document %v: hybrid section %d has no /XRefStm", kinds, i)
			}
			s.stm, _ = strconv.Atoi(string(reg[j+9 : j+13]))
			if s.stm < 1000 || s.stm > 9998 {
				return nil, fmt.Errorf("crafted xref document %v: /XRefStm of section %d is not a four-digit offset", kinds, i)
			}
		}
		if (i > 0 || prev0) != bytes.Contains(reg, []byte("/Prev ")) || !bytes.Contains(reg, []byte("/Pad (")) {
			return nil, fmt.Errorf("crafted xref document %v: section %d: /Prev or /Pad not where expected", kinds, i)
		}
		d.secs = append(d.secs, s)
	}
	xdocCache[key] = d
	return d, nil
}

// setKey overwrites the four-digit value of /key in the region of section s
// (val > 0) or renames the key so that the entry is absent (val == 0).
func (d *xdoc) setKey(out []byte, s xsec, key string, val int) error {
	reg := out[s.a:s.b]
	j := bytes.Index(reg, []byte("/"+key+" "))
	if j < 0 {
		return fmt.Errorf("no /%s in section at %d", key, s.off)
	}
	if val == 0 {
		reg[j+1]++ // /Prev -> /Qrev, /XRefStm -> /YRefStm: an unknown key of the same length
		return nil
	}
	v := j + len(key) + 2
	if val < 1000 || val > 9999 || v+4 > len(reg) || reg[v+4] >= '0' && reg[v+4] <= '9' {
		return fmt.Errorf("/%s in section at %d: not a four-digit slot", key, s.off)
	}
	copy(reg[v:v+4], strconv.Itoa(val))
	return nil
}

// prevValue resolves /Prev target t of section i: an offset, or 0 for "absent".
func prevValue(t, i int, secs []xsec) int {
	switch t {
	case pNext:
		if i+1 < len(secs) {
			return secs[i+1].off
		}
	case pSelf:
		return secs[i].off
	case pFirst:
		return secs[0].off
	case pPrevious:
		if i > 0 {
			return secs[i-1].off
		}
	case pBeyond:
		return beyondEOF
	}
	return 0
}

func stmValue(t, i int, secs []xsec) int {
	switch t {
	case sOwn:
		return secs[i].stm
	case sTable:
		return secs[i].off
	case sPrevSec:
		if i > 0 {
			return secs[i-1].off
		}
	case sOlderStm:
		for j := i - 1; j >= 0; j-- {
			if secs[j].stm != 0 {
				return secs[j].stm
			}
		}
	case sNextSec:
		if i+1 < len(secs) {
			return secs[i+1].off
		}
	case sBeyond:
		return beyondEOF
	}
	return 0
}

// ---------------------------------------------------------------------------
// the spaces

// digits writes idx in the given base, n digits, most significant first.
func digitsOf(idx, base, n int) []int {
	out := make([]int, n)
	for i := n - 1; i >= 0; i-- {
		out[i] = idx % base
		idx /= base
	}
	return out
}

func ipow(b, n int) int {
	p := 1
	for i := 0; i < n; i++ {
		p *= b
	}
	return p
}

// kindVectors lists the section kind vectors of n sections: every vector for
// n <= full, otherwise the three uniform ones and the two table/stream alternations.
func kindVectors(n, full int) [][]int {
	var out [][]int
	if n <= full {
		for k := 0; k < ipow(3, n); k++ {
			out = append(out, digitsOf(k, 3, n))
		}
		return out
	}
	for k := 0; k < 3; k++ {
		v := make([]int, n)
		for i := range v {
			v[i] = k
		}
		out = append(out, v)
	}
	for s := 0; s < 2; s++ {
		v := make([]int, n)
		for i := range v {
			v[i] = (i + s) % 2 // table, stream, table ... / stream, table, ...
		}
		out = append(out, v)
	}
	return out
}

// prevPatterns lists the /Prev assignments of n sections: every assignment
// for n <= full; otherwise the six uniform ones and the valid chain with
// exactly one section wired differently.
func prevPatterns(n, full int) [][]int {
	var out [][]int
	nt := len(prevTargets)
	if n <= full {
		for k := 0; k < ipow(nt, n); k++ {
			out = append(out, digitsOf(k, nt, n))
		}
		return out
	}
	for t := 0; t < nt; t++ {
		v := make([]int, n)
		for i := range v {
			v[i] = t
		}
		out = append(out, v)
	}
	for i := 0; i < n; i++ {
		for t := 0; t < nt; t++ {
			if t == pPrevious {
				continue
			}
			v := make([]int, n)
			for j := range v {
				v[j] = pPrevious
			}
			v[i] = t
			out = append(out, v)
		}
	}
	return out
}

type xcase struct {
	kinds  []int
	prev   []int // /Prev target per section
	stm    []int // /XRefStm target per section (hybrid sections only; nil: as written)
	prefix int
}

func kindString(kinds []int) string {
	s := make([]string, len(kinds))
	for i, k := range kinds {
		s[i] = xKindNames[k]
	}
	return "[" + strings.Join(s, " ") + "]"
}

func (c xcase) String() string {
	p := make([]string, len(c.prev))
	for i, t := range c.prev {
		p[i] = prevTargets[t]
	}
	s := fmt.Sprintf("%d cross-reference sections %s (oldest first), /Prev -> [%s]", len(c.kinds), kindString(c.kinds), strings.Join(p, " "))
	if c.stm != nil {
		var q []string
		for i, t := range c.stm {
			if c.kinds[i] == kHybrid {
				q = append(q, fmt.Sprintf("%d:%s", i, stmTargets[t]))
			}
		}
		s += ", /XRefStm -> [" + strings.Join(q, " ") + "]"
	}
	return s + fmt.Sprintf(", %d bytes before the header", c.prefix)
}

// prev0 reports whether the oldest section needs a /Prev slot: its target
// resolves to an offset (that depends on the target only, not on the offsets).
func (c xcase) prev0() bool {
	switch c.prev[0] {
	case pSelf, pFirst, pBeyond:
		return true
	case pNext:
		return len(c.kinds) > 1
	}
	return false
}

func (c xcase) build() ([]byte, error) {
	prev0 := c.prev0()
	d, err := xrefDoc(c.kinds, c.prefix, prev0)
	if err != nil {
		return nil, err
	}
	out := append([]byte{}, d.data...)
	for i, s := range d.secs {
		if i == 0 && !prev0 {
			continue
		}
		if v := prevValue(c.prev[i], i, d.secs); !(i > 0 && c.prev[i] == pPrevious) {
			if err := d.setKey(out, s, "Prev", v); err != nil {
				return nil, err
			}
		}
	}
	for i, s := range d.secs {
		if c.stm == nil || s.kind != kHybrid || c.stm[i] == sOwn {
			continue
		}
		if err := d.setKey(out, s, "XRefStm", stmValue(c.stm[i], i, d.secs)); err != nil {
			return nil, err
		}
	}
	return out, nil
}

// xrefSpace is an indexable list of crafted cross-reference cases.
type xrefSpace struct {
	name  string
	parts []xrefPart
	total int
}

type xrefPart struct {
	n     int
	kinds [][]int
	pats  [][]int // /Prev assignments ("xref-prev"), nil for "xref-stm"
	start int
	size  int
	// xref-stm: per kind vector, the number of assignments and the start index
	stmStart []int
}

func hybridCount(kinds []int) int {
	h := 0
	for _, k := range kinds {
		if k == kHybrid {
			h++
		}
	}
	return h
}

// newPrevSpace: n = 1..8 sections x kind vectors x /Prev assignments x prefixes.
func newPrevSpace(fullPrev int) *xrefSpace {
	sp := &xrefSpace{name: "xref-prev"}
	for n := 1; n <= 8; n++ {
		p := xrefPart{n: n, kinds: kindVectors(n, 3), pats: prevPatterns(n, fullPrev), start: sp.total}
		p.size = len(p.kinds) * len(p.pats) * len(xrefPrefixes)
		sp.total += p.size
		sp.parts = append(sp.parts, p)
	}
	return sp
}

// newStmSpace: n = 1..maxN sections x every kind vector with a hybrid section
// x every /XRefStm assignment of the hybrid sections x prefixes; /Prev is the valid chain.
func newStmSpace(maxN int) *xrefSpace {
	sp := &xrefSpace{name: "xref-stm"}
	for n := 1; n <= maxN; n++ {
		p := xrefPart{n: n, start: sp.total}
		for _, kv := range kindVectors(n, n) {
			if h := hybridCount(kv); h > 0 {
				p.kinds = append(p.kinds, kv)
				p.stmStart = append(p.stmStart, p.size)
				p.size += ipow(len(stmTargets), h) * len(xrefPrefixes)
			}
		}
		sp.total += p.size
		sp.parts = append(sp.parts, p)
	}
	return sp
}

func (sp *xrefSpace) at(k int) xcase {
	var p xrefPart
	for _, q := range sp.parts {
		if k >= q.start && k < q.start+q.size {
			p = q
			break
		}
	}
	k -= p.start
	np := len(xrefPrefixes)
	if p.pats != nil {
		c := xcase{prefix: xrefPrefixes[k%np]}
		k /= np
		c.prev = p.pats[k%len(p.pats)]
		c.kinds = p.kinds[k/len(p.pats)]
		return c
	}
	vi := len(p.kinds) - 1
	for vi > 0 && p.stmStart[vi] > k {
		vi--
	}
	k -= p.stmStart[vi]
	c := xcase{kinds: p.kinds[vi], prefix: xrefPrefixes[k%np]}
	k /= np
	c.prev = make([]int, p.n)
	c.stm = make([]int, p.n)
	for i := range c.prev {
		c.prev[i] = pPrevious
	}
	// the assignment index is a number in base |targets| over the hybrid sections
	for i := p.n - 1; i >= 0; i-- {
		if c.kinds[i] == kHybrid {
			c.stm[i] = k % len(stmTargets)
			k /= len(stmTargets)
		}
	}
	return c
}

// ---------------------------------------------------------------------------
// integer / reference menu on the cross-reference regions of valid multi-revision files

type xrefTokSite struct {
	doc  int // index into xrefIntDocs
	sec  int
	tok  tok // positions relative to the file with prefix 0
	text string
}

// xrefIntDocs are the documents of the token spaces: every kind vector of two
// sections and the uniform vectors of three.
func xrefIntDocs() [][]int {
	out := kindVectors(2, 2)
	for k := 0; k < 3; k++ {
		out = append(out, []int{k, k, k})
	}
	return out
}

type xrefTokSpace struct {
	docs  [][]int
	ints  []xrefTokSite
	refs  []xrefTokSite
	sizes []int // object count (/Size) per document
}

var (
	xrefTokOnce sync.Once
	xrefTokSp   *xrefTokSpace
	xrefTokErr  error
)

// regionTokens tokenizes the region of one section, stepping over the data
// of a cross-reference stream.
func regionTokens(data []byte, s xsec) []tok {
	return tokenize(data, s.a, s.b, func(toks []tok, kwEnd int) int {
		n := -1
		for i := len(toks) - 2; i >= 1; i-- {
			if toks[i].kind == tInt && toks[i-1].kind == tName && string(data[toks[i-1].a:toks[i-1].b]) == "/Length" {
				n = int(toks[i].ival)
				break
			}
		}
		if n < 0 {
			return -1
		}
		q := kwEnd
		if q+1 < len(data) && data[q] == '\r' && data[q+1] == '\n' {
			q += 2
		} else if q < len(data) && data[q] == '\n' {
			q++
		}
		return q + n
	})
}

func xrefTokens() (*xrefTokSpace, error) {
	xrefTokOnce.Do(func() {
		sp := &xrefTokSpace{docs: xrefIntDocs()}
		for di, kinds := range sp.docs {
			d, err := xrefDoc(kinds, 0, false)
			if err != nil {
				xrefTokErr = err
				return
			}
			pf, perr := pdffile.Read(d.data, pdffile.Options{})
			if perr != nil {
				xrefTokErr = fmt.Errorf("crafted xref document %v: independent reader: %v", kinds, perr)
				return
			}
			sp.sizes = append(sp.sizes, pf.Size)
			for si, s := range d.secs {
				toks := regionTokens(d.data, s)
				l := &layer{text: d.data, toks: toks}
				inPad := false
				for i, t := range toks {
					if t.kind == tName {
						inPad = l.name(i) == "Pad"
					}
					if t.kind != tInt || inPad {
						continue
					}
					site := xrefTokSite{doc: di, sec: si, tok: t, text: string(d.data[max(t.a-16, s.a):min(t.b+6, s.b)])}
					sp.ints = append(sp.ints, site)
					if l.isRef(i) {
						sp.refs = append(sp.refs, site)
					}
				}
			}
		}
		xrefTokSp = sp
	})
	return xrefTokSp, xrefTokErr
}

// replaceCompensated replaces token t (positions valid for prefix 0) by repl
// in a document with the given prefix and keeps the file length by resizing
// the /Pad string of the same section.
func (d *xdoc) replaceCompensated(s xsec, t tok, repl []byte) ([]byte, error) {
	a, b := t.a+d.prefix, t.b+d.prefix
	reg := d.data[s.a:s.b]
	j := bytes.Index(reg, []byte("/Pad ("))
	if j < 0 {
		return nil, fmt.Errorf("no /Pad in section at %d", s.off)
	}
	pa := s.a + j + 6
	pb := pa + padLen
	delta := len(repl) - (b - a)
	if delta > padLen {
		return nil, fmt.Errorf("replacement too long for the padding")
	}
	newPad := bytes.Repeat([]byte{'p'}, padLen-delta)
	es := []edit{{a, b, repl}, {pa, pb, newPad}}
	sortEdits(es)
	out := applyEdits(d.data, es)
	if len(out) != len(d.data) {
		return nil, fmt.Errorf("length compensation failed")
	}
	return out, nil
}

// ---------------------------------------------------------------------------
// table integration

type xrefGroups struct {
	prev   *xrefSpace
	stm    *xrefSpace
	tokens *xrefTokSpace
}

var (
	xgOnce sync.Once
	xgQ    [2]*xrefGroups
	xgErr  error
)

func getXrefGroups(thorough bool) (*xrefGroups, error) {
	xgOnce.Do(func() {
		ts, err := xrefTokens()
		if err != nil {
			xgErr = err
			return
		}
		xgQ[0] = &xrefGroups{prev: newPrevSpace(4), stm: newStmSpace(3), tokens: ts}
		xgQ[1] = &xrefGroups{prev: newPrevSpace(5), stm: newStmSpace(4), tokens: ts}
	})
	if xgErr != nil {
		return nil, xgErr
	}
	if thorough {
		return xgQ[1], nil
	}
	return xgQ[0], nil
}

// craftSmallPrefix are the sizes of the crafted structures that the quick tier
// also walks behind a prefix (the thorough tier: every size).
var craftSmallPrefix = 3

// pfxCraftCases lists the crafted structure cases walked behind a prefix.
func pfxCraftCases(thorough bool) []craftCase {
	var out []craftCase
	for st := range craftStructs {
		for _, c := range craftCases(st) {
			if thorough || c.n <= craftSmallPrefix {
				out = append(out, c)
			}
		}
	}
	return out
}

// addXrefCrafted appends the crafted cross-reference groups (no seed) to the table.
func (t *table) addXrefCrafted(thorough bool) error {
	xg, err := getXrefGroups(thorough)
	if err != nil {
		return err
	}
	t.xg = xg
	t.groups = append(t.groups,
		group{seed: -1, kind: "xref-prev", n: xg.prev.total},
		group{seed: -1, kind: "xref-stm", n: xg.stm.total},
		group{seed: -1, kind: "xref-int", n: len(xg.tokens.ints) * len(intMenu) * len(xrefPrefixes)},
	)
	t.xrefRefStart = nil
	acc := 0
	for _, s := range xg.tokens.refs {
		t.xrefRefStart = append(t.xrefRefStart, acc)
		acc += xg.tokens.sizes[s.doc] // targets 1..Size-1 and a missing number
	}
	t.groups = append(t.groups, group{seed: -1, kind: "xref-ref", n: acc * len(xrefPrefixes)})
	return nil
}

// addPrefixGroups appends the "bytes before the header" groups of the crafted
// structures and of every seed, and records the dimensions of this file.
func (t *table) addPrefixGroups(thorough bool) {
	xg := t.xg
	t.pfxCraft = pfxCraftCases(thorough)
	t.groups = append(t.groups, group{seed: -1, kind: "pfx-craft", n: len(t.pfxCraft) * len(seedPrefixes)})
	for si, sp := range t.spaces {
		// integer / reference tokens of the cross-reference region of the seed
		sp.regInts, sp.regRefs = nil, nil
		for _, s := range sp.ints {
			if s.layer == 0 && sp.m.layers[0].toks[s.tok].a >= sp.m.xrefPos {
				sp.regInts = append(sp.regInts, s)
			}
		}
		for _, s := range sp.refs {
			if s.layer == 0 && sp.m.layers[0].toks[s.tok].a >= sp.m.xrefPos {
				sp.regRefs = append(sp.regRefs, s)
			}
		}
		np := len(seedPrefixes)
		t.groups = append(t.groups,
			group{seed: si, kind: "pfx-plain", n: np},
			group{seed: si, kind: "pfx-int", n: len(sp.regInts) * len(intMenu) * np},
			group{seed: si, kind: "pfx-ref", n: len(sp.regRefs) * len(sp.targets) * np},
		)
		if thorough {
			t.groups = append(t.groups, group{seed: si, kind: "pfx-xbyte", n: len(sp.region) * len(regionBytes) * np})
		}
	}
	var pv, sv []string
	for _, p := range xg.prev.parts {
		pv = append(pv, fmt.Sprintf("n=%d: %d kind vectors x %d /Prev assignments x %d prefixes = %d", p.n, len(p.kinds), len(p.pats), len(xrefPrefixes), p.size))
	}
	for _, p := range xg.stm.parts {
		sv = append(sv, fmt.Sprintf("n=%d: %d kind vectors with a hybrid section, every /XRefStm assignment x %d prefixes = %d", p.n, len(p.kinds), len(xrefPrefixes), p.size))
	}
	var docs []string
	for _, kv := range xg.tokens.docs {
		docs = append(docs, kindString(kv))
	}
	t.dims["xref_section_kinds"] = xKindNames
	t.dims["xref_prev_targets"] = prevTargets
	t.dims["xref_prev_space"] = pv
	t.dims["xref_prev_rule"] = "kind vectors: every vector for n <= 3, else 3 uniform + 2 table/stream alternations; /Prev: every per-section assignment up to the tier's n, else 6 uniform + the valid chain with one section wired differently"
	t.dims["xref_xrefstm_targets"] = stmTargets
	t.dims["xref_xrefstm_space"] = sv
	t.dims["xref_prefixes_crafted"] = xrefPrefixes
	t.dims["prefixes_seeds_and_structures"] = seedPrefixes
	t.dims["xref_token_documents"] = docs
	t.dims["xref_token_sites"] = fmt.Sprintf("%d integer tokens, %d references in the cross-reference sections of %d valid multi-revision documents", len(xg.tokens.ints), len(xg.tokens.refs), len(xg.tokens.docs))
	t.dims["prefix_crafted_structures"] = fmt.Sprintf("%d crafted structure files (quick: sizes n <= %d; thorough: all) x %d prefixes", len(t.pfxCraft), craftSmallPrefix, len(seedPrefixes))
}

// xrefCrafted builds case k of one of the seedless groups of this file.
func (t *table) xrefCrafted(g group, k int) ([]byte, Mut, bool, error) {
	mu := Mut{Seed: "crafted", Kind: g.kind, Index: k}
	switch g.kind {
	case "xref-prev", "xref-stm":
		sp := t.xg.prev
		if g.kind == "xref-stm" {
			sp = t.xg.stm
		}
		c := sp.at(k)
		mu.Desc = "crafted: " + c.String()
		data, err := c.build()
		return data, mu, false, err
	case "xref-int", "xref-ref":
		np := len(xrefPrefixes)
		prefix := xrefPrefixes[k%np]
		k /= np
		var site xrefTokSite
		var repl []byte
		trivial := false
		if g.kind == "xref-int" {
			site = t.xg.tokens.ints[k/len(intMenu)]
			repl = []byte(intMenu[k%len(intMenu)])
		} else {
			ri := len(t.xrefRefStart) - 1
			for ri > 0 && t.xrefRefStart[ri] > k {
				ri--
			}
			site = t.xg.tokens.refs[ri]
			v := k - t.xrefRefStart[ri] + 1 // 1..Size-1, then Size (= a missing number + ...)
			if v >= t.xg.tokens.sizes[site.doc] {
				v = t.xg.tokens.sizes[site.doc] + 5
			}
			repl = itoa(v)
		}
		kinds := t.xg.tokens.docs[site.doc]
		d, err := xrefDoc(kinds, prefix, false)
		if err != nil {
			return nil, mu, false, err
		}
		if string(d.data[site.tok.a+prefix:site.tok.b+prefix]) == string(repl) {
			trivial = true
		}
		out, err := d.replaceCompensated(d.secs[site.sec], site.tok, repl)
		what := "integer"
		if g.kind == "xref-ref" {
			what = "reference"
		}
		mu.Desc = fmt.Sprintf("crafted: valid file with cross-reference sections %s, %d bytes before the header; %s -> %s in section %d at %q (length kept by resizing /Pad)",
			kindString(kinds), prefix, what, repl, site.sec, site.text)
		return out, mu, trivial, err
	case "pfx-craft":
		np := len(seedPrefixes)
		c := t.pfxCraft[k/np]
		mu.Desc = fmt.Sprintf("crafted: %s, %d bytes before the header", c.String(), seedPrefixes[k%np])
		return withPrefix(seedPrefixes[k%np], c.build()), mu, false, nil
	}
	return nil, mu, false, fmt.Errorf("unknown crafted group %q", g.kind)
}

// pfxMutant builds case k of a prefix group of a seed: the seed itself or one
// mutation of a token / byte of its cross-reference region, behind a prefix.
func (t *table) pfxMutant(g group, k int) ([]byte, Mut, bool, error) {
	sp := t.spaces[g.seed]
	m := sp.m
	np := len(seedPrefixes)
	prefix := seedPrefixes[k%np]
	mu := Mut{Seed: t.seeds[g.seed].Name, Kind: g.kind, Index: k}
	k /= np
	tail := fmt.Sprintf("; %d bytes before the header", prefix)
	switch g.kind {
	case "pfx-plain":
		mu.Desc = "unmutated" + tail
		return withPrefix(prefix, m.data), mu, false, nil
	case "pfx-int", "pfx-ref":
		var s site
		var v string
		if g.kind == "pfx-int" {
			s, v = sp.regInts[k/len(intMenu)], intMenu[k%len(intMenu)]
		} else {
			s, v = sp.regRefs[k/len(sp.targets)], strconv.Itoa(sp.targets[k%len(sp.targets)])
		}
		l := m.layers[0]
		tk := l.toks[s.tok]
		out, err := m.build(0, []edit{{tk.a, tk.b, []byte(v)}}, true)
		mu.Desc = fmt.Sprintf("%s -> %s in the cross-reference region at offset %d %q%s", map[string]string{"pfx-int": "integer", "pfx-ref": "reference"}[g.kind],
			v, tk.a, clipB(l.text[max(tk.a-24, 0):min(tk.b+8, len(l.text))], 60), tail)
		if err != nil {
			return nil, mu, false, err
		}
		return withPrefix(prefix, out), mu, false, nil
	case "pfx-xbyte":
		s, v := sp.region[k/len(regionBytes)], regionBytes[k%len(regionBytes)]
		l := m.layers[s.layer]
		out, err := m.build(s.layer, []edit{{s.tok, s.tok + 1, []byte{v}}}, false)
		mu.Desc = fmt.Sprintf("xref/trailer region byte %d of layer %d (%s) %#02x -> %#02x%s", s.tok, s.layer, l.kind, l.text[s.tok], v, tail)
		if err != nil {
			return nil, mu, false, err
		}
		return withPrefix(prefix, out), mu, false, nil
	}
	return nil, mu, false, fmt.Errorf("unknown prefix group %q", g.kind)
}

// xrefSelfTest checks the crafted cross-reference documents: the valid chain
// of every kind vector used is read by the independent reader with the right
// number of sections and walks cleanly in all four modes for every prefix
// (only the VALID files are held to that; what the library makes of a
// hostile link is its business), patching does not change the length, and
// the index arithmetic of the spaces is a bijection on a sample.
func xrefSelfTest(t *table) string {
	var vecs [][]int
	for n := 1; n <= 3; n++ {
		vecs = append(vecs, kindVectors(n, 3)...)
	}
	vecs = append(vecs, kindVectors(8, 3)...)
	for _, kinds := range vecs {
		for _, prefix := range []int{0, 1, 7, 1000} {
			c := xcase{kinds: kinds, prefix: prefix, prev: make([]int, len(kinds))}
			for i := range c.prev {
				c.prev[i] = pPrevious
			}
			data, err := c.build()
			if err != nil {
				return err.Error()
			}
			pf, perr := pdffile.Read(data, pdffile.Options{})
			if perr != nil {
				return fmt.Sprintf("crafted xref document %s prefix %d: independent reader: %v", kindString(kinds), prefix, perr)
			}
			want := len(kinds) + hybridCount(kinds)
			if len(pf.Sections) != want || pf.HeaderOff != prefix {
				return fmt.Sprintf("crafted xref document %s prefix %d: independent reader finds %d sections (want %d), header at %d", kindString(kinds), prefix, len(pf.Sections), want, pf.HeaderOff)
			}
			if prefix == 7 && len(kinds) > 3 {
				continue
			}
			allTable := true
			for _, k := range kinds {
				allTable = allTable && k == kTable
			}
			for mode := 0; mode < numModes; mode++ {
				if mode == modeSeq && !allTable {
					continue // SequentialScan does not index the members of object streams (where the catalog then lives)
				}
				o := walk(data, "", mode)
				if o.openErr != nil || len(o.panics) > 0 {
					return fmt.Sprintf("crafted xref document %s prefix %d does not open in mode %s: %v %v", kindString(kinds), prefix, modeNames[mode], o.openErr, o.panics)
				}
				for st, v := range o.stage {
					if v != "ok" {
						return fmt.Sprintf("crafted xref document %s prefix %d mode %s: stage %s is %s", kindString(kinds), prefix, modeNames[mode], st, v)
					}
				}
				if o.pages != 1 || (mode != modeSeq && o.chars != 2) {
					return fmt.Sprintf("crafted xref document %s prefix %d mode %s: pages=%d chars=%d", kindString(kinds), prefix, modeNames[mode], o.pages, o.chars)
				}
			}
		}
	}
	// a hostile case has the length of the valid one and differs only in digits / one key letter
	for _, sp := range []*xrefSpace{t.xg.prev, t.xg.stm} {
		seen := map[string]bool{}
		step := max(sp.total/997, 1)
		for k := 0; k < sp.total; k += step {
			c := sp.at(k)
			key := c.String()
			if seen[key] {
				return fmt.Sprintf("%s: index %d repeats the case %s", sp.name, k, key)
			}
			seen[key] = true
			data, err := c.build()
			if err != nil {
				return fmt.Sprintf("%s case %d (%s): %v", sp.name, k, key, err)
			}
			d, _ := xrefDoc(c.kinds, c.prefix, c.prev0())
			if d == nil || len(d.data) != len(data) {
				return fmt.Sprintf("%s case %d (%s): patched file has a different length than the valid one", sp.name, k, key)
			}
		}
	}
	// an integer replacement keeps the length, and replacing a token by itself gives the valid file
	ts := t.xg.tokens
	for i := 0; i < len(ts.ints); i += 7 {
		s := ts.ints[i]
		d, err := xrefDoc(ts.docs[s.doc], 1000, false)
		if err != nil {
			return err.Error()
		}
		same, err := d.replaceCompensated(d.secs[s.sec], s.tok, d.data[s.tok.a+1000:s.tok.b+1000])
		if err != nil || !bytes.Equal(same, d.data) {
			return fmt.Sprintf("xref-int: identity replacement changes the file (%v)", err)
		}
		long, err := d.replaceCompensated(d.secs[s.sec], s.tok, []byte(intMenu[len(intMenu)-1]))
		if err != nil || len(long) != len(d.data) {
			return fmt.Sprintf("xref-int: length compensation failed (%v)", err)
		}
	}
	// a seed behind a prefix walks like the seed
	for i, s := range t.seeds {
		for _, p := range seedPrefixes {
			a, b := walk(s.Data, s.Password, modeStop), walk(withPrefix(p, s.Data), s.Password, modeStop)
			if b.openErr != nil || a.objects != b.objects || a.chars != b.chars || a.decoded != b.decoded || fmt.Sprint(a.stage) != fmt.Sprint(b.stage) {
				return fmt.Sprintf("seed %s behind %d junk bytes walks differently (%v)", t.seeds[i].Name, p, b.openErr)
			}
		}
	}
	return ""
}
