//go:build verif

package c05

import (
	"fmt"
	"sort"
	"strings"
)

// Crafted catalog-level shared structure: the interactive form ("craft-form").
//
// The crafted structures of crafted.go hang under ONE page.  The interactive
// form is different: it is a single catalog-level object that the reading of
// EVERY page with a widget annotation depends on (annotation/decode.
// PageAnnotations reads catalog /AcroForm through the shared Extractor, and
// deliberately ignores its failure), so what matters is what the SECOND and
// THIRD reader of the same broken structure meet.  One file per
//
//	(annotation kind of every page, widget flavour, /AcroForm value, indirection)
//
//   - pages: P = 1..formMaxPages pages, every page carries one annotation out
//     of formAnnotKinds {none, widget, text}: ALL assignments (3^P).
//   - widget flavour (formFlavours): the widget is a field merged with its
//     widget | a pure widget that is the /Kids entry of a field object of its
//     own | all widget pages share ONE indirect /Annots array with one merged
//     widget (the same annotations read once per page).
//   - /AcroForm value: absent, or every entry of formValues — every kind of
//     object that is not a form (null, integer, name, string, boolean, arrays,
//     a stream, a missing object, the catalog, a page, the page tree root, an
//     annotation, the content stream, a reference to itself), the valid form,
//     and the valid form with exactly ONE entry replaced by a value of the
//     wrong kind (/Fields: 14 values; /NeedAppearances /SigFlags /CO /DR /DA
//     /Q /XFA; /FT and /Kids of the first field).
//   - indirection: the value stands directly in the catalog | the catalog
//     holds a reference to it (values that are objects of their own, or refer
//     to the form object itself, exist in the second variant only).
//
// Everything else in the file is a valid document.

var formAnnotKinds = []string{"none", "widget", "text"}

const (
	akNone = iota
	akWidget
	akText
)

var formFlavours = []string{"field merged with its widget", "widget as /Kids entry of a field", "one indirect /Annots array shared by all widget pages"}

const (
	flMerged = iota
	flKid
	flShared
)

// formCtx is what a form value may refer to.
type formCtx struct {
	form    int   // object number of the form object; 0 when the value is direct
	roots   []int // the root fields
	page    int   // the first page
	annot   int   // the first annotation (the first page when there is none)
	missing int
	intObj  int // an object that is the integer 7
	arrObj  int // an object that is the valid /Fields array
}

func (x *formCtx) fields() string {
	var s []string
	for _, r := range x.roots {
		s = append(s, ref(r))
	}
	return "[ " + strings.Join(s, " ") + " ]"
}

// dict writes the valid form dictionary with the given entries replaced
// ("" = entry absent) or added.
func (x *formCtx) dict(over map[string]string) string {
	ent := map[string]string{
		"Fields": x.fields(),
		"DA":     "(/F1 10 Tf 0 g)",
		"DR":     "<< /Font << /F1 3 0 R >> >>",
	}
	for k, v := range over {
		ent[k] = v
	}
	keys := make([]string, 0, len(ent))
	for k := range ent {
		keys = append(keys, k)
	}
	sort.Strings(keys)
	var b strings.Builder
	b.WriteString("<< ")
	for _, k := range keys {
		if ent[k] != "" {
			b.WriteString("/" + k + " " + ent[k] + " ")
		}
	}
	b.WriteString(">>")
	return b.String()
}

type formValue struct {
	name         string
	indirectOnly bool
	target       func(x *formCtx) int    // /AcroForm refers to this existing object (no form object)
	body         func(x *formCtx) string // the value
	ft           string                  // /FT of the first root field (default /Tx)
	kids         func(x *formCtx) string // /Kids of the first root field replaced
}

func fieldsAs(name, val string) formValue {
	return formValue{name: "valid form, /Fields " + name, body: func(x *formCtx) string { return x.dict(map[string]string{"Fields": val}) }}
}

func entryAs(key, name, val string) formValue {
	return formValue{name: "valid form, /" + key + " " + name, body: func(x *formCtx) string { return x.dict(map[string]string{key: val}) }}
}

var validForm = func(x *formCtx) string { return x.dict(nil) }

var formValues = []formValue{
	// not a form at all
	{name: "null", body: func(*formCtx) string { return "null" }},
	{name: "integer", body: func(*formCtx) string { return "7" }},
	{name: "name", body: func(*formCtx) string { return "/Form" }},
	{name: "string", body: func(*formCtx) string { return "(form)" }},
	{name: "boolean", body: func(*formCtx) string { return "true" }},
	{name: "array of integers", body: func(*formCtx) string { return "[ 1 2 ]" }},
	{name: "the /Fields array in place of the form", body: func(x *formCtx) string { return x.fields() }},
	{name: "stream whose dictionary is the valid form", indirectOnly: true, body: func(x *formCtx) string {
		d := x.dict(nil)
		return cstream(d[3:len(d)-3], []byte("form"))
	}},
	{name: "missing object", indirectOnly: true, target: func(x *formCtx) int { return x.missing }},
	{name: "the catalog", indirectOnly: true, target: func(*formCtx) int { return 1 }},
	{name: "the page tree root", indirectOnly: true, target: func(*formCtx) int { return 2 }},
	{name: "the content stream", indirectOnly: true, target: func(*formCtx) int { return 4 }},
	{name: "the first page", indirectOnly: true, target: func(x *formCtx) int { return x.page }},
	{name: "the first annotation", indirectOnly: true, target: func(x *formCtx) int { return x.annot }},
	{name: "a reference to itself", indirectOnly: true, body: func(x *formCtx) string { return ref(x.form) }},
	// a form
	{name: "valid form", body: validForm},
	{name: "empty dictionary", body: func(*formCtx) string { return "<< >>" }},
	fieldsAs("absent", ""),
	fieldsAs("null", "null"),
	fieldsAs("integer", "7"),
	fieldsAs("name", "/Fields"),
	fieldsAs("string", "(fields)"),
	fieldsAs("dictionary", "<< /Kids [ ] >>"),
	fieldsAs("array of integers", "[ 1 2 ]"),
	fieldsAs("empty array", "[ ]"),
	{name: "valid form, /Fields [missing object]", body: func(x *formCtx) string { return x.dict(map[string]string{"Fields": "[ " + ref(x.missing) + " ]"}) }},
	{name: "valid form, /Fields reference to a missing object", body: func(x *formCtx) string { return x.dict(map[string]string{"Fields": ref(x.missing)}) }},
	{name: "valid form, /Fields [integer object]", body: func(x *formCtx) string { return x.dict(map[string]string{"Fields": "[ " + ref(x.intObj) + " ]"}) }},
	{name: "valid form, /Fields reference to an integer object", body: func(x *formCtx) string { return x.dict(map[string]string{"Fields": ref(x.intObj)}) }},
	{name: "valid form, /Fields reference to the array", body: func(x *formCtx) string { return x.dict(map[string]string{"Fields": ref(x.arrObj)}) }},
	{name: "valid form, /Fields [catalog, first page]", body: func(x *formCtx) string { return x.dict(map[string]string{"Fields": "[ 1 0 R " + ref(x.page) + " ]"}) }},
	{name: "valid form, /Fields [the form itself]", indirectOnly: true, body: func(x *formCtx) string { return x.dict(map[string]string{"Fields": "[ " + ref(x.form) + " ]"}) }},
	{name: "valid form, /Fields the form itself", indirectOnly: true, body: func(x *formCtx) string { return x.dict(map[string]string{"Fields": ref(x.form)}) }},
	{name: "valid form, every root field listed twice", body: func(x *formCtx) string {
		f := x.fields()
		return x.dict(map[string]string{"Fields": "[ " + f[2:len(f)-2] + " " + f[2:len(f)-2] + " ]"})
	}},
	entryAs("NeedAppearances", "name", "/Yes"),
	entryAs("SigFlags", "string", "(3)"),
	entryAs("CO", "integer", "7"),
	{name: "valid form, /CO [missing object, first page, first annotation]", body: func(x *formCtx) string {
		return x.dict(map[string]string{"CO": "[ " + ref(x.missing) + " " + ref(x.page) + " " + ref(x.annot) + " ]"})
	}},
	entryAs("DR", "integer", "7"),
	entryAs("DR", "array", "[ /Font ]"),
	{name: "valid form, /DR missing object", body: func(x *formCtx) string { return x.dict(map[string]string{"DR": ref(x.missing)}) }},
	{name: "valid form, /DR the form itself", indirectOnly: true, body: func(x *formCtx) string { return x.dict(map[string]string{"DR": ref(x.form)}) }},
	entryAs("DR", "with /Font integer", "<< /Font 7 >>"),
	entryAs("DA", "integer", "7"),
	entryAs("Q", "string", "(1)"),
	{name: "valid form, /XFA missing object", body: func(x *formCtx) string { return x.dict(map[string]string{"XFA": ref(x.missing)}) }},
	// the valid form over a first root field with one wrong entry
	{name: "valid form, first field /FT unknown name", body: validForm, ft: "/Xx"},
	{name: "valid form, first field /FT integer", body: validForm, ft: "7"},
	{name: "valid form, first field /FT missing object", body: validForm, ft: "99 0 R"},
	{name: "valid form, first field /Kids integer", body: validForm, kids: func(*formCtx) string { return "7" }},
	{name: "valid form, first field /Kids [itself]", body: validForm, kids: func(x *formCtx) string { return "[ " + ref(x.roots[0]) + " ]" }},
	{name: "valid form, first field /Kids [missing object]", body: validForm, kids: func(x *formCtx) string { return "[ " + ref(x.missing) + " ]" }},
	{name: "valid form, first field /Kids [integer object]", body: validForm, kids: func(x *formCtx) string { return "[ " + ref(x.intObj) + " ]" }},
	{name: "valid form, first field /Kids [the form]", indirectOnly: true, body: validForm, kids: func(x *formCtx) string { return "[ " + ref(x.form) + " ]" }},
}

type formCase struct {
	annots   []int // per page: akNone | akWidget | akText
	flavour  int
	value    int // index into formValues; -1: no /AcroForm entry
	indirect bool
}

func (c formCase) hasWidget() bool {
	for _, a := range c.annots {
		if a == akWidget {
			return true
		}
	}
	return false
}

func (c formCase) String() string {
	var ps []string
	for _, a := range c.annots {
		ps = append(ps, formAnnotKinds[a])
	}
	s := fmt.Sprintf("interactive form: %d page(s) with annotations [%s]", len(c.annots), strings.Join(ps, " "))
	if c.hasWidget() {
		s += ", " + formFlavours[c.flavour]
	}
	if c.value < 0 {
		return s + "; no /AcroForm entry"
	}
	how := "direct"
	if c.indirect {
		how = "indirect"
	}
	return s + "; /AcroForm (" + how + ") = " + formValues[c.value].name
}

func formMaxPages(thorough bool) int {
	if thorough {
		return 4
	}
	return 3
}

// formCases lists the family in a fixed order, value-major, so that the
// files around one broken value are spread over many workers.
func formCases(thorough bool) []formCase {
	type layout struct {
		annots  []int
		flavour int
	}
	var layouts []layout
	for p := 1; p <= formMaxPages(thorough); p++ {
		total := 1
		for i := 0; i < p; i++ {
			total *= len(formAnnotKinds)
		}
		for k := 0; k < total; k++ {
			a := make([]int, p)
			x := k
			for i := range a {
				a[i] = x % len(formAnnotKinds)
				x /= len(formAnnotKinds)
			}
			l := layout{annots: a}
			if (formCase{annots: a}).hasWidget() {
				for fl := range formFlavours {
					l.flavour = fl
					layouts = append(layouts, l)
				}
			} else {
				layouts = append(layouts, l)
			}
		}
	}
	var out []formCase
	for _, l := range layouts {
		out = append(out, formCase{annots: l.annots, flavour: l.flavour, value: -1})
	}
	for vi, v := range formValues {
		for _, ind := range []bool{false, true} {
			if !ind && v.indirectOnly {
				continue
			}
			for _, l := range layouts {
				if (v.ft != "" || v.kids != nil) && !(formCase{annots: l.annots}).hasWidget() {
					continue // there is no field to carry the wrong entry
				}
				out = append(out, formCase{annots: l.annots, flavour: l.flavour, value: vi, indirect: ind})
			}
		}
	}
	return out
}

// build writes the file.  Object numbers: 1 catalog, 2 page tree root,
// 3 Helvetica, 4 the content stream all pages share, then the pages, the
// annotations and fields, two helper objects and the form.
func (c formCase) build() []byte {
	f := &cfile{}
	for i := 0; i < 4; i++ {
		f.reserve()
	}
	p := len(c.annots)
	pages := make([]int, p)
	for i := range pages {
		pages[i] = f.reserve()
	}
	x := &formCtx{page: pages[0], annot: pages[0]}
	var v formValue
	if c.value >= 0 {
		v = formValues[c.value]
	}
	ft := "/Tx"
	if v.ft != "" {
		ft = v.ft
	}
	rect := func(i int) string { return fmt.Sprintf("[ 10 %d 90 %d ]", 10+20*i, 25+20*i) }

	annots := make([]string, p) // value of /Annots per page
	type fieldObj struct {
		num     int
		entries string // without /FT and /Kids
		kids    string
	}
	var fields []fieldObj
	shared := 0
	for i, a := range c.annots {
		switch a {
		case akText:
			t := f.add(fmt.Sprintf("<< /Type /Annot /Subtype /Text /Rect %s /P %s /Contents (note %d) >>", rect(i), ref(pages[i]), i))
			annots[i] = "[ " + ref(t) + " ]"
			if x.annot == pages[0] {
				x.annot = t
			}
		case akWidget:
			switch c.flavour {
			case flMerged:
				w := f.reserve()
				fields = append(fields, fieldObj{num: w, entries: fmt.Sprintf("/Type /Annot /Subtype /Widget /Rect %s /P %s /T (w%d) /DA (/F1 10 Tf 0 g)", rect(i), ref(pages[i]), i)})
				annots[i] = "[ " + ref(w) + " ]"
			case flKid:
				fo := f.reserve()
				w := f.add(fmt.Sprintf("<< /Type /Annot /Subtype /Widget /Rect %s /P %s /Parent %s >>", rect(i), ref(pages[i]), ref(fo)))
				fields = append(fields, fieldObj{num: fo, entries: fmt.Sprintf("/T (f%d) /DA (/F1 10 Tf 0 g)", i), kids: "[ " + ref(w) + " ]"})
				annots[i] = "[ " + ref(w) + " ]"
			case flShared:
				if shared == 0 {
					w := f.reserve()
					fields = append(fields, fieldObj{num: w, entries: fmt.Sprintf("/Type /Annot /Subtype /Widget /Rect %s /P %s /T (shared) /DA (/F1 10 Tf 0 g)", rect(i), ref(pages[i]))})
					shared = f.add("[ " + ref(w) + " ]")
				}
				annots[i] = ref(shared)
			}
			if x.annot == pages[0] {
				x.annot = fields[0].num
				if c.flavour == flKid {
					x.annot = fields[0].num + 1
				}
			}
		}
	}
	for _, fo := range fields {
		x.roots = append(x.roots, fo.num)
	}
	x.intObj = f.add("7")
	x.arrObj = f.add(x.fields())
	acro := ""
	if c.value >= 0 {
		switch {
		case v.target != nil:
			x.missing = len(f.bodies) + 7
			acro = "/AcroForm " + ref(v.target(x))
		case c.indirect:
			x.form = f.reserve()
			x.missing = len(f.bodies) + 7
			f.set(x.form, v.body(x))
			acro = "/AcroForm " + ref(x.form)
		default:
			x.missing = len(f.bodies) + 7
			acro = "/AcroForm " + v.body(x)
		}
	}
	if x.missing == 0 {
		x.missing = len(f.bodies) + 7
	}
	for i, fo := range fields {
		fti, kids := "/Tx", fo.kids
		if i == 0 {
			fti = ft
			if v.kids != nil {
				kids = v.kids(x)
			}
		}
		body := "<< " + fo.entries + " /FT " + fti
		if kids != "" {
			body += " /Kids " + kids
		}
		f.set(fo.num, body+" >>")
	}

	var kids []string
	for i, pg := range pages {
		kids = append(kids, ref(pg))
		an := ""
		if annots[i] != "" {
			an = " /Annots " + annots[i]
		}
		f.set(pg, "<< /Type /Page /Parent 2 0 R /Resources << /Font << /F1 3 0 R >> >> /Contents 4 0 R"+an+" >>")
	}
	f.set(1, "<< /Type /Catalog /Pages 2 0 R "+acro+" >>")
	f.set(2, fmt.Sprintf("<< /Type /Pages /Kids [ %s ] /Count %d /MediaBox [0 0 200 100] >>", strings.Join(kids, " "), p))
	f.set(3, "<< /Type /Font /Subtype /Type1 /BaseFont /Helvetica /Encoding /WinAnsiEncoding >>")
	f.set(4, cstream("", []byte("BT /F1 10 Tf 10 50 Td (Hi) Tj ET\n")))
	return f.bytes(1)
}

// formSelfTest: the files with the VALID form (direct and indirect, every
// flavour, three pages) are documents the library reads without complaint;
// every page yields its annotation, through the page decoder and through the
// direct reader, and the field tree has one root per widget.  Only valid
// files are held to anything.
func formSelfTest() string {
	valid := -1
	for i, v := range formValues {
		if v.name == "valid form" {
			valid = i
		}
	}
	if valid < 0 {
		return "craft-form: no valid form in the value table"
	}
	for fl := range formFlavours {
		for _, ind := range []bool{false, true} {
			c := formCase{annots: []int{akWidget, akText, akWidget}, flavour: fl, value: valid, indirect: ind}
			data := c.build()
			wantRoots := 2
			if fl == flShared {
				wantRoots = 1
			}
			for mode := 0; mode < numModes; mode++ {
				o := walk(data, "", mode)
				if o.openErr != nil || len(o.panics) > 0 {
					return fmt.Sprintf("crafted %s does not open in mode %s: %v %v", c, modeNames[mode], o.openErr, o.panics)
				}
				for st, v := range o.stage {
					if v != "ok" {
						return fmt.Sprintf("crafted %s mode %s: stage %s is %s", c, modeNames[mode], st, v)
					}
				}
				if o.pages != 3 || o.annots != 3 || o.pageAnnots != 3 || o.formNodes != wantRoots {
					return fmt.Sprintf("crafted %s mode %s: pages=%d annotations=%d (page decoder: %d) form nodes=%d, want 3, 3, 3, %d", c, modeNames[mode], o.pages, o.annots, o.pageAnnots, o.formNodes, wantRoots)
				}
			}
		}
	}
	// the case list has no duplicates and survives its own indexing
	seen := map[string]bool{}
	for _, c := range formCases(false) {
		k := c.String()
		if seen[k] {
			return "craft-form: case listed twice: " + k
		}
		seen[k] = true
	}
	return ""
}
