//go:build verif

package c05

import (
	"bytes"
	"compress/zlib"
	"fmt"
	"image"
	"image/color"
	"image/jpeg"
	"strings"
	"sync"

	"seehuhn.de/go/pdf"
	"seehuhn.de/go/pdf/graphics/bitmap"
	"seehuhn.de/go/pdf/internal/filter/jbig2"
	"seehuhn.de/go/pdf/zzverif/ref/codecs"
)

// Crafted hostile structures.
//
// Single mutations of a valid file never produce the classic *structural*
// attacks: they need n objects wired in one uniform way.  This family is
// built in the harness (a 60-line serialiser, no mutation), one file per
//
//	(recursive structure S, link pattern W, size n)
//
// S is a recursive structure the walk visits, made of n nodes 0..n-1 hung
// into a minimal valid document (catalog, one page, Helvetica, a content
// stream).  Every node has the link slots of its structure (outline item:
// /First and /Next; page tree node, name tree node: the two entries of
// /Kids; form XObject, tiling pattern, Type 3 font: two entries of the
// resource dictionary they nest through; ToUnicode CMap: /UseCMap; a bare
// reference object: its value).  W assigns every slot one target from
// linkTargets, the same for all nodes: nothing, node i+1, node i+2, node i
// itself, node 0, node i-1.  A forward link that leaves the node range goes
// to the structure's terminal object (the page, a name tree leaf, a leaf
// form ...) or is dropped where there is none.  All |targets|^slots patterns
// are enumerated, so the family contains the long chain, the self loop, the
// loop back to the start, the two-node ping-pong, and the acyclic shared
// sub-tree ("DAG bomb": both slots forward — 2^n paths through n objects).
// n runs over craftSmall; patterns with at most one forward slot (no
// doubling along forward links) also over craftLarge, to cross the depth
// caps (256) of the library.  (With a backward slot the graph is cyclic and
// has exponentially many simple paths — linear for a walker with a global
// seen-set, not for one that only checks its own path.)
//
// A second crafted family puts one stream with every filter chain up to a
// given length over the full filter name alphabet into such a file, over a
// body that is valid for the first layer (filterChains below).

var linkTargets = []string{"none", "next", "next2", "self", "first", "prev"}

const (
	tNone = iota
	tNext
	tNext2
	tSelf
	tFirst
	tPrev
)

var (
	craftSmall = func() []int {
		var s []int
		for n := 1; n <= 24; n++ {
			s = append(s, n)
		}
		return s
	}()
	craftLarge = []int{32, 64, 128, 255, 256, 257, 300, 1000}
)

type craftStruct struct {
	name  string
	slots int // link slots per node; 0: the "patterns" are the variants listed in variants
	vars  []string
}

var craftStructs = []craftStruct{
	{name: "outline", slots: 2},   // /First, /Next
	{name: "pages", slots: 2},     // /Kids [a b]
	{name: "names", slots: 2},     // /Dests name tree, /Kids [a b]
	{name: "xobj", slots: 2},      // form XObject /Resources /XObject << /A a /B b >>, content "/A Do /B Do"
	{name: "pattern", slots: 2},   // tiling pattern /Resources /Pattern << /A a /B b >>
	{name: "type3", slots: 2},     // Type 3 font /Resources /Font << /A a /B b >>
	{name: "tounicode", slots: 1}, // ToUnicode CMap /UseCMap a
	{name: "refchain", slots: 1},  // n 0 obj  a 0 R  endobj, hung in as the page's /Contents
	{name: "fields", slots: 2},    // field tree of the interactive form, /Kids [a b]; the terminal is a field merged with its widget on the page
	// one object nested n deep
	{name: "nest", vars: []string{"array", "dict", "array-in-dict"}},
}

// craftCase is one crafted file.
type craftCase struct {
	st   int // index into craftStructs
	a, b int // link targets of slot 1 and 2 (b = tNone for one-slot structures); variant index for slot-less structures
	n    int
}

func forward(t int) bool { return t == tNext || t == tNext2 }

var craftCache = make([][]craftCase, len(craftStructs))

// craftCases lists, in a fixed order, every case of one structure.
func craftCases(st int) []craftCase {
	if craftCache[st] == nil {
		craftCache[st] = craftCasesOf(st)
	}
	return craftCache[st]
}

func craftCasesOf(st int) []craftCase {
	s := craftStructs[st]
	// the patterns of the structure, and whether each also gets the large sizes
	type pat struct {
		a, b  int
		large bool
	}
	var pats []pat
	switch s.slots {
	case 0:
		for v := range s.vars {
			pats = append(pats, pat{v, tNone, true})
		}
	case 1:
		for a := range linkTargets {
			pats = append(pats, pat{a, tNone, true})
		}
	case 2:
		for a := range linkTargets {
			for b := range linkTargets {
				pats = append(pats, pat{a, b, !(forward(a) && forward(b))})
			}
		}
	}
	// size-major order: on a library with an exponential walker the expensive
	// cases (large n of a few patterns) are then spread over many workers
	var out []craftCase
	for _, n := range craftSmall {
		for _, p := range pats {
			out = append(out, craftCase{st, p.a, p.b, n})
		}
	}
	for _, n := range craftLarge {
		for _, p := range pats {
			if p.large {
				out = append(out, craftCase{st, p.a, p.b, n})
			}
		}
	}
	return out
}

func (c craftCase) String() string {
	s := craftStructs[c.st]
	switch s.slots {
	case 0:
		return fmt.Sprintf("%s variant=%s n=%d", s.name, s.vars[c.a], c.n)
	case 1:
		return fmt.Sprintf("%s link=%s n=%d", s.name, linkTargets[c.a], c.n)
	}
	return fmt.Sprintf("%s links=(%s,%s) n=%d", s.name, linkTargets[c.a], linkTargets[c.b], c.n)
}

// ---------------------------------------------------------------------------
// a minimal serialiser: numbered bodies, classic cross-reference table

type cfile struct{ bodies [][]byte }

func (f *cfile) reserve() int {
	f.bodies = append(f.bodies, nil)
	return len(f.bodies)
}

func (f *cfile) set(num int, body string) { f.bodies[num-1] = []byte(body) }

func (f *cfile) add(body string) int {
	n := f.reserve()
	f.set(n, body)
	return n
}

func cstream(dict string, data []byte) string {
	return fmt.Sprintf("<< %s /Length %d >>\nstream\n%s\nendstream", dict, len(data), data)
}

func ref(n int) string { return fmt.Sprintf("%d 0 R", n) }

func (f *cfile) bytes(root int) []byte {
	var b bytes.Buffer
	b.WriteString("%PDF-1.7\n%\xe2\xe3\xcf\xd3\n")
	offs := make([]int, len(f.bodies))
	for i, body := range f.bodies {
		offs[i] = b.Len()
		if body == nil {
			body = []byte("null")
		}
		fmt.Fprintf(&b, "%d 0 obj\n%s\nendobj\n", i+1, body)
	}
	xref := b.Len()
	fmt.Fprintf(&b, "xref\n0 %d\n0000000000 65535 f \n", len(f.bodies)+1)
	for _, o := range offs {
		fmt.Fprintf(&b, "%010d 00000 n \n", o)
	}
	fmt.Fprintf(&b, "trailer\n<< /Size %d /Root %d 0 R >>\nstartxref\n%d\n%%%%EOF\n", len(f.bodies)+1, root, xref)
	return b.Bytes()
}

// skeleton is the valid document every crafted structure is hung into:
//
//	1 catalog  2 page tree root  3 page  4 Helvetica  5 content stream
type skeleton struct {
	cfile
	catalog   string // extra catalog entries
	rootKids  string // /Kids of the page tree root (default: the page)
	resources string // extra entries of the page's resource dictionary
	fonts     string // extra entries of /Resources /Font
	content   string // extra content stream operators
	contents  string // the page's /Contents (default: the content stream)
	page      string // extra entries of the page dictionary
}

const (
	objCatalog = 1 + iota
	objPagesRoot
	objPage
	objFont
	objContent
)

func newSkeleton() *skeleton {
	s := &skeleton{}
	for i := 0; i < 5; i++ {
		s.reserve()
	}
	return s
}

func (s *skeleton) finish() []byte {
	kids := s.rootKids
	if kids == "" {
		kids = ref(objPage)
	}
	contents := s.contents
	if contents == "" {
		contents = ref(objContent)
	}
	s.set(objCatalog, "<< /Type /Catalog /Pages 2 0 R "+s.catalog+" >>")
	s.set(objPagesRoot, "<< /Type /Pages /Kids [ "+kids+" ] /Count 1 /MediaBox [0 0 200 100] >>")
	s.set(objPage, "<< /Type /Page /Parent 2 0 R /Resources << /Font << /F1 4 0 R "+s.fonts+" >> "+s.resources+" >> /Contents "+contents+" "+s.page+">>")
	s.set(objFont, "<< /Type /Font /Subtype /Type1 /BaseFont /Helvetica /Encoding /WinAnsiEncoding >>")
	s.set(objContent, cstream("", []byte("BT /F1 10 Tf 10 50 Td (Hi) Tj ET\n"+s.content)))
	return s.bytes(objCatalog)
}

// link resolves target t of node i: the object number linked to, or 0 for no link.
func link(t, i, n int, nodes []int, terminal int) int {
	j := -1
	switch t {
	case tNext:
		j = i + 1
	case tNext2:
		j = i + 2
	case tSelf:
		j = i
	case tFirst:
		j = 0
	case tPrev:
		j = i - 1
	}
	if j < 0 {
		return 0
	}
	if j >= n {
		return terminal
	}
	return nodes[j]
}

const toUnicodeBody = `/CIDInit /ProcSet findresource begin
12 dict begin
begincmap
/CIDSystemInfo << /Registry (Adobe) /Ordering (UCS) /Supplement 0 >> def
/CMapName /Adobe-Identity-UCS def
/CMapType 2 def
1 begincodespacerange
<00> <FF>
endcodespacerange
1 beginbfchar
<48> <0048>
endbfchar
endcmap
CMapName currentdict /CMap defineresource pop
end
end
`

// build writes the file of a crafted case.
func (c craftCase) build() []byte {
	s := newSkeleton()
	st := craftStructs[c.st]
	n := c.n
	nodes := make([]int, n)
	if st.slots > 0 {
		for i := range nodes {
			nodes[i] = s.reserve()
		}
	}
	// the two links of node i as "<prefix><ref>" strings, empty when there is no link
	links := func(i, terminal int, pa, pb string) (string, string) {
		var la, lb string
		if t := link(c.a, i, n, nodes, terminal); t != 0 {
			la = pa + ref(t) + " "
		}
		if t := link(c.b, i, n, nodes, terminal); t != 0 {
			lb = pb + ref(t) + " "
		}
		return la, lb
	}
	switch st.name {
	case "outline":
		root := s.reserve()
		for i := range nodes {
			la, lb := links(i, 0, "/First ", "/Next ")
			s.set(nodes[i], fmt.Sprintf("<< /Title (item %d) /Parent %s %s%s/Dest [3 0 R /Fit] >>", i, ref(root), la, lb))
		}
		s.set(root, fmt.Sprintf("<< /Type /Outlines /First %s /Last %s /Count %d >>", ref(nodes[0]), ref(nodes[n-1]), n))
		s.catalog = "/Outlines " + ref(root)
	case "pages":
		for i := range nodes {
			la, lb := links(i, objPage, "", "")
			s.set(nodes[i], fmt.Sprintf("<< /Type /Pages /Parent 2 0 R /Count 1 /Rotate 0 /Kids [ %s%s] >>", la, lb))
		}
		s.rootKids = ref(nodes[0])
	case "names":
		leaf := s.add("<< /Limits [(a) (z)] /Names [ (dest01) [3 0 R /Fit] (m) [3 0 R /XYZ 0 0 0] ] >>")
		for i := range nodes {
			la, lb := links(i, leaf, "", "")
			s.set(nodes[i], fmt.Sprintf("<< /Limits [(a) (z)] /Kids [ %s%s] >>", la, lb))
		}
		s.catalog = "/Names << /Dests " + ref(nodes[0]) + " >>"
	case "xobj":
		leaf := s.add(cstream("/Type /XObject /Subtype /Form /BBox [0 0 10 10]", []byte("0 0 5 5 re f")))
		for i := range nodes {
			la, lb := links(i, leaf, "/A ", "/B ")
			var ops string
			if la != "" {
				ops += "/A Do "
			}
			if lb != "" {
				ops += "/B Do "
			}
			s.set(nodes[i], cstream("/Type /XObject /Subtype /Form /BBox [0 0 10 10] /Resources << /XObject << "+la+lb+">> >>", []byte(ops)))
		}
		s.resources = "/XObject << /X0 " + ref(nodes[0]) + " >>"
		s.content = "/X0 Do\n"
	case "pattern":
		leaf := s.add(cstream("/Type /Pattern /PatternType 1 /PaintType 1 /TilingType 1 /BBox [0 0 10 10] /XStep 10 /YStep 10 /Resources << >>", []byte("0 0 5 5 re f")))
		for i := range nodes {
			la, lb := links(i, leaf, "/A ", "/B ")
			var ops string
			if la != "" {
				ops += "/Pattern cs /A scn 0 0 5 5 re f "
			}
			if lb != "" {
				ops += "/Pattern cs /B scn 5 5 5 5 re f "
			}
			s.set(nodes[i], cstream("/Type /Pattern /PatternType 1 /PaintType 1 /TilingType 1 /BBox [0 0 10 10] /XStep 10 /YStep 10 /Resources << /Pattern << "+la+lb+">> >>", []byte(ops)))
		}
		s.resources = "/Pattern << /P0 " + ref(nodes[0]) + " >>"
		s.content = "/Pattern cs /P0 scn 0 0 50 50 re f\n"
	case "type3":
		glyph := s.add(cstream("", []byte("500 0 0 0 500 500 d1 0 0 500 500 re f")))
		for i := range nodes {
			la, lb := links(i, objFont, "/A ", "/B ")
			s.set(nodes[i], "<< /Type /Font /Subtype /Type3 /FontBBox [0 0 1000 1000] /FontMatrix [0.001 0 0 0.001 0 0] "+
				"/CharProcs << /a "+ref(glyph)+" >> /Encoding << /Type /Encoding /Differences [97 /a] >> /FirstChar 97 /LastChar 97 /Widths [500] "+
				"/Resources << /Font << "+la+lb+">> >> >>")
		}
		s.fonts = "/F2 " + ref(nodes[0])
		s.content = "BT /F2 10 Tf 10 30 Td (a) Tj ET\n"
	case "tounicode":
		for i := range nodes {
			la, _ := links(i, 0, "/UseCMap ", "")
			s.set(nodes[i], cstream("/Type /CMap /CMapName /Adobe-Identity-UCS "+la, []byte(toUnicodeBody)))
		}
		// a second simple font carries the chain, so that /F1 stays a plain standard font
		f2 := s.add("<< /Type /Font /Subtype /Type1 /BaseFont /Helvetica /Encoding /WinAnsiEncoding /ToUnicode " + ref(nodes[0]) + " >>")
		s.fonts = "/F2 " + ref(f2)
		s.content = "BT /F2 10 Tf 10 30 Td (H) Tj ET\n"
	case "refchain":
		for i := range nodes {
			t := link(c.a, i, n, nodes, objContent)
			if t == 0 {
				s.set(nodes[i], "null")
			} else {
				s.set(nodes[i], ref(t))
			}
		}
		s.contents = ref(nodes[0])
	case "fields":
		// the terminal is a text field merged with its single widget, shown on the page
		leaf := s.add("<< /Type /Annot /Subtype /Widget /Rect [10 10 60 30] /P 3 0 R /FT /Tx /T (leaf) /DA (/F1 10 Tf 0 g) >>")
		for i := range nodes {
			la, lb := links(i, leaf, "", "")
			s.set(nodes[i], fmt.Sprintf("<< /T (n%d) /Kids [ %s%s] >>", i, la, lb))
		}
		form := s.add("<< /Fields [ " + ref(nodes[0]) + " ] /DA (/F1 10 Tf 0 g) >>")
		s.catalog = "/AcroForm " + ref(form)
		s.page = "/Annots [ " + ref(leaf) + " ] "
	case "nest":
		var open, close string
		switch st.vars[c.a] {
		case "array":
			open, close = "[ ", " ]"
		case "dict":
			open, close = "<< /K ", " >>"
		default:
			open, close = "<< /K [ ", " ] >>"
		}
		obj := s.add(strings.Repeat(open, n) + "(x)" + strings.Repeat(close, n))
		// reachable from the page (an unknown key of the page dictionary is read with the page) and from the cross-reference table
		s.resources = "/Properties << /N " + ref(obj) + " >>"
	}
	return s.finish()
}

// ---------------------------------------------------------------------------
// filter chains

// filterNames is the full alphabet of filter names pdf.MakeFilter tells apart, plus one it does not know.
var filterNames = []string{
	"ASCIIHexDecode", "ASCII85Decode", "RunLengthDecode", "FlateDecode", "LZWDecode",
	"CCITTFaxDecode", "DCTDecode", "JBIG2Decode", "JPXDecode", "Crypt", "NoSuchDecode",
}

// chainPayloads are what the FIRST layer of a chain decodes to.  For the five
// filters with an exact encoder (hex, base-85, run length, Flate, LZW) the
// stream body is that encoding of the payload, so the first layer is valid
// and the second layer sees the payload; for the image codecs, Crypt and
// the unknown name the body is the payload itself, so a chain that starts
// with DCTDecode / CCITTFaxDecode / JBIG2Decode meets a valid body under the
// payload of the same kind.
var chainPayloadNames = []string{"text", "zlib", "jpeg", "ccitt", "jbig2"}

var (
	payloadOnce sync.Once
	payloads    [][]byte
	payloadErr  error
)

type nopWC struct{ *bytes.Buffer }

func (nopWC) Close() error { return nil }

func chainPayloads() ([][]byte, error) {
	payloadOnce.Do(func() {
		text := []byte(strings.Repeat("crafted stream payload 0123456789 abcabcabc\n", 6))
		var z bytes.Buffer
		zw := zlib.NewWriter(&z)
		zw.Write(text)
		zw.Close()

		img := image.NewRGBA(image.Rect(0, 0, 32, 32))
		for y := 0; y < 32; y++ {
			for x := 0; x < 32; x++ {
				img.Set(x, y, color.RGBA{R: uint8(8 * x), G: uint8(8 * y), B: uint8(4 * (x + y)), A: 255})
			}
		}
		var j bytes.Buffer
		if payloadErr = jpeg.Encode(&j, img, nil); payloadErr != nil {
			return
		}

		// bi-level images encoded with the library's own writers (any bytes would do as
		// input; these make the first layer succeed)
		bm := bitmap.New(16, 8)
		for y := 0; y < 8; y++ {
			for x := 0; x < 16; x++ {
				if (x*x+3*y*y+x*y)%7 < 3 || x == y {
					bm.SetPixel(x, y, true)
				}
			}
		}
		var cc bytes.Buffer
		// (the parameters a /CCITTFaxDecode entry without /DecodeParms stands for; two rows)
		w, err := pdf.FilterCCITTFax{Columns: 1728}.Encode(pdf.V1_7, nopWC{&cc})
		if err != nil {
			payloadErr = err
			return
		}
		w.Write(bytes.Repeat([]byte{0x5a, 0x0f, 0xff, 0x00}, 2*1728/8/4))
		if payloadErr = w.Close(); payloadErr != nil {
			return
		}
		gen := jbig2.EncodeGenericRegionSegment(bm, 0, 0, 2, bitmap.CombOpOR, false, false)
		var jb []byte
		pi := jbig2.WritePageInfo(nil, 16, 8)
		jb = append(jbig2.WriteSegmentHeader(jb, 0, 48, 1, nil, uint32(len(pi))), pi...)
		jb = append(jbig2.WriteSegmentHeader(jb, 1, 38, 1, nil, uint32(len(gen))), gen...)

		payloads = [][]byte{text, z.Bytes(), j.Bytes(), cc.Bytes(), jb}
	})
	return payloads, payloadErr
}

func firstLayerBody(filter string, payload []byte) []byte {
	switch filter {
	case "ASCIIHexDecode":
		return codecs.HexEncode(payload, true, 64, false)
	case "ASCII85Decode":
		return codecs.A85Encode(payload, 72)
	case "RunLengthDecode":
		return codecs.RLEncode(payload, 3, 128)
	case "FlateDecode":
		return deflate(payload)
	case "LZWDecode":
		return codecs.LZWEncode(payload, codecs.LZWOptions{EarlyChange: true})
	}
	return payload
}

// chainCount returns the number of chains of length 1..maxLen.
func chainCount(maxLen int) int {
	k, total, p := len(filterNames), 0, 1
	for l := 1; l <= maxLen; l++ {
		p *= k
		total += p
	}
	return total
}

// chainAt returns the idx-th chain (shorter chains first, then lexicographic).
func chainAt(idx int) []string {
	k := len(filterNames)
	p := k
	l := 1
	for idx >= p {
		idx -= p
		p *= k
		l++
	}
	chain := make([]string, l)
	for i := l - 1; i >= 0; i-- {
		chain[i] = filterNames[idx%k]
		idx /= k
	}
	return chain
}

// buildChainFile writes a document whose page uses, as an image XObject, one
// stream with the given /Filter chain.
func buildChainFile(chain []string, payload []byte) []byte {
	s := newSkeleton()
	body := firstLayerBody(chain[0], payload)
	var fl string
	if len(chain) == 1 {
		fl = "/" + chain[0]
	} else {
		fl = "[ /" + strings.Join(chain, " /") + " ]"
	}
	im := s.add(cstream("/Type /XObject /Subtype /Image /Width 32 /Height 32 /ColorSpace /DeviceRGB /BitsPerComponent 8 /Filter "+fl, body))
	s.resources = "/XObject << /Im0 " + ref(im) + " >>"
	s.content = "q 32 0 0 32 10 10 cm /Im0 Do Q\n"
	return s.finish()
}

// buildLZWStateFile writes a document whose page uses, as an image XObject,
// one LZWDecode stream with the given body (a table-state body of C08's
// family: clear-table code, filler codes up to a boundary of the code table,
// a short tail over {top code, top-1, clear, EOD, literal}).
func buildLZWStateFile(earlyChange int, body []byte) []byte {
	s := newSkeleton()
	parms := ""
	if earlyChange == 0 {
		parms = " /DecodeParms << /EarlyChange 0 >>"
	}
	im := s.add(cstream("/Type /XObject /Subtype /Image /Width 32 /Height 32 /ColorSpace /DeviceRGB /BitsPerComponent 8 /Filter /LZWDecode"+parms, body))
	s.resources = "/XObject << /Im0 " + ref(im) + " >>"
	s.content = "q 32 0 0 32 10 10 cm /Im0 Do Q\n"
	return s.finish()
}
