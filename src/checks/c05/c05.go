//go:build verif

// Package c05 decides C05: opening and walking arbitrary bytes never crashes,
// hangs, leaks or explodes.
//
// "All byte strings" is approached as a deviation-bounded neighbourhood of
// valid files: every seed (seeds.go, written with the library's own Writer)
// with exactly one structure-aware mutation from the menu in mutate.go at
// every position (thorough: also all pairs on the structural subset).  Every
// mutant is walked (walk.go) under the three ReaderErrorHandling modes and
// through SequentialScan+MakeReader, in single-threaded worker processes
// (engine/procs), because the oracles read process-global counters and a
// walk may take the process down.
package c05

import (
	"bytes"
	"encoding/json"
	"fmt"
	"os"
	"os/exec"
	"path/filepath"
	"regexp"
	"runtime"
	"runtime/debug"
	"sort"
	"strconv"
	"strings"
	"sync/atomic"
	"syscall"
	"time"

	"seehuhn.de/go/pdf/zzverif/engine/ev"
	"seehuhn.de/go/pdf/zzverif/engine/procs"
)

// Case is one replayable execution: a mutated file and an entry mode.
type Case struct {
	Mut      Mut    `json:"mutation"`
	Mode     string `json:"mode"`
	Password string `json:"password,omitempty"`
	File     []byte `json:"file"` // the mutated file (base64 in JSON)
}

type failure struct{ fp, what string }

var reDigits = regexp.MustCompile(`[0-9]+`)

func msgClass(err error) string {
	s := strings.Map(func(r rune) rune {
		if r < 0x20 || r > 0x7e {
			return -1
		}
		return r
	}, err.Error())
	s = reDigits.ReplaceAllString(s, "N")
	if i := strings.Index(s, `"`); i >= 0 {
		s = s[:i]
	}
	if len(s) > 48 {
		s = s[:48]
	}
	return s
}

// judge applies the four oracle clauses to one walk.
func judge(o *obs) []failure {
	var fs []failure
	for _, p := range o.panics {
		fs = append(fs, failure{"panic:" + p.Site, fmt.Sprintf("panic in stage %q: %s at %s", p.Stage, p.Val, p.Site)})
	}
	if allow := int64(allocSlack) + 2*o.budgetSum; int64(o.alloc) > allow {
		fs = append(fs, failure{"alloc-exceeds-budget:" + o.allocStage,
			fmt.Sprintf("heap allocation grew by %d bytes during the walk (most of it in stage %q); allowance 64 MiB + 2*sum StreamBudget over the %d streams decoded = %d", o.alloc, o.allocStage, o.streams, allow)})
	}
	if o.leaked > 0 {
		sig := regexp.MustCompile(`\[[^\]]*\]`).ReplaceAllString(o.leakSig, "")
		fs = append(fs, failure{"goroutine-leak:" + sig,
			fmt.Sprintf("%d goroutine(s) still there 3 s after the walk returned and the reader was closed: %s", o.leaked, o.leakSig)})
	}
	return fs
}

func outcomeOf(mode int, o *obs) string {
	if o.openErr != nil {
		if st := o.stage["open"]; st == "panic" {
			return modeNames[mode] + "|open:panic"
		}
		return modeNames[mode] + "|open-error:" + msgClass(o.openErr)
	}
	var bad []string
	for st, v := range o.stage {
		if v != "ok" {
			bad = append(bad, st+":"+v)
		}
	}
	if len(bad) == 0 {
		return modeNames[mode] + "|walked:ok"
	}
	sort.Strings(bad)
	return modeNames[mode] + "|walked:" + strings.Join(bad, ",")
}

// ---------------------------------------------------------------------------
// worker

type workerState struct {
	t  *table
	gt *gtracker
}

// runWalk executes one walk and judges it; a panic is re-run once to confirm.
func (ws *workerState) runWalk(data []byte, password string, mode int, confirm bool) (obs, []failure) {
	o := walk(data, password, mode)
	o.leaked, o.leakSig = ws.gt.settle()
	if len(o.panics) > 0 && confirm {
		o2 := walk(data, password, mode)
		ws.gt.settle()
		if len(o2.panics) == 0 {
			return o, []failure{{"flaky", fmt.Sprintf("panic %s at %s did not reproduce", o.panics[0].Val, o.panics[0].Site)}}
		}
	}
	return o, judge(&o)
}

func loadTable(args []string) (*table, error) {
	if len(args) < 2 {
		return nil, fmt.Errorf("usage: worker <tier> <seed file>")
	}
	seeds, err := LoadSeeds(args[1])
	if err != nil {
		return nil, err
	}
	return buildTable(seeds, args[0] == "thorough")
}

// ---------------------------------------------------------------------------
// hang attribution
//
// Where a spinning loop is sampled varies from run to run, and the loop may
// sit far above the innermost frame.  The function that owns the loop is
// the deepest frame that several samples of the walking goroutine's stack,
// taken a second apart, have in common.

var reFuncLine = regexp.MustCompile(`(?m)^(\S+)\(.*\)$`)

var reInlined = regexp.MustCompile(`\.func\d+\.(\(\*?\w+\)\.\w+)`)

// mainStack returns the call chain (outermost first, function names) of goroutine 1.
func mainStack() []string {
	buf := make([]byte, 1<<18)
	buf = buf[:runtime.Stack(buf, true)]
	for _, stanza := range strings.Split(string(buf), "\n\n") {
		if !strings.HasPrefix(stanza, "goroutine 1 [") {
			continue
		}
		var chain []string
		for _, m := range reFuncLine.FindAllStringSubmatch(stanza, -1) {
			chain = append(chain, m[1])
		}
		for i, j := 0, len(chain)-1; i < j; i, j = i+1, j-1 {
			chain[i], chain[j] = chain[j], chain[i]
		}
		return chain
	}
	return nil
}

// loopOwner takes n samples of goroutine 1 and returns the deepest library
// function common to all of them.
func loopOwner(n int, gap time.Duration) string {
	var common []string
	for i := 0; i < n; i++ {
		if i > 0 {
			time.Sleep(gap)
		}
		c := mainStack()
		if i == 0 {
			common = c
			continue
		}
		k := 0
		for k < len(common) && k < len(c) && common[k] == c[k] {
			k++
		}
		common = common[:k]
	}
	for i := len(common) - 1; i >= 0; i-- {
		fn := common[i]
		// a library closure inlined into the walk carries the walk's name as a
		// prefix: "…/c05.walk.func7.(*Iterator).All.4" is pagetree's iterator body
		if m := reInlined.FindStringSubmatch(fn); m != nil && strings.Contains(fn, "zzverif/") {
			return "inlined:" + m[1]
		}
		if strings.Contains(fn, "zzverif/") || strings.HasPrefix(fn, "main.") || strings.HasPrefix(fn, "runtime.") || leafHelpers[shortFunc(fn)] {
			continue // (a loop-free helper that is called from the loop is not its owner)
		}
		return shortFunc(fn)
	}
	// the samples share no library frame: the time goes into several calls of one stage
	if st, _ := curStage.Load().(string); st != "" {
		return "walk-stage:" + st
	}
	return "unknown"
}

const hangTag = "C05-HANG-LOOP-OWNER\t"

var caseStart atomic.Int64

// hangSampler names the loop owner of a case that has been running for 9 s
// (the worker's watchdog ends it at 20 s).
func hangSampler() {
	var reported int64
	for {
		time.Sleep(500 * time.Millisecond)
		st := caseStart.Load()
		if st == 0 || st == reported || time.Since(time.Unix(0, st)) < 9*time.Second {
			continue
		}
		reported = st
		// (done by 13-14 s: on a loaded machine, or in a process that is busy
		// collecting gigabytes of garbage, the sampler needs a margin)
		fmt.Fprintf(os.Stderr, "%s%s\n", hangTag, loopOwner(20, 200*time.Millisecond))
	}
}

// Worker is the sub-command "C05:worker".
func Worker(args []string) int {
	ws := &workerState{}
	return procs.Main(args, func(w *procs.W) {
		debug.SetMaxStack(256 << 20) // unbounded recursion ends in a fatal error quickly instead of filling 1 GB first
		go hangSampler()
		t, err := loadTable(w.Args)
		if err != nil {
			fmt.Fprintln(os.Stderr, "c05 worker:", err)
			os.Exit(procs.ExitInit)
		}
		ws.t = t
		w.SetTotal(t.total)
		// warm up so that lazily initialised state (zlib pools, standard font tables, regexps)
		// is not charged to the first real case
		for mode := 0; mode < numModes; mode++ {
			walk(t.seeds[0].Data, t.seeds[0].Password, mode)
		}
		runtime.GC()
		ws.gt = newGTracker()
	}, func(w *procs.W, idx int) {
		caseStart.Store(time.Now().UnixNano())
		data, mu, trivial, err := ws.t.mutant(idx)
		if err != nil {
			fmt.Fprintf(os.Stderr, "c05 worker: building mutant %d: %v\n", idx, err)
			os.Exit(procs.ExitInit)
		}
		g, _ := ws.t.locate(idx)
		cpu0 := cpuTime()
		defer func() { w.Count("cpu_us_"+g.kind, int64((cpuTime()-cpu0)/time.Microsecond)) }()
		w.Count("mutants_"+g.kind, 1)
		if trivial {
			w.Count("mutants_identical_to_seed", 1)
		} else {
			w.Distinct(procs.Hash(data))
		}
		pw := ws.t.password(g)
		for mode := 0; mode < numModes; mode++ {
			o, fails := ws.runWalk(data, pw, mode, true)
			w.Eval(1)
			w.Outcome(outcomeOf(mode, &o))
			w.Count("objects_fetched", int64(o.objects))
			w.Count("streams_drained", int64(o.streams))
			w.Count("pages_decoded", int64(o.pages))
			w.Count("fonts_extracted", int64(o.fonts))
			w.Count("font_programs_loaded", int64(o.glyphSets))
			w.Count("outline_items_decoded", int64(o.olItems))
			w.Count("name_tree_entries", int64(o.nameKeys))
			w.Count("annotations_read", int64(o.annots))
			w.Count("form_field_nodes", int64(o.formNodes))
			for _, f := range fails {
				if f.fp == "flaky" {
					w.Note(fmt.Sprintf("case %d mode %s (%s): %s", idx, modeNames[mode], mu.Desc, f.what))
					continue
				}
				w.Violation(f.fp, f.what+" — mode "+modeNames[mode]+"; "+mu.Seed+": "+mu.Desc,
					Case{Mut: mu, Mode: modeNames[mode], Password: pw, File: data})
			}
		}
		if w.WantSample() && idx%1009 == 5 {
			w.Sample(Case{Mut: mu, Mode: "all", Password: pw, File: data})
		}
	})
}

// ---------------------------------------------------------------------------
// parent

var reFrameLine = regexp.MustCompile(`(?m)^(\S+)\(.*\)\n\t\S+/([^/\s]+:\d+)`)

// libraryFrame returns the innermost frame of the first goroutine dump in
// text that belongs to the code under test.
func libraryFrame(text string) string { return libraryFrameOpt(text, false) }

// leafHelpers are functions that are called from the loops of others; when a
// hang is sampled inside one of them the caller names the loop.
var leafHelpers = map[string]bool{"pdf.(*scanner).refill": true, "pdf.(*scanner).peek": true, "pdf.(*scanner).Peek": true, "pdf.(*scanner).PeekN": true}

func libraryFrameOpt(text string, hang bool) string {
	for _, m := range reFrameLine.FindAllStringSubmatch(text, -1) {
		fn := m[1]
		if strings.HasPrefix(fn, "runtime.") || strings.HasPrefix(fn, "runtime/") || strings.HasPrefix(fn, "panic") ||
			strings.HasPrefix(fn, "main.") || strings.HasPrefix(fn, "os.") || strings.HasPrefix(fn, "time.") || strings.Contains(fn, "zzverif/") {
			continue
		}
		if hang {
			// where exactly a spinning loop is sampled varies from run to run: name the function, not the line
			if leafHelpers[shortFunc(fn)] || strings.HasPrefix(fn, "io.") || strings.HasPrefix(fn, "bufio.") || strings.HasPrefix(fn, "compress/") || strings.HasPrefix(fn, "bytes.") {
				continue
			}
			return shortFunc(fn)
		}
		return shortFunc(fn) + "@" + m[2]
	}
	return "unknown"
}

// recursionOwner returns the innermost library function that occurs at least
// three times in the goroutine dump, or "".
func recursionOwner(text string) string {
	count := map[string]int{}
	var order []string
	for _, m := range reFrameLine.FindAllStringSubmatch(text, -1) {
		fn := m[1]
		if !strings.HasPrefix(fn, "seehuhn.de/go/") || strings.Contains(fn, "zzverif/") || strings.Contains(fn, "[...]") {
			continue
		}
		if count[fn] == 0 {
			order = append(order, fn)
		}
		count[fn]++
	}
	for _, fn := range order { // frames are listed innermost first
		if count[fn] >= 3 && !leafHelpers[shortFunc(fn)] {
			return shortFunc(fn)
		}
	}
	return ""
}

func incidentFingerprint(in *procs.Incident) string {
	switch in.Kind {
	case "hang":
		// the watchdog dumps all goroutines; the walking goroutine is the one with library frames
		if i := strings.Index(in.Stderr, hangTag); i >= 0 {
			owner := in.Stderr[i+len(hangTag):]
			if j := strings.IndexByte(owner, '\n'); j >= 0 {
				owner = owner[:j]
			}
			return "hang:" + strings.TrimSpace(owner)
		}
		i := strings.Index(in.Stderr, "PROCS-WATCHDOG")
		if i < 0 {
			i = 0
		}
		// no sampled loop owner (the sampler did not finish in time): a hang in a
		// recursive walker shows its functions many times on the one stack there is
		if fn := recursionOwner(in.Stderr[i:]); fn != "" {
			return "hang:" + fn
		}
		return "hang:" + libraryFrameOpt(in.Stderr[i:], true)
	case "oom":
		return "out-of-memory:" + libraryFrame(in.Stderr)
	}
	site := "unknown"
	lines := strings.Split(in.Stderr, "\n")
	for i, l := range lines {
		if strings.HasPrefix(l, "panic:") || strings.HasPrefix(l, "fatal error:") || strings.HasPrefix(l, "runtime: goroutine stack exceeds") {
			site = strings.TrimSpace(l)
			if len(site) > 60 {
				site = site[:60]
			}
			site = reDigits.ReplaceAllString(site, "N") + " in " + libraryFrame(strings.Join(lines[i:], "\n"))
			break
		}
	}
	return "crash:" + site
}

// cpuTime returns the CPU time (user + system) the process has used.
func cpuTime() time.Duration {
	var ru syscall.Rusage
	if syscall.Getrusage(syscall.RUSAGE_SELF, &ru) != nil {
		return 0
	}
	return time.Duration(ru.Utime.Nano() + ru.Stime.Nano())
}

func (t *table) password(g group) string {
	if g.seed < 0 {
		return ""
	}
	return t.seeds[g.seed].Password
}

func seedsFor(all []*Seed, thorough bool) []*Seed {
	if thorough {
		return all
	}
	return all[:quickSeeds]
}

// Run is the check.
func Run(tier string) int {
	thorough := tier == "thorough"
	budget := 4 * time.Minute
	if thorough {
		budget = 25 * time.Minute
	}
	if v, err := strconv.Atoi(os.Getenv("VERIF_BUDGET_S")); err == nil && v > 0 {
		budget = time.Duration(v) * time.Second // same override as engine/ev
	}
	r := ev.New("C05", tier, "exploration", budget)
	r.Rule("a case is (mutated file, entry mode); files are enumerated as every seed with exactly ONE mutation of the menu " +
		"(integer token -> 13 values; reference -> every object number, the enclosing object, a missing number; name -> 24 structural names; " +
		"token deleted / duplicated / swapped with the next; every truncation length; every byte of the xref/trailer region -> 5 values; " +
		"first 48 and last 16 bytes of every stream body, raw and decoded -> 4 values; stream body cut with and without /Length adjusted; " +
		"body of object i spliced into object j for all pairs) at EVERY position, inside object streams and the cross-reference stream as well " +
		"(decoded, mutated, re-encoded); thorough adds all pairs of mutations on the values of structural keys. " +
		"quick adds, for the first seed, all PAIRS of rewirings of the link references of the outline / page tree / name tree (/Kids /Parent /First /Last /Next /Prev /Outlines /Pages /Dests) to every node of those structures (thorough: every seed). " +
		"In addition a family of CRAFTED files, built by the harness and not by mutation: (structure, link pattern, size) — n nodes of a recursive structure the walk visits " +
		"(outline items, page tree nodes, name tree nodes, nested form XObjects, tiling patterns, Type 3 fonts, ToUnicode /UseCMap chains, bare reference chains, the field tree of the interactive form, nested arrays/dictionaries) " +
		"in a minimal valid document, every link slot of every node wired to the same relative target out of {none, i+1, i+2, i, 0, i-1}, ALL patterns (chains, loops, shared sub-trees = DAG bombs), n = 1..24, " +
		"and n in {32..1000} for the patterns with at most one forward slot; and one stream with EVERY filter chain of length <= 3 (thorough 4) over the 11 filter names x 5 payloads, the body being valid for the first layer. " +
		"A crafted CATALOG-LEVEL SHARED structure, the interactive form every page with a widget depends on: 1..3 (thorough 4) pages with every assignment of {no annotation, widget, text annotation} to the pages x 3 widget flavours (field merged with its widget, widget as /Kids entry of a field, one indirect /Annots array shared by the widget pages) " +
		"x /AcroForm in {absent, every kind of object that is not a form, the valid form, the valid form with exactly one entry of the wrong kind} x {direct, indirect}; the walk reads the annotations of every page twice through one shared Extractor (page decoder, then annotation/decode.PageAnnotations as cmd/pdf-annotations does) and then the form itself. " +
		"Every file is walked in 4 modes. distinct = distinct files that differ from their seed")
	r.Assume(
		"deviation bound 1 (thorough: 2 on the structural subset, both sites in the same layer)",
		"after a mutation that moves later objects, cross-reference offsets, startxref, /Length of a re-encoded container and the offset table of an object stream are brought up to date, so that the mutant deviates in one place only; truncations and byte mutations get no such repair",
		"allocation is the growth of /gc/heap/allocs:bytes of a GOMAXPROCS=1 process over one walk (cumulative, an upper bound of live memory); allowance 64 MiB + 2*sum of limits.StreamBudget(raw length) over the streams the walk handed to DecodeStream",
		"hang = one mutant (4 walks) running longer than 20 s in a worker, reproduced 5x in isolated processes; crash / out-of-memory (ulimit -v 6 GiB, max stack 256 MiB) likewise",
		"a walk fetches at most 65536 cross-referenced objects, reads at most 1 MiB from each decoded stream and decodes at most 4096 pages (it keeps iterating over the page tree and the name tree to their end without a cap of its own, so that a walker that yields more than the file contains shows up as time/allocation)",
		"crafted files deviate from a valid document only in the crafted structure; a DAG of n <= 24 nodes has < 2^25 paths, enough for an exponential walker to exceed the allocation allowance (from n ~ 16) or the 20 s watchdog, and small enough that a worker under ulimit -v ends it without harming the machine",
		"errors returned by the library are never judged",
		"crafted cross-reference files are laid out so that every section offset has four digits; hostile /Prev and /XRefStm values are written over the valid ones without moving a byte (absent = the key renamed), integer replacements are compensated in a /Pad string of the same dictionary; the integers of the cross-reference stream object a hybrid section points to are not mutated (no padding there)",
		"junk before the header is the text 'junk before the header' repeated; the header is searched for in the first 1024 bytes, so 1000 is close to the largest prefix that still opens",
	)

	all, err := BuildSeeds()
	if err != nil {
		r.Infra("building the seeds: " + err.Error())
		return r.Finish()
	}
	seeds := seedsFor(all, thorough)
	t, err := buildTable(seeds, thorough)
	if err != nil {
		r.Infra("building the case table: " + err.Error())
		return r.Finish()
	}
	for k, v := range t.dims {
		r.Dim(k, v)
	}
	if only := os.Getenv("C05_ONLY"); only != "" {
		// debugging aid: run only the groups whose kind starts with the given prefix; such a run is never exhaustive
		r.Capped("restricted to groups " + only + "* by C05_ONLY")
	}
	r.Dim("mutants_total", t.total)
	r.Dim("modes", modeNames[:])
	fmt.Printf("[C05 %s] %d seeds, %d mutants x %d modes = %d walks: %v\n", tier, len(seeds), t.total, numModes, t.total*numModes, t.dims["mutants_by_kind"])

	prev := runtime.GOMAXPROCS(1)
	if msg := selfTest(t); msg != "" {
		r.Infra("self-test: " + msg)
		return r.Finish()
	}
	runtime.GOMAXPROCS(prev)

	// known findings are run explicitly, each in a process of its own (a
	// witness may hang or kill the process that walks it)
	for i, k := range r.KnownWitnesses() {
		var c Case
		if json.Unmarshal(k.Witness, &c) != nil || len(c.File) == 0 {
			continue
		}
		walks, fails, err := replayIsolated(filepath.Join(r.Dir, ".build"), fmt.Sprintf("C05-known-%d.json", i), c)
		if err != nil {
			r.Infra("running a known witness: " + err.Error())
			continue
		}
		r.Eval(int64(walks))
		r.Outcome("known-witness:" + k.Fingerprint)
		for _, f := range fails {
			r.Violation(f.fp, f.what+" — known witness "+c.Mut.Desc, c)
		}
	}

	dir := filepath.Join(r.Dir, ".build", "procs-C05-"+tier)
	if os.Getenv("VERIF_EVIDENCE_DIR") != "" {
		dir += "-mut"
	}
	seedFile := dir + "-seeds.bin"
	os.MkdirAll(filepath.Dir(seedFile), 0o755)
	if err := SaveSeeds(seedFile, seeds); err != nil {
		r.Infra(err.Error())
		return r.Finish()
	}
	cfg := procs.Config{ID: "C05", MaxIncidents: 24, Total: t.total, Args: []string{tier, seedFile}, Deadline: time.Now().Add(budget - 25*time.Second), Dir: dir,
		Log: func(f string, a ...any) { fmt.Printf("[C05] "+f+"\n", a...) }}
	res, err := procs.Run(cfg)
	if res != nil {
		res.MergeInto(r)
		r.Dim("worker_processes", res.Segments)
		r.Dim("mutants_executed", res.Cases)
		for _, in := range res.Incidents {
			data, mu, _, merr := t.mutant(in.Index)
			if merr != nil {
				r.Infra(merr.Error())
				continue
			}
			g, _ := t.locate(in.Index)
			c := Case{Mut: mu, Mode: "all", Password: t.password(g), File: data}
			if in.Reproduced == in.Attempts {
				r.Violation(incidentFingerprint(in), in.Describe()+" — "+mu.Seed+": "+mu.Desc, c)
			} else {
				r.Flaky(fmt.Sprintf("case %d (%s): %s", in.Index, mu.Desc, in.Describe()))
			}
		}
		if !res.Complete {
			if res.Expired {
				r.Expired()
				r.Capped("internal deadline reached before all mutants were walked")
			} else {
				r.Capped("too many worker incidents")
			}
		}
	}
	if err != nil {
		r.Infra(err.Error())
	}
	return r.Finish()
}

// selfTest checks the harness's own machinery against the unmutated seeds:
// the walk reaches every layer of every seed in every mode, the model's
// re-encoders are faithful, and cases survive the JSON round trip.
func selfTest(t *table) string {
	for i, sp := range t.spaces {
		s := t.seeds[i]
		var ref obs
		for mode := 0; mode < numModes; mode++ {
			o := walk(s.Data, s.Password, mode)
			if o.openErr != nil || len(o.panics) > 0 {
				return fmt.Sprintf("seed %s does not open in mode %s: %v %v", s.Name, modeNames[mode], o.openErr, o.panics)
			}
			if o.pages < 3 || o.streams < 4 || o.fonts < 2 {
				return fmt.Sprintf("seed %s mode %s: the walk reached only %d pages, %d streams, %d fonts", s.Name, modeNames[mode], o.pages, o.streams, o.fonts)
			}
			if mode != modeSeq {
				if o.chars == 0 || o.glyphSets == 0 || o.stage["outline"] != "ok" {
					return fmt.Sprintf("seed %s mode %s: content / glyph data / outline not reached (%v)", s.Name, modeNames[mode], o.stage)
				}
				for st, v := range o.stage {
					if v != "ok" {
						return fmt.Sprintf("seed %s mode %s: stage %s of the unmutated seed is %s", s.Name, modeNames[mode], st, v)
					}
				}
			}
			if mode == modeStop {
				ref = o
			}
		}
		m := sp.m
		if out, err := m.build(0, nil, true); err != nil || string(out) != string(s.Data) {
			return "identity rebuild of " + s.Name + " differs"
		}
		for li := 1; li < len(m.layers); li++ {
			out, err := m.build(li, nil, true)
			if err != nil {
				return err.Error()
			}
			o := walk(out, s.Password, modeStop)
			if o.openErr != nil || o.objects != ref.objects || o.chars != ref.chars || o.decoded != ref.decoded || fmt.Sprint(o.stage) != fmt.Sprint(ref.stage) {
				return fmt.Sprintf("seed %s: re-encoding container layer %d changes what the library reads", s.Name, li)
			}
		}
		// a length-changing edit in the first object must leave every later object readable (offset fix-up)
		f := m.file()
		first := m.objs[0]
		for _, o := range m.objs {
			if o.inLayer == 0 && o.off < first.off {
				first = o
			}
		}
		out, _ := m.build(0, []edit{{f.toks[first.objKw].b, f.toks[first.objKw].b, []byte("                     ")}}, true)
		o := walk(out, s.Password, modeStop)
		if o.openErr != nil || o.objects != ref.objects || o.chars != ref.chars || fmt.Sprint(o.stage) != fmt.Sprint(ref.stage) {
			return fmt.Sprintf("seed %s: cross-reference fix-up after a length-changing edit is wrong (%v %v)", s.Name, o.openErr, o.stage)
		}
	}
	if msg := craftSelfTest(); msg != "" {
		return msg
	}
	if msg := xrefSelfTest(t); msg != "" {
		return msg
	}
	if msg := lenWireSelfTest(); msg != "" {
		return msg
	}
	if msg := formSelfTest(); msg != "" {
		return msg
	}
	for _, idx := range []int{1, t.total / 3, t.total / 2, t.total - 1} {
		data, mu, _, err := t.mutant(idx)
		if err != nil {
			return err.Error()
		}
		js, _ := json.Marshal(Case{Mut: mu, Mode: "stop", File: data})
		var c Case
		if err := json.Unmarshal(js, &c); err != nil || string(c.File) != string(data) || c.Mut != mu {
			return fmt.Sprintf("case %d does not survive the JSON round trip", idx)
		}
	}
	return ""
}

// craftSelfTest checks that the hand-built files are documents the library
// reads without complaint and that the walk reaches the crafted structure:
// the chain pattern of every structure (3 nodes) and two valid filter chains.
func craftSelfTest() string {
	structIdx := func(name string) int {
		for i, s := range craftStructs {
			if s.name == name {
				return i
			}
		}
		return -1
	}
	type want struct {
		name string
		a, b int
		ok   func(o *obs) bool
	}
	for _, w := range []want{
		{"outline", tNext, tNone, func(o *obs) bool { return o.olItems == 3 }},
		{"outline", tNone, tNext, func(o *obs) bool { return o.olItems == 3 }},
		{"outline", tNext, tNext, func(o *obs) bool { return o.olItems >= 3 }}, // (how often a shared node is reported is the library's business)
		{"pages", tNext, tNone, func(o *obs) bool { return o.pages == 1 && o.chars > 0 }},
		{"pages", tNext, tNext, func(o *obs) bool { return o.pages >= 1 && o.chars > 0 }},
		{"names", tNext, tNone, func(o *obs) bool { return o.nameKeys == 2 }},
		{"names", tNext, tNext, func(o *obs) bool { return o.nameKeys >= 2 }},
		{"xobj", tNext, tNext, func(o *obs) bool { return o.streams == 5 }},
		{"pattern", tNext, tNext, func(o *obs) bool { return o.streams == 5 }},
		{"type3", tNext, tNext, func(o *obs) bool { return o.fonts == 2 && o.chars >= 3 }},
		{"tounicode", tNext, tNone, func(o *obs) bool { return o.fonts == 2 && o.chars == 3 }},
		{"refchain", tNext, tNone, func(o *obs) bool { return o.chars == 2 }},
		{"fields", tNext, tNone, func(o *obs) bool { return o.annots == 1 && o.formNodes == 4 }},
		{"fields", tNext, tNext, func(o *obs) bool { return o.annots == 1 && o.formNodes >= 1 }},
		{"nest", 0, tNone, func(o *obs) bool { return o.chars == 2 }},
		{"nest", 2, tNone, func(o *obs) bool { return o.chars == 2 }},
	} {
		c := craftCase{st: structIdx(w.name), a: w.a, b: w.b, n: 3}
		data := c.build()
		for mode := 0; mode < numModes; mode++ {
			o := walk(data, "", mode)
			if o.openErr != nil || len(o.panics) > 0 {
				return fmt.Sprintf("crafted file %v does not open in mode %s: %v %v", c, modeNames[mode], o.openErr, o.panics)
			}
			for st, v := range o.stage {
				if v != "ok" {
					return fmt.Sprintf("crafted file %v mode %s: stage %s is %s", c, modeNames[mode], st, v)
				}
			}
			if !w.ok(&o) {
				return fmt.Sprintf("crafted file %v mode %s: the walk did not reach the structure as intended (pages=%d streams=%d fonts=%d chars=%d outline items=%d name keys=%d)",
					c, modeNames[mode], o.pages, o.streams, o.fonts, o.chars, o.olItems, o.nameKeys)
			}
		}
	}
	pl, err := chainPayloads()
	if err != nil {
		return "building the filter chain payloads: " + err.Error()
	}
	for _, w := range []struct {
		chain   []string
		payload int
		decoded int64
	}{
		{[]string{"FlateDecode"}, 0, int64(len(pl[0]))},
		{[]string{"ASCIIHexDecode", "FlateDecode"}, 1, int64(len(pl[0]))},
		{[]string{"DCTDecode"}, 2, 32 * 32 * 3},
		{[]string{"ASCII85Decode", "DCTDecode"}, 2, 32 * 32 * 3},
		{[]string{"LZWDecode", "CCITTFaxDecode"}, 3, 2 * 1728 / 8},
		{[]string{"RunLengthDecode", "JBIG2Decode"}, 4, 16},
	} {
		data := buildChainFile(w.chain, pl[w.payload])
		o := walk(data, "", modeStop)
		// decoded = the content stream (33 + 30 bytes) + the image
		content := int64(len("BT /F1 10 Tf 10 50 Td (Hi) Tj ET\nq 32 0 0 32 10 10 cm /Im0 Do Q\n"))
		if o.openErr != nil || len(o.panics) > 0 || o.stage["drain"] != "ok" || (w.decoded >= 0 && o.decoded != content+w.decoded) || o.decoded <= content {
			return fmt.Sprintf("crafted filter chain %v over payload %s: open=%v stages=%v decoded=%d (want %d+%d)", w.chain, chainPayloadNames[w.payload], o.openErr, o.stage, o.decoded, content, w.decoded)
		}
	}
	// the index arithmetic of the chain space
	if got := strings.Join(chainAt(chainCount(2)+6*121+0*11+3), " "); got != "DCTDecode ASCIIHexDecode FlateDecode" {
		return "chainAt: " + got
	}
	return ""
}

const resultTag = "C05-RESULT\t"

// replayIsolated walks a case in a child process (`vcheck C05 --replay`) and
// returns what its oracle reported; a child that dies is classified from its
// output the way worker incidents are.
func replayIsolated(dir, name string, c Case) (walks int, fails []failure, err error) {
	os.MkdirAll(dir, 0o755)
	path := filepath.Join(dir, name)
	data, _ := json.Marshal(map[string]any{"property": "C05", "case": c})
	if err := os.WriteFile(path, data, 0o644); err != nil {
		return 0, nil, err
	}
	bin := os.Getenv("VERIF_BIN")
	if bin == "" {
		bin = os.Args[0]
	}
	cmd := exec.Command(bin, "C05", "--replay", path)
	cmd.Env = append(os.Environ(), "GOMAXPROCS=1", "GOTRACEBACK=all", "C05_REPLAY_CHILD=1")
	var out bytes.Buffer
	cmd.Stdout, cmd.Stderr = &out, &out
	if err := cmd.Start(); err != nil {
		return 0, nil, err
	}
	done := make(chan error, 1)
	go func() { done <- cmd.Wait() }()
	select {
	case <-done:
	case <-time.After(90 * time.Second): // the child's own watchdog fires after 20 s per mode group
		cmd.Process.Kill()
		<-done
		return 0, []failure{{"hang:unknown", "the replay process had to be killed after 90 s"}}, nil
	}
	text := out.String()
	for _, l := range strings.Split(text, "\n") {
		if strings.HasPrefix(l, resultTag) {
			f := strings.SplitN(strings.TrimPrefix(l, resultTag), "\t", 2)
			if len(f) == 2 {
				fails = append(fails, failure{f[0], f[1]})
			}
		}
		if strings.HasPrefix(l, "C05-WALKS\t") {
			fmt.Sscanf(strings.TrimPrefix(l, "C05-WALKS\t"), "%d", &walks)
		}
	}
	code := cmd.ProcessState.ExitCode()
	if len(fails) == 0 && code != 0 && code != 1 {
		kind := "crash"
		if strings.Contains(text, "out of memory") || strings.Contains(text, "cannot allocate memory") {
			kind = "oom"
		}
		in := &procs.Incident{Kind: kind, ExitCode: code, Stderr: text, Attempts: 1, Reproduced: 1}
		fails = append(fails, failure{incidentFingerprint(in), in.Describe()})
	}
	return walks, fails, nil
}

// Replay re-executes the case of a replay file (in this process).
func Replay(path string) int {
	runtime.GOMAXPROCS(1)
	debug.SetMaxStack(256 << 20)
	r := ev.New("C05", "replay", "exploration", time.Minute)
	r.SetReplayMode()
	var c Case
	if err := ev.ReplayCase(path, &c); err != nil {
		fmt.Fprintln(os.Stderr, "replay:", err)
		return 2
	}
	go func() { // hang watchdog
		time.Sleep(15 * time.Second)
		fp := "hang:" + loopOwner(24, 200*time.Millisecond)
		buf := make([]byte, 1<<16)
		stack := string(buf[:runtime.Stack(buf, true)])
		fmt.Printf("%s%s\tthe walk is still running after 20 s\n", resultTag, fp)
		fmt.Printf("  %s: the walk is still running after 20 s — %s\nVIOLATION property=C05 replay=%s\n%s", fp, c.Mut.Desc, path, stack)
		os.Exit(1)
	}()
	time.Sleep(time.Millisecond)
	ws := &workerState{gt: newGTracker()}
	walks := 0
	for mode := 0; mode < numModes; mode++ {
		if c.Mode != modeNames[mode] && c.Mode != "all" {
			continue
		}
		o, fails := ws.runWalk(c.File, c.Password, mode, false)
		r.Eval(1)
		walks++
		r.Outcome(outcomeOf(mode, &o))
		fmt.Printf("replay: %s: %s\n  mode %s: %s objects=%d streams=%d pages=%d fonts=%d alloc=%d leaked=%d %s\n", c.Mut.Seed, c.Mut.Desc,
			modeNames[mode], outcomeOf(mode, &o), o.objects, o.streams, o.pages, o.fonts, o.alloc, o.leaked, o.leakSig)
		for _, f := range fails {
			cc := c
			cc.Mode = modeNames[mode]
			fmt.Printf("%s%s\t%s\n", resultTag, f.fp, strings.ReplaceAll(f.what, "\n", " "))
			r.Violation(f.fp, f.what+" — "+c.Mut.Desc, cc)
		}
	}
	fmt.Printf("C05-WALKS\t%d\n", walks)
	return r.Finish()
}
