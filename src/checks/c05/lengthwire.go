//go:build verif

package c05

import (
	"bytes"
	"fmt"
	"strings"

	"seehuhn.de/go/pdf/zzverif/ref/pdffile"
)

// Crafted /Length wirings ("len-wire").
//
// Resolving an indirect /Length is the one place where reading an object makes
// the library read another object while it is still inside the first.  The
// library guards this with a scalar-only read mode and a "no object streams"
// flag; both are cursor logic that single mutations of valid files rarely
// reach, because the dangerous shapes need two or three objects wired
// together.  This family enumerates those wirings.
//
// The file has a cross-reference stream, two object streams S1 and S2, one
// top-level integer T, one integer member in each object stream (M1, M2) and
// n stream nodes.  Every stream in the file except the cross-reference stream
// has a /Length slot:
//
//	holders:  S1, S2, node 0 .. node n-1
//	place of a node:  top-level object | member of S1 | member of S2
//	                  (a stream inside an object stream is forbidden, and
//	                  parseable)
//	target of a slot: the right direct integer | T | M1 | M2 | S1 | S2 |
//	                  node j (any j, itself included) | a missing object |
//	                  no /Length entry
//
// All assignments are enumerated (see lenWireCases for the tier's n), so the
// family contains the self loop, the two-node loop across two object streams,
// the object stream whose length is one of its own members, and the two object
// streams whose lengths are members of each other.
const (
	lwDirect = iota
	lwTop
	lwM1
	lwM2
	lwS1
	lwS2
	lwMissing
	lwAbsent
	lwNode0 // + j
)

var lwTargetNames = []string{"direct", "top-level integer", "integer member of S1", "integer member of S2", "S1 itself", "S2 itself", "missing object", "absent"}

const (
	lwPlaceTop = iota
	lwPlaceS1
	lwPlaceS2
)

var lwPlaceNames = []string{"top-level", "member of S1", "member of S2"}

type lenWire struct {
	s1, s2 int   // /Length targets of the two object streams
	place  []int // per node
	length []int // per node
}

func lwTargetName(t int) string {
	if t >= lwNode0 {
		return fmt.Sprintf("node %d", t-lwNode0)
	}
	return lwTargetNames[t]
}

func (c lenWire) String() string {
	var ns []string
	for i := range c.place {
		ns = append(ns, fmt.Sprintf("node %d (%s) /Length -> %s", i, lwPlaceNames[c.place[i]], lwTargetName(c.length[i])))
	}
	return fmt.Sprintf("/Length wiring: S1 -> %s; S2 -> %s; %s", lwTargetName(c.s1), lwTargetName(c.s2), strings.Join(ns, "; "))
}

// lenWireCases lists the family in a fixed order: every wiring with one node;
// with two nodes every wiring of the nodes and of S1 (S2 direct); thorough
// adds every wiring of S2 as well and, with three nodes, every wiring of the
// nodes (object streams direct).
func lenWireCases(thorough bool) []lenWire {
	var out []lenWire
	gen := func(n int, vary1, vary2 bool) {
		nt := lwNode0 + n
		all := []int{}
		for t := 0; t < nt; t++ {
			all = append(all, t)
		}
		c1, c2 := []int{lwDirect}, []int{lwDirect}
		if vary1 {
			c1 = all
		}
		if vary2 {
			c2 = all
		}
		per := 3 * nt
		total := 1
		for i := 0; i < n; i++ {
			total *= per
		}
		for _, a := range c1 {
			for _, b := range c2 {
				for k := 0; k < total; k++ {
					c := lenWire{s1: a, s2: b}
					x := k
					for i := 0; i < n; i++ {
						c.place = append(c.place, (x%per)/nt)
						c.length = append(c.length, x%nt)
						x /= per
					}
					out = append(out, c)
				}
			}
		}
	}
	gen(1, true, true)
	gen(2, true, thorough)
	if thorough {
		gen(3, false, false)
	}
	return out
}

const lwBody = "BT /F1 12 Tf (length wiring) Tj ET"

// build writes the file of one wiring.  Object numbers: 1 catalog, 2 page
// tree, 3 S1, 4 S2, 5 T, 6 M1, 7 M2, 8.. the nodes, last the cross-reference
// stream.
func (c lenWire) build() []byte {
	n := len(c.place)
	const (
		oS1, oS2, oT, oM1, oM2, oNode = 3, 4, 5, 6, 7, 8
	)
	oXref := oNode + n
	oMissing := oXref + 7
	slot := func(t, direct int) string {
		switch {
		case t == lwDirect:
			return fmt.Sprintf("/Length %d", direct)
		case t == lwTop:
			return fmt.Sprintf("/Length %d 0 R", oT)
		case t == lwM1:
			return fmt.Sprintf("/Length %d 0 R", oM1)
		case t == lwM2:
			return fmt.Sprintf("/Length %d 0 R", oM2)
		case t == lwS1:
			return fmt.Sprintf("/Length %d 0 R", oS1)
		case t == lwS2:
			return fmt.Sprintf("/Length %d 0 R", oS2)
		case t == lwMissing:
			return fmt.Sprintf("/Length %d 0 R", oMissing)
		case t == lwAbsent:
			return "/Lengthx 0"
		}
		return fmt.Sprintf("/Length %d 0 R", oNode+t-lwNode0)
	}
	// T, M1 and M2 hold the length of a node body: right for every node, and
	// a harmless wrong value for an object stream that uses them.
	nodeText := func(i int) string {
		return fmt.Sprintf("<< /Node %d %s >> stream\n%s\nendstream", i, slot(c.length[i], len(lwBody)), lwBody)
	}
	type member struct {
		num  int
		text string
	}
	members := [2][]member{{{oM1, fmt.Sprint(len(lwBody))}}, {{oM2, fmt.Sprint(len(lwBody))}}}
	for i := 0; i < n; i++ {
		switch c.place[i] {
		case lwPlaceS1:
			members[0] = append(members[0], member{oNode + i, nodeText(i)})
		case lwPlaceS2:
			members[1] = append(members[1], member{oNode + i, nodeText(i)})
		}
	}
	objstm := func(ms []member, lt int) string {
		var hdr, body bytes.Buffer
		for _, m := range ms {
			fmt.Fprintf(&hdr, "%d %d ", m.num, body.Len())
			body.WriteString(m.text)
			body.WriteString("\n")
		}
		data := hdr.String() + body.String()
		return fmt.Sprintf("<< /Type /ObjStm /N %d /First %d %s >>\nstream\n%s\nendstream", len(ms), hdr.Len(), slot(lt, len(data)), data)
	}

	var b bytes.Buffer
	b.WriteString("%PDF-1.7\n%\xe2\xe3\xcf\xd3\n")
	type xent struct{ typ, a, c int }
	xref := make([]xent, oXref+1)
	xref[0] = xent{0, 0, 65535}
	top := func(num int, body string) {
		xref[num] = xent{1, b.Len(), 0}
		fmt.Fprintf(&b, "%d 0 obj\n%s\nendobj\n", num, body)
	}
	var extra strings.Builder
	for i := 0; i < n; i++ {
		fmt.Fprintf(&extra, " /N%d %d 0 R", i, oNode+i)
	}
	top(1, fmt.Sprintf("<< /Type /Catalog /Pages 2 0 R%s >>", extra.String()))
	top(2, "<< /Type /Pages /Kids [] /Count 0 >>")
	top(oS1, objstm(members[0], c.s1))
	top(oS2, objstm(members[1], c.s2))
	top(oT, fmt.Sprint(len(lwBody)))
	for si, ms := range members {
		for idx, m := range ms {
			xref[m.num] = xent{2, oS1 + si, idx}
		}
	}
	for i := 0; i < n; i++ {
		if c.place[i] == lwPlaceTop {
			top(oNode+i, nodeText(i))
		}
	}
	xpos := b.Len()
	xref[oXref] = xent{1, xpos, 0}
	var xd bytes.Buffer
	for _, e := range xref {
		xd.Write([]byte{byte(e.typ), byte(e.a >> 16), byte(e.a >> 8), byte(e.a), byte(e.c >> 8), byte(e.c)})
	}
	fmt.Fprintf(&b, "%d 0 obj\n<< /Type /XRef /Size %d /W [1 3 2] /Root 1 0 R /Length %d >>\nstream\n", oXref, oXref+1, xd.Len())
	b.Write(xd.Bytes())
	fmt.Fprintf(&b, "\nendstream\nendobj\nstartxref\n%d\n%%%%EOF\n", xpos)
	return b.Bytes()
}

// lenWireSelfTest: the all-legal wiring (nodes top-level, every /Length
// direct, or through T / an integer member) is a file the independent reader
// and the library read completely.
func lenWireSelfTest() string {
	for _, lt := range []int{lwDirect, lwTop, lwM1, lwM2} {
		c := lenWire{s1: lwDirect, s2: lwDirect, place: []int{lwPlaceTop, lwPlaceTop}, length: []int{lt, lwDirect}}
		data := c.build()
		if lt == lwDirect || lt == lwTop { // (the independent reader does not look into object streams for a /Length)
			pf, err := pdffile.Read(data, pdffile.Options{Strict: true})
			if err != nil {
				return fmt.Sprintf("crafted %s: independent reader: %v", c, err)
			}
			if len(pf.Objects) < 9 {
				return fmt.Sprintf("crafted %s: independent reader finds %d objects", c, len(pf.Objects))
			}
		}
		for mode := 0; mode < numModes; mode++ {
			o := walk(data, "", mode)
			if o.openErr != nil || len(o.panics) > 0 {
				return fmt.Sprintf("crafted %s does not open in mode %s: %v %v", c, modeNames[mode], o.openErr, o.panics)
			}
			if mode != modeSeq && (o.streams < 4 || o.decoded < int64(2*len(lwBody))) {
				return fmt.Sprintf("crafted %s mode %s: the walk drained only %d streams, %d bytes", c, modeNames[mode], o.streams, o.decoded)
			}
		}
	}
	return ""
}
