//go:build verif

package c05

import (
	"bytes"
	"compress/zlib"
	"fmt"
	"sort"
	"strconv"

	"seehuhn.de/go/pdf/zzverif/ref/pdffile"
	"seehuhn.de/go/pdf/zzverif/ref/pdfsyn"
	"seehuhn.de/go/pdf/zzverif/ref/stdsec"
)

// The model of a seed: where its tokens, objects, stream bodies and
// cross-reference data are, found with the independent lexer (ref/pdfsyn) and
// file reader (ref/pdffile).  Mutations are expressed as edits of a *layer*:
//
//	layer 0        the file bytes (stream bodies are opaque there)
//	ObjStm layer   the decoded content of one object stream
//	XRef layer     the decoded rows of the cross-reference stream
//
// An edit of a container layer is applied to the decoded content, which is
// then re-encoded (PNG-Up predictor, zlib, and for encrypted files the
// independent security handler of ref/stdsec) and put back with /Length
// adjusted.  After an edit that moves later objects the cross-reference data
// is brought up to date, so that a mutant differs from a valid file in the one
// mutated place only.

type tokKind uint8

const (
	tInt tokKind = iota
	tReal
	tName
	tString
	tKeyword // obj endobj stream endstream R xref trailer startxref n f true false null
	tOpen    // << [
	tClose   // >> ]
)

type tok struct {
	a, b int
	kind tokKind
	ival int64
	obj  int // index into model.objs of the enclosing top-level object (layer 0), member index (ObjStm layer), or -1
}

type sobj struct {
	num, gen   int
	off, end   int // layer 0: "N G obj" ... just past "endobj"
	hdrTok     int // token index of N
	objKw      int // token index of "obj"
	endKw      int // token index of "endobj"
	streamKw   int // token index of "stream", or -1
	rawA, rawB int // stream body
	lenTok     int // token index of a direct /Length value, or -1
	container  int // layer index of the decoded content (ObjStm / XRef), or 0
	// members of object streams:
	inLayer int // layer the object's text lives in (0 = file)
	member  int
}

type member struct {
	num      int
	off      int // relative to /First
	a, b     int // range in the decoded text
	objIndex int
}

type layer struct {
	kind  string // "file" | "objstm" | "xref"
	text  []byte
	toks  []tok
	owner int // index of the containing stream object (container layers)

	// objstm
	first    int
	firstTok int // layer-0 token of the /First value
	members  []member

	// xref
	w       [3]int
	rowLen  int
	predict bool
}

type model struct {
	seed     *Seed
	data     []byte
	layers   []*layer
	objs     []*sobj
	byNum    map[int]int // object number -> index into objs (top-level and members)
	size     int         // /Size
	classic  bool
	xrefPos  int   // offset of "xref" / of the xref stream object
	xrefObj  int   // index into objs of the xref stream object, or -1
	sxTok    int   // token index of the number after startxref
	entryTok []int // classic: token index of the offset of every in-use entry
	h        *stdsec.Handler
}

func (m *model) file() *layer { return m.layers[0] }

// tokenize finds the tokens of text. skip(tokens so far, end of keyword) is
// called after a "stream" keyword and returns the position just past the
// stream body (or -1).
func tokenize(text []byte, from, to int, skip func(toks []tok, kwEnd int) int) []tok {
	var out []tok
	p := &pdfsyn.Parser{Buf: text[:to], Pos: from, ContentMode: true}
	for {
		p.SkipWS()
		if p.Pos >= to {
			return out
		}
		a := p.Pos
		c := text[a]
		switch {
		case c == '<' && a+1 < to && text[a+1] == '<':
			p.Pos += 2
			out = append(out, tok{a: a, b: a + 2, kind: tOpen})
			continue
		case c == '>' && a+1 < to && text[a+1] == '>':
			p.Pos += 2
			out = append(out, tok{a: a, b: a + 2, kind: tClose})
			continue
		case c == '[':
			p.Pos++
			out = append(out, tok{a: a, b: a + 1, kind: tOpen})
			continue
		case c == ']':
			p.Pos++
			out = append(out, tok{a: a, b: a + 1, kind: tClose})
			continue
		}
		v, err := p.Object()
		if err != nil || p.Pos <= a {
			p.Pos = a + 1 // not a token the lexer knows: step over the byte
			continue
		}
		t := tok{a: a, b: p.Pos}
		switch v.K {
		case pdfsyn.Int:
			t.kind, t.ival = tInt, v.I
		case pdfsyn.Real:
			t.kind = tReal
		case pdfsyn.Name:
			t.kind = tName
		case pdfsyn.String:
			t.kind = tString
		default:
			t.kind = tKeyword
		}
		out = append(out, t)
		if t.kind == tKeyword && t.b-t.a == 6 && string(text[t.a:t.b]) == "stream" && skip != nil {
			if q := skip(out, t.b); q > 0 {
				p.Pos = q
			}
		}
	}
}

func (l *layer) kw(i int, s string) bool {
	t := l.toks[i]
	return t.kind == tKeyword && string(l.text[t.a:t.b]) == s
}

func (l *layer) name(i int) string {
	t := l.toks[i]
	if t.kind != tName {
		return ""
	}
	return string(l.text[t.a+1 : t.b])
}

// isRef reports whether tokens i, i+1, i+2 are "N G R".
func (l *layer) isRef(i int) bool {
	return i+2 < len(l.toks) && l.toks[i].kind == tInt && l.toks[i+1].kind == tInt && l.kw(i+2, "R")
}

// dictValue finds the value token of key at nesting depth 1 between tokens
// from and to.
func (l *layer) dictValue(from, to int, key string) int {
	depth := 0
	for i := from; i < to; i++ {
		switch l.toks[i].kind {
		case tOpen:
			depth++
		case tClose:
			depth--
		case tName:
			if depth == 1 && l.name(i) == key && i+1 < to {
				return i + 1
			}
		}
	}
	return -1
}

func buildModel(s *Seed) (*model, error) {
	m := &model{seed: s, data: s.Data, byNum: map[int]int{}, xrefObj: -1, sxTok: -1}
	opt := pdffile.Options{}
	if s.Password != "" {
		opt.Password = &s.Password
	}
	pf, perr := pdffile.Read(s.Data, opt)
	if perr != nil {
		return nil, fmt.Errorf("seed %s: independent reader: %v", s.Name, perr)
	}
	m.h = pf.H
	m.size = pf.Size

	// stream body lengths by object offset
	rawLen := map[int]int{}
	for _, o := range pf.Objects {
		if o.Offset >= 0 && o.IsStream {
			rawLen[int(o.Offset)] = len(o.Raw)
		}
	}
	for _, sec := range pf.Sections {
		if sec.IsStream {
			o, err := pdffile.ParseObjectAt(s.Data, sec.Offset, false, nil)
			if err != nil {
				return nil, fmt.Errorf("seed %s: xref stream: %v", s.Name, err)
			}
			rawLen[int(o.Offset)] = len(o.Raw)
		}
	}
	if len(pf.Sections) != 1 {
		return nil, fmt.Errorf("seed %s: %d xref sections", s.Name, len(pf.Sections))
	}
	m.classic = !pf.Sections[0].IsStream
	m.xrefPos = int(pf.Sections[0].Offset)

	// layer 0
	f := &layer{kind: "file", text: s.Data}
	m.layers = []*layer{f}
	f.toks = tokenize(s.Data, 0, len(s.Data), func(toks []tok, kwEnd int) int {
		// the enclosing object: the latest "N G obj"
		start := -1
		for i := len(toks) - 1; i >= 2; i-- {
			if t := toks[i]; t.kind == tKeyword && string(s.Data[t.a:t.b]) == "obj" && toks[i-1].kind == tInt && toks[i-2].kind == tInt {
				start = toks[i-2].a
				break
			}
		}
		n, ok := rawLen[start]
		if !ok {
			return -1
		}
		q := kwEnd
		if q+1 < len(s.Data) && s.Data[q] == '\r' && s.Data[q+1] == '\n' {
			q += 2
		} else if q < len(s.Data) && s.Data[q] == '\n' {
			q++
		}
		return q + n
	})
	// objects
	cur := -1
	for i := range f.toks {
		f.toks[i].obj = cur
		switch {
		case f.kw(i, "obj") && i >= 2 && f.toks[i-1].kind == tInt && f.toks[i-2].kind == tInt && cur < 0:
			o := &sobj{num: int(f.toks[i-2].ival), gen: int(f.toks[i-1].ival), off: f.toks[i-2].a, hdrTok: i - 2, objKw: i, streamKw: -1, lenTok: -1}
			m.objs = append(m.objs, o)
			cur = len(m.objs) - 1
			f.toks[i].obj, f.toks[i-1].obj, f.toks[i-2].obj = cur, cur, cur
		case f.kw(i, "stream") && cur >= 0:
			o := m.objs[cur]
			if n, ok := rawLen[o.off]; ok {
				o.streamKw = i
				q := f.toks[i].b
				if s.Data[q] == '\r' {
					q++
				}
				q++
				o.rawA, o.rawB = q, q+n
				if v := f.dictValue(o.objKw, i, "Length"); v >= 0 && f.toks[v].kind == tInt && !f.isRef(v) {
					o.lenTok = v
				}
			}
		case f.kw(i, "endobj") && cur >= 0:
			m.objs[cur].endKw = i
			m.objs[cur].end = f.toks[i].b
			cur = -1
		}
	}
	for i, o := range m.objs {
		if o.end == 0 {
			return nil, fmt.Errorf("seed %s: object %d has no endobj", s.Name, o.num)
		}
		m.byNum[o.num] = i
	}
	// every object the independent reader knows must have been found
	for num, o := range pf.Objects {
		if o.Offset >= 0 {
			if i, ok := m.byNum[num]; !ok || m.objs[i].off != int(o.Offset) {
				return nil, fmt.Errorf("seed %s: lexer and independent reader disagree about object %d", s.Name, num)
			}
			if o.IsStream && (m.objs[m.byNum[num]].streamKw < 0 || !bytes.Equal(s.Data[m.objs[m.byNum[num]].rawA:m.objs[m.byNum[num]].rawB], o.Raw)) {
				return nil, fmt.Errorf("seed %s: stream body of object %d not located", s.Name, num)
			}
		}
	}

	// cross-reference data
	for i := range f.toks {
		if f.kw(i, "startxref") && i+1 < len(f.toks) && f.toks[i+1].kind == tInt {
			m.sxTok = i + 1
		}
	}
	if m.sxTok < 0 || int(f.toks[m.sxTok].ival) != m.xrefPos {
		return nil, fmt.Errorf("seed %s: startxref not located", s.Name)
	}
	if m.classic {
		// xref, then subsections "first count" followed by count entries "off gen n|f"
		i := 0
		for i < len(f.toks) && !(f.kw(i, "xref") && f.toks[i].a == m.xrefPos) {
			i++
		}
		i++
		for i+1 < len(f.toks) && f.toks[i].kind == tInt && f.toks[i+1].kind == tInt && !(i+2 < len(f.toks) && (f.kw(i+2, "n") || f.kw(i+2, "f"))) {
			cnt := int(f.toks[i+1].ival)
			i += 2
			for k := 0; k < cnt && i+2 < len(f.toks); k++ {
				if f.kw(i+2, "n") {
					m.entryTok = append(m.entryTok, i)
				}
				i += 3
			}
		}
		if len(m.entryTok) != len(m.objs) {
			return nil, fmt.Errorf("seed %s: %d in-use xref entries located, %d objects", s.Name, len(m.entryTok), len(m.objs))
		}
	} else {
		for i, o := range m.objs {
			if o.off == m.xrefPos {
				m.xrefObj = i
			}
		}
		if m.xrefObj < 0 {
			return nil, fmt.Errorf("seed %s: xref stream object not located", s.Name)
		}
		if err := m.addXRefLayer(); err != nil {
			return nil, fmt.Errorf("seed %s: %v", s.Name, err)
		}
	}

	// object streams
	for i, o := range m.objs {
		if o.streamKw < 0 {
			continue
		}
		tv := f.dictValue(o.objKw, o.streamKw, "Type")
		if tv >= 0 && f.name(tv) == "ObjStm" {
			if err := m.addObjStmLayer(i); err != nil {
				return nil, fmt.Errorf("seed %s: object stream %d: %v", s.Name, o.num, err)
			}
		}
	}
	for num := range pf.Objects {
		if _, ok := m.byNum[num]; !ok {
			return nil, fmt.Errorf("seed %s: object %d known to the independent reader was not located", s.Name, num)
		}
	}
	return m, nil
}

func (m *model) decodeContainer(o *sobj) ([]byte, error) {
	raw := m.data[o.rawA:o.rawB]
	f := m.file()
	isXRef := f.name(max(f.dictValue(o.objKw, o.streamKw, "Type"), 0)) == "XRef"
	if m.h != nil && !isXRef {
		var err error
		raw, err = m.h.DecryptStream(o.num, o.gen, raw)
		if err != nil {
			return nil, err
		}
	}
	fv := f.dictValue(o.objKw, o.streamKw, "Filter")
	if fv < 0 || f.name(fv) != "FlateDecode" {
		return nil, fmt.Errorf("container %d is not /Filter /FlateDecode", o.num)
	}
	if o.lenTok < 0 {
		return nil, fmt.Errorf("container %d has no direct /Length", o.num)
	}
	return pdffile.Inflate(raw)
}

func deflate(p []byte) []byte {
	var b bytes.Buffer
	zw := zlib.NewWriter(&b)
	zw.Write(p)
	zw.Close()
	return b.Bytes()
}

// encodeContainer is the inverse of decodeContainer (for the container layer li).
func (m *model) encodeContainer(li int, text []byte) ([]byte, error) {
	l := m.layers[li]
	o := m.objs[l.owner]
	if l.kind == "xref" && l.predict {
		// PNG Up on every row
		rows := len(text) / l.rowLen
		out := make([]byte, 0, len(text)+rows+1)
		prev := make([]byte, l.rowLen)
		for r := 0; r < rows; r++ {
			row := text[r*l.rowLen : (r+1)*l.rowLen]
			out = append(out, 2)
			for i := range row {
				out = append(out, row[i]-prev[i])
			}
			prev = row
		}
		// a mutated length that is not a whole number of rows: the rest is kept as a short row
		if rest := text[rows*l.rowLen:]; len(rest) > 0 {
			out = append(out, 2)
			for i := range rest {
				out = append(out, rest[i]-prev[i])
			}
		}
		text = out
	}
	enc := deflate(text)
	if m.h != nil && l.kind != "xref" {
		return m.h.EncryptStream(o.num, o.gen, enc)
	}
	return enc, nil
}

func (m *model) addXRefLayer() error {
	o := m.objs[m.xrefObj]
	f := m.file()
	dec, err := m.decodeContainer(o)
	if err != nil {
		return err
	}
	l := &layer{kind: "xref", owner: m.xrefObj}
	wv := f.dictValue(o.objKw, o.streamKw, "W")
	if wv < 0 || f.toks[wv].kind != tOpen {
		return fmt.Errorf("no /W array")
	}
	for k := 0; k < 3; k++ {
		if f.toks[wv+1+k].kind != tInt {
			return fmt.Errorf("bad /W")
		}
		l.w[k] = int(f.toks[wv+1+k].ival)
		l.rowLen += l.w[k]
	}
	if dp := f.dictValue(o.objKw, o.streamKw, "DecodeParms"); dp >= 0 {
		// the Writer uses /Predictor 12 /Columns rowLen
		pv := -1
		for i := dp; i < o.streamKw && f.toks[i].kind != tClose; i++ {
			if f.name(i) == "Predictor" {
				pv = i + 1
			}
		}
		if pv < 0 || f.toks[pv].ival != 12 {
			return fmt.Errorf("unexpected /DecodeParms of the xref stream")
		}
		l.predict = true
		dec, err = pdffile.UnPNG(dec, l.rowLen, 1)
		if err != nil {
			return err
		}
	}
	if f.dictValue(o.objKw, o.streamKw, "Index") >= 0 {
		return fmt.Errorf("xref stream with /Index not supported by the model")
	}
	if len(dec) != l.rowLen*m.size {
		return fmt.Errorf("xref data has %d bytes, expected %d rows of %d", len(dec), m.size, l.rowLen)
	}
	l.text = dec
	o.container = len(m.layers)
	m.layers = append(m.layers, l)
	return nil
}

func (l *layer) xrefField(row, k int) (pos, width int, val int64) {
	pos = row * l.rowLen
	for j := 0; j < k; j++ {
		pos += l.w[j]
	}
	width = l.w[k]
	for j := 0; j < width; j++ {
		val = val<<8 | int64(l.text[pos+j])
	}
	if k == 0 && width == 0 {
		val = 1
	}
	return
}

func (m *model) addObjStmLayer(oi int) error {
	o := m.objs[oi]
	f := m.file()
	dec, err := m.decodeContainer(o)
	if err != nil {
		return err
	}
	l := &layer{kind: "objstm", owner: oi, text: dec}
	nv := f.dictValue(o.objKw, o.streamKw, "N")
	l.firstTok = f.dictValue(o.objKw, o.streamKw, "First")
	if nv < 0 || l.firstTok < 0 || f.toks[nv].kind != tInt || f.toks[l.firstTok].kind != tInt {
		return fmt.Errorf("no /N or /First")
	}
	n := int(f.toks[nv].ival)
	l.first = int(f.toks[l.firstTok].ival)
	l.toks = tokenize(dec, 0, len(dec), nil)
	if len(l.toks) < 2*n {
		return fmt.Errorf("header too short")
	}
	li := len(m.layers)
	for k := 0; k < n; k++ {
		a, b := l.toks[2*k], l.toks[2*k+1]
		if a.kind != tInt || b.kind != tInt || b.b > l.first {
			return fmt.Errorf("bad header")
		}
		l.members = append(l.members, member{num: int(a.ival), off: int(b.ival)})
	}
	for k := range l.members {
		mb := &l.members[k]
		mb.a = l.first + mb.off
		mb.b = len(dec)
		if k+1 < n {
			mb.b = l.first + l.members[k+1].off
		}
		mb.objIndex = len(m.objs)
		m.byNum[mb.num] = len(m.objs)
		m.objs = append(m.objs, &sobj{num: mb.num, streamKw: -1, lenTok: -1, inLayer: li, member: k, off: mb.a, end: mb.b})
	}
	for i := range l.toks {
		l.toks[i].obj = -1
		for k, mb := range l.members {
			if l.toks[i].a >= mb.a && l.toks[i].a < mb.b {
				l.toks[i].obj = k
			}
		}
	}
	// the header must be reproducible, or offset fix-ups would change more than intended
	if !bytes.Equal(l.header(nil), dec[:l.first]) {
		return fmt.Errorf("header format not understood: %q", dec[:l.first])
	}
	o.container = li
	m.layers = append(m.layers, l)
	return nil
}

// header renders the offset table of an object stream ("num off\n" per member).
func (l *layer) header(offs []int) []byte {
	var b []byte
	for k, mb := range l.members {
		off := mb.off
		if offs != nil {
			off = offs[k]
		}
		b = strconv.AppendInt(b, int64(mb.num), 10)
		b = append(b, ' ')
		b = strconv.AppendInt(b, int64(off), 10)
		b = append(b, '\n')
	}
	return b
}

// body returns the text between "obj" and "endobj" (top level) or the text
// of an object stream member.
func (m *model) body(oi int) []byte {
	o := m.objs[oi]
	if o.inLayer != 0 {
		return bytes.TrimRight(m.layers[o.inLayer].text[o.off:o.end], "\n")
	}
	f := m.file()
	return f.text[f.toks[o.objKw].b:f.toks[o.endKw].a]
}

// ---------------------------------------------------------------------------
// edits

type edit struct {
	a, b int
	repl []byte
}

func sortEdits(es []edit) {
	sort.SliceStable(es, func(i, j int) bool { return es[i].a < es[j].a })
}

func applyEdits(text []byte, es []edit) []byte {
	out := make([]byte, 0, len(text)+64)
	pos := 0
	for _, e := range es {
		if e.a < pos {
			continue // overlapping edit (cannot happen for the fix-ups of a well-placed primary edit)
		}
		out = append(out, text[pos:e.a]...)
		out = append(out, e.repl...)
		pos = e.b
	}
	return append(out, text[pos:]...)
}

// shift maps an old position to its new position: everything that starts
// strictly after the start of an edit moves by that edit's change of length.
func shift(es []edit, old int) int {
	d := 0
	for _, e := range es {
		if e.a < old {
			d += len(e.repl) - (e.b - e.a)
		}
	}
	return old + d
}

func itoa(v int) []byte { return strconv.AppendInt(nil, int64(v), 10) }

// build applies edits to a layer and returns the mutated file.  With fix set,
// the bookkeeping that follows from the edit (the object stream's offset
// table and /First, /Length of a re-encoded container, cross-reference
// offsets, startxref) is brought up to date.
func (m *model) build(li int, es []edit, fix bool) ([]byte, error) {
	sortEdits(es)
	if li == 0 {
		return m.buildFile(es, fix), nil
	}
	l := m.layers[li]
	o := m.objs[l.owner]
	f := m.file()
	text := applyEdits(l.text, es)
	var fes []edit
	if l.kind == "objstm" && fix && len(es) > 0 && es[0].a >= l.first {
		offs := make([]int, len(l.members))
		for k, mb := range l.members {
			offs[k] = shift(es, mb.a) - l.first
		}
		hdr := l.header(offs)
		text = append(append([]byte{}, hdr...), text[l.first:]...)
		if len(hdr) != l.first {
			t := f.toks[l.firstTok]
			fes = append(fes, edit{t.a, t.b, itoa(len(hdr))})
		}
	}
	enc, err := m.encodeContainer(li, text)
	if err != nil {
		return nil, err
	}
	fes = append(fes, edit{o.rawA, o.rawB, enc})
	if len(enc) != o.rawB-o.rawA {
		t := f.toks[o.lenTok]
		fes = append(fes, edit{t.a, t.b, itoa(len(enc))})
	}
	sortEdits(fes)
	return m.buildFile(fes, l.kind != "xref"), nil
}

func (m *model) buildFile(es []edit, fix bool) []byte {
	f := m.file()
	if !fix || len(es) == 0 || es[0].a >= m.xrefPos {
		return applyEdits(f.text, es)
	}
	moved := false
	for _, e := range es {
		if len(e.repl) != e.b-e.a {
			moved = true
		}
	}
	if !moved {
		return applyEdits(f.text, es)
	}
	all := append([]edit{}, es...)
	// startxref
	if np := shift(es, m.xrefPos); np != m.xrefPos {
		t := f.toks[m.sxTok]
		all = append(all, edit{t.a, t.b, itoa(np)})
	}
	if m.classic {
		for _, ti := range m.entryTok {
			t := f.toks[ti]
			old := int(t.ival)
			if np := shift(es, old); np != old {
				all = append(all, edit{t.a, t.b, []byte(fmt.Sprintf("%010d", np))})
			}
		}
	} else {
		xl := m.layers[m.objs[m.xrefObj].container]
		rows := append([]byte{}, xl.text...)
		changed := false
		for r := 0; r < len(rows)/xl.rowLen; r++ {
			_, _, tp := xl.xrefField(r, 0)
			if tp != 1 {
				continue
			}
			pos, w, old := xl.xrefField(r, 1)
			np := shift(es, int(old))
			if np != int(old) {
				changed = true
				for j := w - 1; j >= 0; j-- {
					rows[pos+j] = byte(np)
					np >>= 8
				}
			}
		}
		if changed {
			xo := m.objs[m.xrefObj]
			enc, _ := m.encodeContainer(xo.container, rows)
			all = append(all, edit{xo.rawA, xo.rawB, enc})
			if len(enc) != xo.rawB-xo.rawA {
				t := f.toks[xo.lenTok]
				all = append(all, edit{t.a, t.b, itoa(len(enc))})
			}
		}
	}
	sortEdits(all)
	return applyEdits(f.text, all)
}
