//go:build verif

package c05

import (
	"bytes"
	"encoding/binary"
	"fmt"
	"os"

	"golang.org/x/text/language"
	"seehuhn.de/go/pdf"
	"seehuhn.de/go/pdf/destination"
	"seehuhn.de/go/pdf/font"
	"seehuhn.de/go/pdf/graphics/content"
	"seehuhn.de/go/pdf/graphics/content/builder"
	"seehuhn.de/go/pdf/internal/fonttypes"
	"seehuhn.de/go/pdf/nametree"
	"seehuhn.de/go/pdf/outline"
	"seehuhn.de/go/pdf/page"
	"seehuhn.de/go/xmp"
)

// Seed is a valid file written by the library's own Writer.
type Seed struct {
	Name     string
	Password string // the user password the file is opened with ("" = none)
	Data     []byte
}

type seedSpec struct {
	name     string
	version  pdf.Version
	human    bool
	password string
	fonts    []func() font.Layouter // one page per font (plus the standard font on every page)
	outline  bool
	names    bool
	xmp      bool
}

// seedSpecs lists the seed files.  Every file has a two-level page tree
// (one sub-range under the root), content streams with text, a standard-14
// font, and the extras named in the spec.
func seedSpecs() []seedSpec {
	return []seedSpec{
		// quick and thorough:
		// classic xref table, no object streams (PDF 1.4)
		{name: "classic-t1", version: pdf.V1_4, fonts: []func() font.Layouter{fonttypes.Type1WithMetrics}, outline: true, xmp: true},
		// xref stream + object streams (PDF 1.7)
		{name: "xstm-t1-cffc", version: pdf.V1_7, fonts: []func() font.Layouter{fonttypes.Type1WithoutMetrics, fonttypes.CFFComposite}, outline: true, names: true},
		// encrypted variants, opened with the user password
		{name: "rc4-t1", version: pdf.V1_4, password: "secret", fonts: []func() font.Layouter{fonttypes.Type1WithMetrics}, outline: true},
		{name: "aes256-cff", version: pdf.V2_0, password: "secret", fonts: []func() font.Layouter{fonttypes.CFFSimple}, outline: true, xmp: true},
		// thorough only:
		{name: "classic-cff-tt", version: pdf.V1_4, fonts: []func() font.Layouter{fonttypes.CFFSimple, fonttypes.TrueTypeSimple}, names: true},
		{name: "xstm-ttc", version: pdf.V1_7, fonts: []func() font.Layouter{fonttypes.TrueTypeComposite}, xmp: true, outline: true},
		// PDF 2.0 written human-readable: classic xref, pretty-printed, /Type entries
		{name: "v2-human-t1", version: pdf.V2_0, human: true, fonts: []func() font.Layouter{fonttypes.Type1WithMetrics}, names: true, outline: true},
	}
}

// quickSeeds is the number of seeds (from the front of the list) the quick tier uses.
const quickSeeds = 4

func buildSeed(sp seedSpec) (*Seed, error) {
	buf := &bytes.Buffer{}
	opt := &pdf.WriterOptions{
		ID:            [][]byte{[]byte("0123456789abcdef"), []byte("fedcba9876543210")},
		HumanReadable: sp.human,
		UserPassword:  sp.password,
	}
	if sp.password != "" {
		opt.OwnerPassword = "owner-" + sp.password
		opt.UserPermissions = pdf.PermAll
	}
	if sp.xmp {
		packet := xmp.NewPacket()
		dc := &xmp.DublinCore{}
		dc.Title.Set(language.English, "C05 seed "+sp.name)
		dc.Creator.Append(xmp.NewProperName("verif"))
		if err := packet.Set(dc); err != nil {
			return nil, err
		}
		opt.DocumentMetadata = &pdf.MetadataStream{Data: packet}
	}
	paper := &pdf.Rectangle{URx: 200, URy: 100}
	out, err := pdf.NewWriter(buf, sp.version, opt)
	if err != nil {
		return nil, err
	}
	rm := pdf.NewResourceManager(out)
	std := fonttypes.Standard()

	// A hand-made two-level page tree (the library's page tree writer only
	// adds a level above 16 pages):
	//   root  /Kids [page, node, page]  /MediaBox (inherited by every page)
	//   node  /Kids [one page per font] /Rotate 0 (inherited)
	rootRef, nodeRef := out.Alloc(), out.Alloc()
	var pageRefs []pdf.Reference
	addPage := func(parent pdf.Reference, F font.Layouter, text string) (pdf.Reference, error) {
		res := &content.Resources{}
		b := builder.New(content.Page, res, sp.version)
		b.TextBegin()
		b.TextSetFont(std, 10)
		b.TextFirstLine(10, 80)
		b.TextShow("Page " + text)
		if F != nil {
			b.TextSetFont(F, 12)
			b.TextSecondLine(0, -20)
			b.TextShow("Hello AV")
		}
		b.TextEnd()
		b.SetLineWidth(2)
		b.Rectangle(5, 5, 190, 90)
		b.Stroke()
		if b.Err != nil {
			return 0, b.Err
		}
		pg := &page.Page{Parent: parent, MediaBox: paper, Resources: res,
			Contents: []page.Segment{&content.Operators{Ops: b.Stream}}}
		d, err := pg.Encode(rm)
		if err != nil {
			return 0, err
		}
		dict := d.(pdf.Dict)
		delete(dict, "MediaBox") // inherited from the root node
		ref := out.Alloc()
		pageRefs = append(pageRefs, ref)
		return ref, out.Put(ref, dict)
	}
	first, err := addPage(rootRef, nil, "one")
	if err != nil {
		return nil, err
	}
	var subKids pdf.Array
	for i, mk := range sp.fonts {
		r, err := addPage(nodeRef, mk(), fmt.Sprint("sub ", i))
		if err != nil {
			return nil, err
		}
		subKids = append(subKids, r)
	}
	last, err := addPage(rootRef, nil, "last")
	if err != nil {
		return nil, err
	}
	err = out.Put(nodeRef, pdf.Dict{"Type": pdf.Name("Pages"), "Parent": rootRef, "Kids": subKids,
		"Count": pdf.Integer(len(subKids)), "Rotate": pdf.Integer(0)})
	if err != nil {
		return nil, err
	}
	err = out.Put(rootRef, pdf.Dict{"Type": pdf.Name("Pages"), "Kids": pdf.Array{first, nodeRef, last},
		"Count": pdf.Integer(len(subKids) + 2), "MediaBox": paper})
	if err != nil {
		return nil, err
	}

	meta := out.GetMeta()
	meta.Catalog.Pages = rootRef
	meta.Info = &pdf.Info{Title: pdf.TextString("C05 seed " + sp.name), Producer: "verif"}
	if sp.outline {
		o := &outline.Outline{}
		a := o.AddItem("First")
		a.Destination = &destination.Fit{Page: pageRefs[0]}
		a.Open = true
		c := a.AddChild("Inner")
		c.Destination = &destination.XYZ{Page: pageRefs[1], Left: 10, Top: 90}
		b := o.AddItem("Second")
		b.Destination = &destination.Fit{Page: pageRefs[len(pageRefs)-1]}
		ref, err := rm.Store(o)
		if err != nil {
			return nil, err
		}
		meta.Catalog.Outlines = ref
	}
	if sp.names {
		m := map[pdf.Name]pdf.Object{}
		for i, r := range pageRefs {
			m[pdf.Name(fmt.Sprintf("dest%02d", i))] = pdf.Array{r, pdf.Name("Fit")}
		}
		for i := 0; i < 6; i++ {
			m[pdf.Name(fmt.Sprintf("extra%02d", i))] = pdf.Array{pageRefs[0], pdf.Name("XYZ"), pdf.Integer(i), pdf.Integer(50), nil}
		}
		ref, err := nametree.WriteMap(out, m)
		if err != nil {
			return nil, err
		}
		meta.Catalog.Names = pdf.Dict{"Dests": ref}
	}
	if err := rm.Close(); err != nil {
		return nil, err
	}
	if err := out.Close(); err != nil {
		return nil, err
	}
	return &Seed{Name: sp.name, Password: sp.password, Data: buf.Bytes()}, nil
}

// BuildSeeds writes all seed files with the real Writer.
func BuildSeeds() ([]*Seed, error) {
	var out []*Seed
	for _, sp := range seedSpecs() {
		s, err := buildSeed(sp)
		if err != nil {
			return nil, fmt.Errorf("seed %s: %w", sp.name, err)
		}
		out = append(out, s)
	}
	return out, nil
}

// The encrypted seeds contain random salts and IVs, so the parent process
// builds the seeds once and hands them to its workers in a file.

func SaveSeeds(path string, seeds []*Seed) error {
	var b bytes.Buffer
	put := func(p []byte) {
		var l [4]byte
		binary.LittleEndian.PutUint32(l[:], uint32(len(p)))
		b.Write(l[:])
		b.Write(p)
	}
	for _, s := range seeds {
		put([]byte(s.Name))
		put([]byte(s.Password))
		put(s.Data)
	}
	return os.WriteFile(path, b.Bytes(), 0o644)
}

func LoadSeeds(path string) ([]*Seed, error) {
	data, err := os.ReadFile(path)
	if err != nil {
		return nil, err
	}
	var out []*Seed
	get := func() ([]byte, error) {
		if len(data) < 4 {
			return nil, fmt.Errorf("seed file truncated")
		}
		n := int(binary.LittleEndian.Uint32(data))
		if len(data) < 4+n {
			return nil, fmt.Errorf("seed file truncated")
		}
		p := data[4 : 4+n : 4+n]
		data = data[4+n:]
		return p, nil
	}
	for len(data) > 0 {
		n, err := get()
		if err != nil {
			return nil, err
		}
		p, err := get()
		if err != nil {
			return nil, err
		}
		d, err := get()
		if err != nil {
			return nil, err
		}
		out = append(out, &Seed{Name: string(n), Password: string(p), Data: d})
	}
	return out, nil
}
