//go:build verif

package c05

import (
	"bytes"
	"fmt"
	"io"
	"regexp"
	"runtime"
	"runtime/metrics"
	"sort"
	"strings"
	"sync/atomic"
	"time"

	"seehuhn.de/go/pdf"
	"seehuhn.de/go/pdf/acroform"
	annotdecode "seehuhn.de/go/pdf/annotation/decode"
	"seehuhn.de/go/pdf/font"
	"seehuhn.de/go/pdf/font/dict"
	"seehuhn.de/go/pdf/font/glyphdata"
	"seehuhn.de/go/pdf/font/glyphdata/cffglyphs"
	"seehuhn.de/go/pdf/font/glyphdata/sfntglyphs"
	"seehuhn.de/go/pdf/font/glyphdata/type1glyphs"
	"seehuhn.de/go/pdf/font/textextract"
	"seehuhn.de/go/pdf/graphics/extract"
	"seehuhn.de/go/pdf/internal/limits"
	"seehuhn.de/go/pdf/nametree"
	"seehuhn.de/go/pdf/outline"
	"seehuhn.de/go/pdf/page"
	"seehuhn.de/go/pdf/pagetree"
	"seehuhn.de/go/pdf/reader"
)

// Entry modes of a walk.
const (
	modeRecover = iota // pdf.NewReader, ErrorHandlingRecover
	modeReport         // pdf.NewReader, ErrorHandlingReport
	modeStop           // pdf.NewReader, ErrorHandlingStop
	modeSeq            // pdf.SequentialScan + FileInfo.MakeReader
	numModes
)

var modeNames = [numModes]string{"recover", "report", "stop", "sequential"}

const (
	drainCap   = 1 << 20  // bytes read from one decoded stream
	allocSlack = 64 << 20 // clause (3)
	maxObjects = 1 << 16  // objects fetched per walk (an xref stream may declare more; stated as an assumption)
	maxPages   = 4096
)

// obs is what one walk showed.
type obs struct {
	openErr    error
	stage      map[string]string // stage -> "ok" | error class (errors are never judged)
	panics     []panicInfo
	objects    int   // objects fetched
	streams    int   // streams drained
	decoded    int64 // bytes produced by the drained streams
	budgetSum  int64 // sum of limits.StreamBudget(raw length) over the streams handed to DecodeStream
	pages      int
	fonts      int
	glyphSets  int // font programs loaded through the *glyphs.FromStream helpers
	chars      int
	olItems    int    // outline items decoded
	nameKeys   int    // entries the destination name tree yielded
	annots     int    // annotations the per-page annotation reader returned
	pageAnnots int    // annotations the page decoder returned
	formNodes  int    // nodes of the interactive form's field tree
	inner      uint64 // allocation of the stages nested in the current one
	alloc      uint64
	allocBy    map[string]uint64 // allocation per stage
	allocStage string            // the stage that allocated most
	leaked     int
	leakSig    string
}

type panicInfo struct {
	Stage string
	Val   string
	Site  string
}

var (
	readBuf     = make([]byte, 32<<10)
	allocSample = []metrics.Sample{{Name: "/gc/heap/allocs:bytes"}}
)

// totalAlloc returns the cumulative number of heap bytes allocated by the
// process (the same quantity as MemStats.TotalAlloc, read without stopping
// the world).
func totalAlloc() uint64 {
	metrics.Read(allocSample)
	return allocSample[0].Value.Uint64()
}

// curStage is the innermost stage the walk is in (read by the hang sampler).
var curStage atomic.Value

func init() { curStage.Store("") }

// guard runs f and converts a panic into an observation.
func (o *obs) guard(stage string, f func() error) {
	prevStage := curStage.Swap(stage)
	defer curStage.Store(prevStage)
	// allocation is attributed to the innermost stage
	a0 := totalAlloc()
	saved := o.inner
	o.inner = 0
	defer func() {
		d := totalAlloc() - a0
		o.allocBy[stage] += d - o.inner
		o.inner = saved + d
	}()
	defer func() {
		if p := recover(); p != nil {
			o.panics = append(o.panics, panicInfo{Stage: stage, Val: clip(fmt.Sprint(p), 120), Site: panicSite()})
			o.stage[stage] = "panic"
		}
	}()
	err := f()
	// a stage that runs several times (get, drain, page ...) reports the worst result
	if err != nil {
		if o.stage[stage] != "panic" {
			o.stage[stage] = "err"
		}
	} else if _, ok := o.stage[stage]; !ok {
		o.stage[stage] = "ok"
	}
}

func clip(s string, n int) string {
	if len(s) > n {
		return s[:n]
	}
	return s
}

// walk opens data in the given mode and visits everything the property
// statement names.  It never fails on its own: all it does is call the
// library and count.
func walk(data []byte, password string, mode int) (o obs) {
	o.stage = map[string]string{}
	o.allocBy = map[string]uint64{}
	a0 := totalAlloc()
	defer func() {
		o.alloc = totalAlloc() - a0
		var best uint64
		for st, n := range o.allocBy {
			if n > best || (n == best && st < o.allocStage) {
				best, o.allocStage = n, st
			}
		}
	}()

	var r *pdf.Reader
	o.guard("open", func() error {
		opt := &pdf.ReaderOptions{Password: password}
		var err error
		switch mode {
		case modeRecover:
			opt.ErrorHandling = pdf.ErrorHandlingRecover
		case modeReport:
			opt.ErrorHandling = pdf.ErrorHandlingReport
		case modeStop:
			opt.ErrorHandling = pdf.ErrorHandlingStop
		}
		if mode == modeSeq {
			var fi *pdf.FileInfo
			fi, err = pdf.SequentialScan(bytes.NewReader(data), int64(len(data)))
			if err == nil {
				r, err = fi.MakeReader(opt)
			}
		} else {
			r, err = pdf.NewReader(bytes.NewReader(data), int64(len(data)), opt)
		}
		o.openErr = err
		if err != nil {
			r = nil
		}
		return err
	})
	if r == nil {
		return o
	}
	defer r.Close()

	// every cross-referenced object; every stream through its filter chain
	refs := pdf.VerifXRefReferences(r)
	if len(refs) > maxObjects {
		refs = refs[:maxObjects]
	}
	for _, ref := range refs {
		var obj pdf.Native
		o.guard("get", func() error {
			var err error
			obj, err = r.Get(ref, true)
			return err
		})
		o.objects++
		if stm, ok := obj.(*pdf.Stream); ok {
			o.guard("drain", func() error { return o.drain(r, stm) })
		}
	}

	meta := r.GetMeta()
	x := pdf.NewExtractor(r)

	// page tree, pages, fonts, content streams
	rd := reader.New(x)
	rd.Character = func(c font.Code) error { o.chars++; return nil }
	rd.TextEvent = func(reader.TextEvent, float64) {}
	seenFont := map[pdf.Reference]bool{}
	if meta.Catalog != nil {
		o.guard("pagetree", func() error {
			it := pagetree.NewIterator(r)
			for _, pageDict := range it.All() {
				o.pages++
				if o.pages > maxPages {
					// keep iterating (a correct iterator yields every page object
					// once, so this ends after at most as many steps as the file
					// has objects) but stop decoding
					continue
				}
				var pg *page.Page
				o.guard("page", func() error {
					var err error
					pg, err = pdf.Decode(pdf.CursorAt(x, nil), pageDict, page.Decode)
					return err
				})
				if pg != nil {
					o.pageAnnots += len(pg.Annots)
				}
				// the page's annotations once more, the way cmd/pdf-annotations and
				// printprep read them: a second consumer on the same extractor
				o.guard("annots", func() error {
					_, as, err := annotdecode.PageAnnotations(pdf.CursorAt(x, nil), pageDict["Annots"])
					o.annots += len(as)
					return err
				})
				// every font resource, whether or not the page decoded
				o.guard("fonts", func() error { return o.fonts_(x, pageDict, seenFont) })
				if pg != nil {
					o.guard("content", func() error {
						rd.Reset()
						return rd.ProcessPage(pg)
					})
				}
			}
			return it.Err
		})
		o.guard("outline", func() error {
			ol, err := pdf.Decode(pdf.NewCursor(r), meta.Catalog.Outlines, outline.Decode)
			if ol != nil {
				// (iterative: the tree may be 256 levels deep and very wide)
				todo := [][]*outline.Item{ol.Items}
				for len(todo) > 0 {
					items := todo[len(todo)-1]
					todo = todo[:len(todo)-1]
					o.olItems += len(items)
					for _, it := range items {
						if len(it.Children) > 0 {
							todo = append(todo, it.Children)
						}
					}
				}
			}
			return err
		})
		o.guard("names", func() error { return o.names(r, meta.Catalog) })
		// the interactive form, through the extractor the pages were read with
		o.guard("form", func() error {
			form, err := pdf.Decode(pdf.CursorAt(x, nil), meta.Catalog.AcroForm, annotdecode.Form)
			if form != nil {
				todo := [][]acroform.Node{form.Fields}
				for len(todo) > 0 {
					nodes := todo[len(todo)-1]
					todo = todo[:len(todo)-1]
					o.formNodes += len(nodes)
					for _, nd := range nodes {
						if g, ok := nd.(*acroform.Group); ok && len(g.Children) > 0 {
							todo = append(todo, g.Children)
						}
					}
				}
			}
			return err
		})
	}
	return o
}

// drain reads a stream through pdf.DecodeStream up to drainCap bytes.
func (o *obs) drain(r pdf.Getter, stm *pdf.Stream) error {
	o.streams++
	o.budgetSum += limits.StreamBudget(stm.Length())
	rc, err := pdf.DecodeStream(r, nil, stm)
	if err != nil {
		return err
	}
	var n int64
	idle := 0
	for n < drainCap {
		k, err := rc.Read(readBuf)
		n += int64(k)
		if err != nil {
			o.decoded += n
			rc.Close()
			if err == io.EOF {
				return nil
			}
			return err
		}
		if k == 0 {
			if idle++; idle > 1000 {
				break
			}
		} else {
			idle = 0
		}
	}
	o.decoded += n
	return rc.Close()
}

// fonts_ runs extract.Font on every entry of the page's /Resources /Font
// dictionary and loads the glyph data of each font the way font/dict's
// FontInfo documentation prescribes.
func (o *obs) fonts_(x *pdf.Extractor, pageDict pdf.Dict, seen map[pdf.Reference]bool) error {
	c := pdf.CursorAt(x, nil)
	res, err := c.Dict(pageDict["Resources"])
	if err != nil {
		return err
	}
	fd, err := c.Dict(res["Font"])
	if err != nil {
		return err
	}
	keys := make([]string, 0, len(fd))
	for k := range fd {
		keys = append(keys, string(k))
	}
	sort.Strings(keys)
	var first error
	for _, k := range keys {
		obj := fd[pdf.Name(k)]
		if ref, ok := obj.(pdf.Reference); ok {
			if seen[ref] {
				continue
			}
			seen[ref] = true
		}
		o.fonts++
		f, err := pdf.Decode(pdf.CursorAt(x, nil), obj, extract.Font)
		if err != nil {
			if first == nil {
				first = err
			}
			continue
		}
		if f == nil {
			continue
		}
		o.glyphData(f)
	}
	return first
}

func (o *obs) glyphData(f font.Instance) {
	// the library's own route to the glyph data (cmd/pdf-extract uses it as
	// the fallback of text extraction)
	// (textextract.SpaceWidth, the other consumer, is reached through
	// reader.ProcessPage because the walk installs a TextEvent callback)
	textextract.GlyphNameMapping(f)
	var ff *glyphdata.Stream
	switch fi := f.FontInfo().(type) {
	case *dict.FontInfoSimple:
		ff = fi.FontFile
	case *dict.FontInfoCID:
		ff = fi.FontFile
	case *dict.FontInfoGlyfEmbedded:
		ff = fi.FontFile
	}
	if ff == nil {
		return
	}
	o.glyphSets++
	switch ff.Type {
	case glyphdata.Type1:
		type1glyphs.FromStream(ff)
	case glyphdata.CFF, glyphdata.CFFSimple, glyphdata.OpenTypeCFF, glyphdata.OpenTypeCFFSimple:
		cffglyphs.FromStream(ff)
	case glyphdata.TrueType, glyphdata.OpenTypeGlyf:
		sfntglyphs.FromStream(ff)
	}
}

// names walks the destination name tree (anchor internal/pdftree).
func (o *obs) names(r pdf.Getter, cat *pdf.Catalog) error {
	if cat.Names == nil {
		return nil
	}
	nd, err := pdf.NewCursor(r).Dict(cat.Names)
	if err != nil {
		return err
	}
	if nd["Dests"] == nil {
		return nil
	}
	if _, err := nametree.Size(r, nd["Dests"]); err != nil {
		return err
	}
	t, err := nametree.ExtractFromFile(r, nd["Dests"])
	if err != nil || t == nil {
		return err
	}
	// no cap: a tree yields at most the entries the file contains
	for range t.All() {
		o.nameKeys++
	}
	t.Lookup("dest01")
	_, err = nametree.ExtractInMemory(r, nd["Dests"])
	return err
}

// ---------------------------------------------------------------------------
// panic sites and goroutine accounting (same technique as C08)

var reFrame = regexp.MustCompile(`(?m)^(\S+)\(.*\)\n\t\S+/([^/\s]+:\d+)`)

func panicSite() string {
	buf := make([]byte, 32<<10)
	buf = buf[:runtime.Stack(buf, false)]
	for _, m := range reFrame.FindAllSubmatch(buf, -1) {
		fn := string(m[1])
		if strings.HasPrefix(fn, "runtime.") || strings.HasPrefix(fn, "runtime/") || strings.HasPrefix(fn, "panic") ||
			strings.Contains(fn, "zzverif/") {
			continue
		}
		return shortFunc(fn) + "@" + string(m[2])
	}
	return "unknown"
}

func shortFunc(fn string) string {
	fn = strings.TrimPrefix(fn, "seehuhn.de/go/pdf/")
	fn = strings.TrimPrefix(fn, "seehuhn.de/go/")
	return fn
}

type gtracker struct {
	baseline  int
	known     map[string]bool
	confirmed map[string]bool
}

var (
	reGoroutine = regexp.MustCompile(`(?m)^goroutine (\d+) \[([^\]]*)\]:`)
	reCreatedBy = regexp.MustCompile(`(?m)^created by (\S+)`)
)

type ginfo struct{ id, state, createdBy, top string }

func dumpGoroutines() []ginfo {
	n := 1 << 18
	var buf []byte
	for {
		buf = make([]byte, n)
		k := runtime.Stack(buf, true)
		if k < n {
			buf = buf[:k]
			break
		}
		n *= 4
	}
	var out []ginfo
	for _, stanza := range strings.Split(string(buf), "\n\n") {
		m := reGoroutine.FindStringSubmatch(stanza)
		if m == nil {
			continue
		}
		g := ginfo{id: m[1], state: m[2]}
		if i := strings.IndexByte(g.state, ','); i >= 0 {
			g.state = g.state[:i]
		}
		if c := reCreatedBy.FindStringSubmatch(stanza); c != nil {
			g.createdBy = shortFunc(c[1])
		}
		lines := strings.Split(stanza, "\n")
		for i := 1; i < len(lines); i += 2 {
			fn := lines[i]
			if j := strings.LastIndexByte(fn, '('); j > 0 {
				fn = fn[:j]
			}
			if strings.HasPrefix(fn, "runtime.") || strings.HasPrefix(fn, "sync.") || strings.HasPrefix(fn, "created by") {
				continue
			}
			g.top = shortFunc(fn)
			break
		}
		out = append(out, g)
	}
	return out
}

func newGTracker() *gtracker {
	t := &gtracker{known: map[string]bool{}, confirmed: map[string]bool{}}
	t.rebase()
	return t
}

func (t *gtracker) rebase() {
	t.baseline = runtime.NumGoroutine()
	t.known = map[string]bool{}
	for _, g := range dumpGoroutines() {
		t.known[g.id] = true
	}
}

func blockedState(s string) bool {
	switch s {
	case "chan receive", "chan send", "select", "sync.Cond.Wait", "sync.Mutex.Lock", "semacquire", "sync.WaitGroup.Wait",
		"chan receive (nil chan)", "chan send (nil chan)", "select (no cases)":
		return true
	}
	return false
}

// settle waits (up to 3 s) for the goroutine count to return to the
// baseline; it returns the number of goroutines that stayed and their
// signature.  Once a signature has been confirmed by a full 3 s wait in this
// process, further goroutines sitting *blocked* with the identical signature
// are accepted after >= 5 ms, and become part of the baseline.
func (t *gtracker) settle() (int, string) {
	for i := 0; i < 200; i++ {
		if runtime.NumGoroutine() <= t.baseline {
			return 0, ""
		}
		runtime.Gosched()
	}
	start := time.Now()
	sleep := 200 * time.Microsecond
	for time.Since(start) < 3*time.Second {
		if runtime.NumGoroutine() <= t.baseline {
			return 0, ""
		}
		time.Sleep(sleep)
		if sleep < 20*time.Millisecond {
			sleep *= 2
		}
		if time.Since(start) > 5*time.Millisecond && len(t.confirmed) > 0 {
			if n, sig, blocked, ids := t.extra(); n > 0 && blocked && t.confirmed[sig] {
				t.adopt(ids)
				return n, sig
			}
		}
	}
	if runtime.NumGoroutine() <= t.baseline {
		return 0, ""
	}
	n, sig, _, ids := t.extra()
	t.confirmed[sig] = true
	t.adopt(ids)
	return n, sig
}

func (t *gtracker) adopt(ids []string) {
	for _, id := range ids {
		t.known[id] = true
	}
	t.baseline = runtime.NumGoroutine()
}

func (t *gtracker) extra() (int, string, bool, []string) {
	var sigs, ids []string
	blocked := true
	for _, g := range dumpGoroutines() {
		if t.known[g.id] || g.state == "running" {
			continue
		}
		ids = append(ids, g.id)
		if !blockedState(g.state) {
			blocked = false
		}
		sigs = append(sigs, "created-by="+g.createdBy+";blocked-in="+g.top+"["+g.state+"]")
	}
	sort.Strings(sigs)
	var u []string
	for i, s := range sigs {
		if i == 0 || s != sigs[i-1] {
			u = append(u, s)
		}
	}
	return len(sigs), strings.Join(u, " + "), blocked && len(sigs) > 0, ids
}
