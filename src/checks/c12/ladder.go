//go:build verif

package c12

import (
	"fmt"
	"math/bits"

	"seehuhn.de/go/pdf/zzverif/engine/ev"
	"seehuhn.de/go/pdf/zzverif/ref/codespace"
)

// Space S5: code spaces with many different sub-trees ("ladders").
//
// A ladder is a list of m ranges with pairwise different first bytes and
// pairwise different intervals at one later position (the "menu" position):
// range j has the single first byte base+stride*j, at the menu position the
// j-th interval of a menu (all intervals lo<=hi over a small set of bounds),
// and [40,7F] at every other position.  No two ranges of a ladder share a first
// byte, so every subset is prefix free, and no two ranges have the same
// continuation, so the codec needs one sub-tree (chain) per range: the lookup
// tree of a subset of k ranges has between k and 2k+1 root cells plus up to
// 3 cells per further byte of every range.  S5 runs EVERY non-empty subset of
// every ladder (2^m-1 sets) and judges, as in the other spaces, every string
// of the induced partition.  Spaces S1..S4 have at most 3 ranges (<= 22 tree
// nodes); the named sets reach 23.

// mid is the interval at the positions of a ladder range that are neither the
// first byte nor the menu position.
var mid = [2]byte{0x40, 0x7f}

const ladderBase = 0x20

type ladder struct {
	name   string
	length func(j int) int // code length of range j
	menuAt func(n int) int // menu position in a range of n bytes
	stride int
	menu   [][2]byte
}

func (l *ladder) list() []codespace.Range {
	out := make([]codespace.Range, len(l.menu))
	for j, iv := range l.menu {
		var r codespace.Range
		r.N = l.length(j)
		for p := 1; p < r.N; p++ {
			r.Lo[p], r.Hi[p] = mid[0], mid[1]
		}
		b := byte(ladderBase + l.stride*j)
		r.Lo[0], r.Hi[0] = b, b
		m := l.menuAt(r.N)
		r.Lo[m], r.Hi[m] = iv[0], iv[1]
		out[j] = r
	}
	return out
}

func constLen(n int) func(int) int { return func(int) int { return n } }
func lastPos(n int) int            { return n - 1 }
func secondPos(int) int            { return 1 }

var (
	menuBounds4 = []byte{0x00, 0x10, 0x80, 0xff} // 10 intervals
	// bounds2 (00 10 7F 80 FF) gives the 15 intervals of the two-byte list,
	// bounds3 (00 80 FF) the 6 intervals of the three- and four-byte lists
)

// ladders returns the ladders of a tier.
func ladders(r *ev.Run) []ladder {
	m15 := intervals(bounds2)
	m10 := intervals(menuBounds4)
	m6 := intervals(bounds3)
	mixed := func(j int) int { return 2 + j%3 }
	ls := []ladder{
		{"L2/stride1/menu15", constLen(2), lastPos, 1, m15},
		{"L2/stride2/menu15", constLen(2), lastPos, 2, m15},
		{"L3-menu-last/stride2/menu10", constLen(3), lastPos, 2, m10},
		{"L3-menu-2nd/stride2/menu10", constLen(3), secondPos, 2, m10},
		{"L4-menu-last/stride2/menu6", constLen(4), lastPos, 2, m6},
		{"L4-menu-2nd/stride2/menu6", constLen(4), secondPos, 2, m6},
		{"L234-menu-last/stride2/menu6", mixed, lastPos, 2, m6},
	}
	if r.Thorough() {
		ls = append(ls,
			ladder{"L4-menu-last/stride2/menu10", constLen(4), lastPos, 2, m10},
			ladder{"L4-menu-2nd/stride2/menu10", constLen(4), secondPos, 2, m10},
			ladder{"L234-menu-last/stride2/menu10", mixed, lastPos, 2, m10},
			ladder{"L3-menu-last/stride1/menu15", constLen(3), lastPos, 1, m15},
			ladder{"L3-menu-2nd/stride1/menu15", constLen(3), secondPos, 1, m15},
		)
	}
	return ls
}

// subsets runs every non-empty subset of list.
func (ck *checker) subsets(space string, list []codespace.Range) {
	r := ck.r
	cnt := r.Counter("sets_enumerated")
	n := len(list)
	r.Par(1<<n, func(mask int) {
		if mask == 0 || r.Expired() {
			return
		}
		idx := make([]int, 0, n)
		for m := uint(mask); m != 0; m &= m - 1 {
			idx = append(idx, bits.TrailingZeros(m))
		}
		var e evaluator
		cnt.Add(1)
		ck.evalSet(&e, space, mkSet(list, idx...))
	})
}

// runLadders is space S5.
func (ck *checker) runLadders() {
	r := ck.r
	var names []string
	var sizes []int
	for _, l := range ladders(r) {
		l := l
		list := l.list()
		names = append(names, l.name)
		sizes = append(sizes, 1<<len(list)-1)
		ck.subsets("S5:"+l.name, list)
	}
	r.Dim("S5_ladders", names)
	r.Dim("S5_all_nonempty_subsets_per_ladder", sizes)
	r.Dim("S5_ladder_shape", fmt.Sprintf("range j: first byte %02X+stride*j, menu position: j-th interval over the menu bounds, other positions [%02X,%02X]; menu15 = intervals over 00 10 7F 80 FF, menu10 = intervals over 00 10 80 FF, menu6 = intervals over 00 80 FF; L234 = range j has 2+j%%3 bytes", ladderBase, mid[0], mid[1]))
	l0 := ladders(r)[0]
	r.Sample(caseOf("S5:"+l0.name, mkSet(l0.list(), 0, 3, 5, 6, 8, 11, 12), nil))
}

// treeSizeClass names the bucket of a linearised tree size; the buckets end
// at powers of two (slice capacities).
func treeSizeClass(n int) string {
	switch {
	case n <= 16:
		return "tree-nodes:0..16"
	case n <= 32:
		return "tree-nodes:17..32"
	case n <= 64:
		return "tree-nodes:33..64"
	case n <= 128:
		return "tree-nodes:65..128"
	}
	return "tree-nodes:129.."
}
