//go:build verif

// Package c12 decides C12: the character-code codec implements exactly its
// code space ranges.
package c12

import (
	"bytes"
	"encoding/hex"
	"encoding/json"
	"fmt"
	"sort"
	"strings"
	"sync"
	"time"

	"seehuhn.de/go/pdf/font/charcode"
	"seehuhn.de/go/pdf/zzverif/engine/ev"
	"seehuhn.de/go/pdf/zzverif/ref/codespace"
)

// Case is one replayable case: a code space (ranges in the order handed to
// NewCodec) and the input on which the oracle and the codec disagree.  A
// replay re-runs the whole code space.
type Case struct {
	Space  string      `json:"space"`
	Ranges [][2]string `json:"ranges"` // low, high in hex
	Input  string      `json:"input"`  // hex; the byte string given to Decode (or the code, for CodeSpaceRange / AppendCode clauses)
}

func caseOf(space string, rs codespace.Set, in []byte) Case {
	c := Case{Space: space, Input: strings.ToUpper(hex.EncodeToString(in))}
	for _, r := range rs {
		c.Ranges = append(c.Ranges, [2]string{fmt.Sprintf("%X", r.Lo[:r.N]), fmt.Sprintf("%X", r.Hi[:r.N])})
	}
	return c
}

func (c Case) set() (rs codespace.Set, err error) {
	defer func() {
		if p := recover(); p != nil {
			err = fmt.Errorf("%v", p)
		}
	}()
	for _, r := range c.Ranges {
		rs = append(rs, codespace.R(r[0], r[1]))
	}
	return rs, nil
}

func toLib(rs codespace.Set) charcode.CodeSpaceRange {
	out := make(charcode.CodeSpaceRange, len(rs))
	for i, r := range rs {
		out[i] = charcode.Range{Low: append([]byte{}, r.Lo[:r.N]...), High: append([]byte{}, r.Hi[:r.N]...)}
	}
	return out
}

// fromLib converts what CodeSpaceRange() reports; ok=false if a reported
// range is not a well-formed range.
func fromLib(csr charcode.CodeSpaceRange) (codespace.Set, bool) {
	out := make(codespace.Set, 0, len(csr))
	for _, r := range csr {
		if len(r.Low) != len(r.High) || len(r.Low) < 1 || len(r.Low) > 4 {
			return nil, false
		}
		var x codespace.Range
		x.N = len(r.Low)
		copy(x.Lo[:], r.Low)
		copy(x.Hi[:], r.High)
		if !x.WellFormed() {
			return nil, false
		}
		out = append(out, x)
	}
	return out, true
}

// pack is the documented representation of a code: first byte in the least
// significant position.
func pack(b []byte) charcode.Code {
	var c charcode.Code
	for i, v := range b {
		c |= charcode.Code(v) << (8 * i)
	}
	return c
}

// symptoms ---------------------------------------------------------------------

type symptom int

const (
	symNone symptom = iota
	symRejectsValidSet
	symAcceptsPrefixConflict
	symEmptyInput
	symConsumedBounds
	symValidRejected
	symValidWrongLen
	symInvalidAccepted
	symInvalidTooFew
	symInvalidTooMany
	symReencode
	symEncode
	symEncodeDecode
	symCSRMalformed
	symCSRExtra
	symCSRMissing
	symCSREquivalent
	symPanic
	numSymptoms
)

var symptomName = [numSymptoms]string{
	symNone:                  "none",
	symRejectsValidSet:       "newcodec:rejects-prefix-free-set",
	symAcceptsPrefixConflict: "newcodec:accepts-set-with-prefix-conflict",
	symEmptyInput:            "decode:empty-input",
	symConsumedBounds:        "decode:consumed-outside-1..available",
	symValidRejected:         "decode:valid-code-rejected",
	symValidWrongLen:         "decode:valid-code-wrong-length",
	symInvalidAccepted:       "decode:invalid-input-accepted",
	symInvalidTooFew:         "decode:invalid-input-consumes-too-few",
	symInvalidTooMany:        "decode:invalid-input-consumes-too-many",
	symReencode:              "reencode:AppendCode(Decode(s))-differs-from-consumed-bytes",
	symEncode:                "encode:AppendCode(valid-code)-differs-from-code-bytes",
	symEncodeDecode:          "encode-decode:Decode(AppendCode(c))-differs-from-c",
	symCSRMalformed:          "codespacerange:malformed-range",
	symCSRExtra:              "codespacerange:reports-codes-not-in-the-code-space",
	symCSRMissing:            "codespacerange:omits-codes-of-the-code-space",
	symCSREquivalent:         "codespacerange:Equivalent-disagrees-with-the-codes-described",
	symPanic:                 "panic",
}

// failure is one failed oracle clause on one input.
type failure struct {
	sym    symptom
	fp     string
	in     [4]byte
	n      int
	detail string // only filled by cold paths (panic, CodeSpaceRange)
	// what Decode returned / what the oracle wanted
	gotValid bool
	gotCons  int
	gotCode  charcode.Code
	want     codespace.Verdict
	enc      [8]byte
	encN     int
}

func (f *failure) input() []byte { return f.in[:f.n] }

// less orders failures of one code space: shorter input first.
func (f *failure) less(g *failure) bool {
	if f.n != g.n {
		return f.n < g.n
	}
	return bytes.Compare(f.in[:f.n], g.in[:g.n]) < 0
}

// witness is the smallest failing case of a fingerprint seen so far.
type witness struct {
	space string
	rs    codespace.Set
	f     failure
	count int64
	sets  int64
}

func rank(rs codespace.Set) (int, int) {
	t := 0
	for _, r := range rs {
		t += r.N
	}
	return len(rs), t
}

func (w *witness) betterThan(space string, rs codespace.Set, f *failure) bool {
	a1, a2 := rank(w.rs)
	b1, b2 := rank(rs)
	if a1 != b1 {
		return a1 < b1
	}
	if a2 != b2 {
		return a2 < b2
	}
	if w.f.n != f.n {
		return w.f.n < f.n
	}
	ka, kb := w.rs.String(), rs.String()
	if ka != kb {
		return ka < kb
	}
	return !f.less(&w.f)
}

// checker holds the state shared by all workers of a run.
type checker struct {
	r  *ev.Run
	mu sync.Mutex
	w  map[string]*witness
}

func newChecker(r *ev.Run) *checker { return &checker{r: r, w: map[string]*witness{}} }

func (ck *checker) merge(space string, rs codespace.Set, local map[string]*localFail) {
	ck.mu.Lock()
	defer ck.mu.Unlock()
	for fp, lf := range local {
		w := ck.w[fp]
		if w == nil {
			w = &witness{space: space, rs: append(codespace.Set{}, rs...), f: lf.f}
			ck.w[fp] = w
		} else if !w.betterThan(space, rs, &lf.f) {
			w.space, w.rs, w.f = space, append(codespace.Set{}, rs...), lf.f
		}
		w.count += lf.count
		w.sets++
	}
}

// report hands the collected violations to the evidence engine (smallest
// witness per fingerprint).
func (ck *checker) report() {
	fps := make([]string, 0, len(ck.w))
	for fp := range ck.w {
		fps = append(fps, fp)
	}
	sort.Strings(fps)
	for _, fp := range fps {
		w := ck.w[fp]
		what := fmt.Sprintf("%s [%d failing executions in %d code spaces; smallest witness shown]", describe(w.rs, &w.f), w.count, w.sets)
		ck.r.Violation(fp, what, caseOf(w.space, w.rs, w.f.input()))
	}
}

func describe(rs codespace.Set, f *failure) string {
	in := f.input()
	switch f.sym {
	case symRejectsValidSet:
		return fmt.Sprintf("NewCodec(%v) fails (%s) although no code is a prefix of another", rs, f.detail)
	case symAcceptsPrefixConflict:
		return fmt.Sprintf("NewCodec(%v) succeeds although a code of one range is a prefix of a code of another", rs)
	case symPanic, symCSRMalformed, symCSREquivalent:
		return fmt.Sprintf("code space %v: %s", rs, f.detail)
	case symCSRExtra, symCSRMissing:
		return fmt.Sprintf("code space %v: CodeSpaceRange() = %s; code <%X> is %s", rs, f.detail, in,
			map[bool]string{true: "reported but not in the code space", false: "in the code space but not reported"}[f.sym == symCSRExtra])
	case symEncode:
		return fmt.Sprintf("code space %v: AppendCode(nil, %#x) = <%X>, want the valid code <%X>", rs, uint32(pack(in)), f.enc[:f.encN], in)
	case symEncodeDecode:
		return fmt.Sprintf("code space %v: Decode(AppendCode(nil, %#x)) = (%#x, %d, %v), want (%#x, %d, true)", rs, uint32(pack(in)), uint32(f.gotCode), f.gotCons, f.gotValid, uint32(pack(in)), len(in))
	case symReencode:
		return fmt.Sprintf("code space %v: Decode(<%X>) = (%#x, %d, %v) but AppendCode(nil, %#x) = <%X>, want the consumed bytes <%X>", rs, in, uint32(f.gotCode), f.gotCons, f.gotValid, uint32(f.gotCode), f.enc[:f.encN], in[:min(max(f.gotCons, 0), len(in))])
	}
	want := "invalid, any number of bytes in 1..available"
	if f.want.Valid {
		want = fmt.Sprintf("a valid %d-byte code", f.want.Len)
	} else if f.want.Len > 0 && f.want.Len <= len(in) {
		want = fmt.Sprintf("invalid, %d byte(s) consumed (ISO 32000-2 9.7.6.3)", f.want.Len)
	}
	return fmt.Sprintf("code space %v: Decode(<%X>) = (%#x, consumed %d, valid %v), want %s [%s]", rs, in, uint32(f.gotCode), f.gotCons, f.gotValid, want, symptomName[f.sym])
}

// ---------------------------------------------------------------------------
// evaluation of one code space

type localFail struct {
	f     failure
	count int64
}

type tally struct {
	evals               int64
	valid               [5]int64
	invalid             [5]int64
	truncAll, truncPart int64
	symptoms            [numSymptoms]int64
}

// evaluator is the per-worker scratch state.
type evaluator struct {
	ck     *checker
	space  string
	rs     codespace.Set
	codec  *charcode.Codec
	mdl    *model
	poss   map[answer]bool
	local  map[string]*localFail
	t      tally
	buf    [4]byte
	alpha  [4][]byte
	cur    []byte // input in progress (for panic attribution)
	strict bool   // false: the specification is silent (empty code space)
}

func (e *evaluator) model() *model {
	if e.mdl == nil {
		e.mdl = newModel(e.rs)
	}
	return e.mdl
}

// sharedExplains reports whether one of the candidate answers on input in is
// wrong (differs from the reference model) and is an answer a decoder with
// gap-blind sub-tree sharing could give (see cause.go).
func (e *evaluator) sharedExplains(in []byte, cands ...answer) bool {
	m := e.model()
	if !m.hasTwins() {
		return false
	}
	v := e.rs.Classify(in)
	right := answer{v.Valid, min(v.Len, len(in))}
	clear(e.poss)
	m.possible(in, e.poss)
	for _, c := range cands {
		if c != right && e.poss[c] {
			return true
		}
	}
	return false
}

// sharedCouldMiss reports whether such a decoder could give an answer other
// than "valid code of len(in) bytes" on in.
func (e *evaluator) sharedCouldMiss(in []byte) bool {
	m := e.model()
	if !m.hasTwins() {
		return false
	}
	clear(e.poss)
	m.possible(in, e.poss)
	for a := range e.poss {
		if a != (answer{true, len(in)}) {
			return true
		}
	}
	return false
}

// fail records a failure; shared says that the failure is explained by the
// understood defect class (fingerprint fpShared), otherwise the fingerprint is
// the symptom.
func (e *evaluator) fail(f failure, shared bool) {
	e.t.symptoms[f.sym]++
	fp := symptomName[f.sym]
	if shared {
		fp = fpShared
	}
	f.fp = fp
	lf := e.local[fp]
	if lf == nil {
		e.local[fp] = &localFail{f: f, count: 1}
		return
	}
	lf.count++
	if f.less(&lf.f) {
		lf.f = f
	}
}

// evalSet runs every clause of the property on one code space.
func (ck *checker) evalSet(e *evaluator, space string, rs codespace.Set) {
	r := ck.r
	*e = evaluator{ck: ck, space: space, rs: rs, poss: e.poss, local: e.local}
	if e.poss == nil {
		e.poss = map[answer]bool{}
	}
	if e.local == nil {
		e.local = map[string]*localFail{}
	}
	clear(e.local)
	e.strict = len(rs) > 0

	func() {
		defer func() {
			if p := recover(); p != nil {
				f := failure{sym: symPanic, detail: fmt.Sprintf("panic while processing <%X>: %v", e.cur, p)}
				f.n = copy(f.in[:], e.cur)
				e.fail(f, false)
			}
		}()
		e.run()
	}()

	r.Eval(e.t.evals)
	if e.codec != nil {
		sp, _, _ := strings.Cut(space, ":")
		r.Counter("executions_" + sp).Add(e.t.evals)
		r.Counter("valid_sets_" + sp).Add(1)
		if sp == "S5" {
			r.Counter("executions_" + space).Add(e.t.evals)
		}
	}
	for n := 1; n <= 4; n++ {
		if v := e.t.valid[n]; v > 0 {
			r.OutcomeN(fmt.Sprintf("ok:valid-code:%d-byte", n), v)
		}
		if v := e.t.invalid[n]; v > 0 {
			r.OutcomeN(fmt.Sprintf("ok:invalid:consumed-%d", n), v)
		}
	}
	for _, x := range []struct {
		n string
		v int64
	}{{"ok:short-input:consumed-all-available", e.t.truncAll}, {"ok:short-input:consumed-part", e.t.truncPart}} {
		if x.v > 0 {
			r.OutcomeN(x.n, x.v)
		}
	}
	for s, v := range e.t.symptoms {
		if v > 0 {
			r.OutcomeN("fail:"+symptomName[s], v)
		}
	}
	if len(e.local) > 0 {
		ck.merge(space, rs, e.local)
	}
}

func (e *evaluator) run() {
	r := e.ck.r
	rs := e.rs
	prefixFree := rs.PrefixFree()
	codec, err := charcode.NewCodec(toLib(rs))
	switch {
	case !prefixFree && err != nil:
		r.Outcome("pruned:set-rejected:prefix-conflict")
		return
	case !prefixFree:
		r.Outcome("fail:set-accepted-despite-prefix-conflict")
		e.fail(failure{sym: symAcceptsPrefixConflict}, false)
		return
	case err != nil:
		e.fail(failure{sym: symRejectsValidSet, detail: err.Error()}, false)
		return
	}
	e.codec = codec
	r.Outcome("set-accepted")
	r.Outcome(treeSizeClass(codec.VerifNumNodes())) // reported only, never judged
	if len(rs) >= 2 {
		r.DistinctS(rs.Key())
	}

	// input alphabets: the partition induced by all range bounds for the
	// positions a code can have, the trivial partition beyond
	maxN := rs.MaxLen()
	main := codespace.Representatives(codespace.Breaks([]codespace.Set{rs}, func(int) bool { return true }))
	trivial := []byte{0x00, 0x80, 0xff}
	for p := 0; p < 4; p++ {
		if p < maxN {
			e.alpha[p] = main
		} else {
			e.alpha[p] = trivial
		}
	}

	// empty input
	e.cur = nil
	e.t.evals++
	if code, consumed, valid := codec.Decode(nil); consumed != 0 || valid {
		e.fail(failure{sym: symEmptyInput, gotValid: valid, gotCons: consumed, gotCode: code}, false)
	}

	e.dfs(0)

	// the reported code space
	e.cur = nil
	e.t.evals++
	rep := codec.CodeSpaceRange()
	got, ok := fromLib(rep)
	if !ok {
		e.fail(failure{sym: symCSRMalformed, detail: fmt.Sprintf("CodeSpaceRange() = %v contains a malformed range", rep)}, false)
		return
	}
	// the library's own decision procedure for "describes the same codes"
	// must give the answer of the reference comparison, in both directions
	_, _, differ0 := codespace.Diff(rs, got)
	orig := toLib(rs)
	if a, b := orig.Equivalent(rep), rep.Equivalent(orig); a == differ0 || b == differ0 {
		e.t.evals++
		e.fail(failure{sym: symCSREquivalent, detail: fmt.Sprintf("CodeSpaceRange() = %s; given.Equivalent(reported) = %v, reported.Equivalent(given) = %v, but the two sets describe %s codes",
			got.String(), a, b, map[bool]string{true: "different", false: "the same"}[differ0])}, false)
	}
	if code, inOrig, differ := codespace.Diff(rs, got); differ {
		f := failure{detail: got.String()}
		f.n = copy(f.in[:], code)
		if inOrig {
			f.sym = symCSRMissing
			e.fail(f, e.sharedCouldMiss(code))
		} else {
			f.sym = symCSRExtra
			e.fail(f, e.sharedExplains(code, answer{true, len(code)}))
		}
		r.Outcome("codespacerange:differs")
	} else if len(got) == len(rs) {
		r.Outcome("codespacerange:same-codes:same-number-of-ranges")
	} else if len(got) < len(rs) {
		r.Outcome("codespacerange:same-codes:fewer-ranges")
	} else {
		r.Outcome("codespacerange:same-codes:more-ranges")
	}
}

func (e *evaluator) dfs(p int) {
	for _, v := range e.alpha[p] {
		e.buf[p] = v
		e.one(e.buf[:p+1])
		if p < 3 {
			e.dfs(p + 1)
		}
	}
}

// one judges the codec on one input string.
func (e *evaluator) one(s []byte) {
	e.cur = s
	e.t.evals++
	want := e.rs.Classify(s)
	code, consumed, valid := e.codec.Decode(s)

	mk := func(sym symptom) failure {
		f := failure{sym: sym, gotValid: valid, gotCons: consumed, gotCode: code, want: want}
		f.n = copy(f.in[:], s)
		return f
	}
	got := answer{valid, consumed}

	bad := false
	switch {
	case consumed < 1 || consumed > len(s):
		e.fail(mk(symConsumedBounds), e.sharedExplains(s, got))
		return
	case want.Valid && !valid:
		e.fail(mk(symValidRejected), e.sharedExplains(s, got))
		bad = true
	case want.Valid && consumed != want.Len:
		e.fail(mk(symValidWrongLen), e.sharedExplains(s, got))
		bad = true
	case !want.Valid && valid:
		e.fail(mk(symInvalidAccepted), e.sharedExplains(s, got))
		bad = true
	case want.Valid:
		e.t.valid[consumed]++
	case e.strict && want.Len <= len(s):
		// the specification prescribes want.Len bytes and they are available
		if consumed < want.Len {
			e.fail(mk(symInvalidTooFew), e.sharedExplains(s, got))
			bad = true
		} else if consumed > want.Len {
			e.fail(mk(symInvalidTooMany), e.sharedExplains(s, got))
			bad = true
		} else {
			e.t.invalid[consumed]++
		}
	default:
		// prescribed length exceeds the input (or empty code space): the
		// specification is silent; 1..available is accepted (checked above)
		if consumed == len(s) {
			e.t.truncAll++
		} else {
			e.t.truncPart++
		}
	}

	// decoding then re-encoding reproduces the consumed bytes.  A Code does
	// not carry its length, so when the input ends before the prescribed
	// length AppendCode cannot know where it ended: only the prefix is
	// demanded then.
	var scratch [8]byte
	enc := e.codec.AppendCode(scratch[:0], code)
	short := !e.strict || want.Len > len(s)
	okEnc := bytes.Equal(enc, s[:consumed])
	if short && !okEnc {
		okEnc = len(enc) >= consumed && len(enc) <= 4 && bytes.Equal(enc[:consumed], s[:consumed])
	}
	if !okEnc {
		f := mk(symReencode)
		f.encN = copy(f.enc[:], enc)
		// AppendCode walks the same tree as Decode; the length of its
		// output is the tree's answer for an input that is long enough
		sh := bad && e.sharedExplains(s, got)
		if !sh && len(enc) <= 4 {
			sh = e.sharedExplains(enc, answer{true, len(enc)}, answer{false, len(enc)})
		}
		e.fail(f, sh)
	}

	// encoding then decoding reproduces the code, for every valid code
	if want.Valid && want.Len == len(s) {
		c := pack(s)
		enc := e.codec.AppendCode(scratch[:0], c)
		sh := func() bool { return bad && e.sharedExplains(s, got) }
		if !bytes.Equal(enc, s) {
			f := mk(symEncode)
			f.encN = copy(f.enc[:], enc)
			e.fail(f, sh())
		}
		c2, n2, v2 := e.codec.Decode(enc)
		if c2 != c || n2 != len(s) || !v2 {
			f := mk(symEncodeDecode)
			f.gotCode, f.gotCons, f.gotValid = c2, n2, v2
			e.fail(f, sh())
		}
	}
}

// ---------------------------------------------------------------------------
// the enumerated spaces

// intervals returns every [lo,hi] with lo <= hi over the bounds.
func intervals(bounds []byte) [][2]byte {
	var out [][2]byte
	for i, lo := range bounds {
		for _, hi := range bounds[i:] {
			out = append(out, [2]byte{lo, hi})
		}
	}
	return out
}

// ranges returns every n-byte range whose per-byte intervals come from iv.
func ranges(n int, iv [][2]byte) []codespace.Range {
	var out []codespace.Range
	idx := make([]int, n)
	for {
		var r codespace.Range
		r.N = n
		for p := 0; p < n; p++ {
			r.Lo[p], r.Hi[p] = iv[idx[p]][0], iv[idx[p]][1]
		}
		out = append(out, r)
		p := n - 1
		for ; p >= 0; p-- {
			idx[p]++
			if idx[p] < len(iv) {
				break
			}
			idx[p] = 0
		}
		if p < 0 {
			return out
		}
	}
}

var (
	bounds1 = []byte{0x00, 0x0f, 0x10, 0x7f, 0x80, 0xff}
	bounds2 = []byte{0x00, 0x10, 0x7f, 0x80, 0xff}
	bounds3 = []byte{0x00, 0x80, 0xff}
	// per-byte intervals of the reduced alphabet used for three ranges of
	// lengths 1..4 (a full cell, a low cell, a high cell with a gap below it,
	// an interval overlapping the high cell)
	reduced = [][2]byte{{0x00, 0xff}, {0x00, 0x00}, {0x80, 0xff}, {0x00, 0x80}}
)

// mkSet builds the set in a deterministic but varying order, so that the
// order of the ranges handed to NewCodec is exercised too.
func mkSet(list []codespace.Range, idx ...int) codespace.Set {
	s := make(codespace.Set, len(idx))
	sum := 0
	for _, i := range idx {
		sum += i
	}
	for k, i := range idx {
		if sum%2 == 1 {
			s[len(idx)-1-k] = list[i]
		} else {
			s[k] = list[i]
		}
	}
	return s
}

// triples runs all sets of three ranges of list[:n] that satisfy keep.
func (ck *checker) triples(space string, list []codespace.Range, keep func(i, j, k int) bool) {
	n := len(list)
	r := ck.r
	cnt := r.Counter("sets_enumerated")
	r.Par(n*n, func(ij int) {
		i, j := ij/n, ij%n
		if i >= j || r.Expired() {
			return
		}
		var e evaluator
		for k := j + 1; k < n; k++ {
			if keep != nil && !keep(i, j, k) {
				continue
			}
			cnt.Add(1)
			ck.evalSet(&e, space, mkSet(list, i, j, k))
		}
	})
}

// pairs runs all sets of two ranges (i<j) that satisfy keep.
func (ck *checker) pairs(space string, list []codespace.Range, keep func(i, j int) bool) {
	n := len(list)
	r := ck.r
	cnt := r.Counter("sets_enumerated")
	r.Par(n, func(i int) {
		if r.Expired() {
			return
		}
		var e evaluator
		for j := i + 1; j < n; j++ {
			if keep != nil && !keep(i, j) {
				continue
			}
			cnt.Add(1)
			ck.evalSet(&e, space, mkSet(list, i, j))
		}
	})
}

func (ck *checker) singles(space string, list []codespace.Range) {
	r := ck.r
	cnt := r.Counter("sets_enumerated")
	r.Par(len(list), func(i int) {
		var e evaluator
		cnt.Add(1)
		ck.evalSet(&e, space, codespace.Set{list[i]})
	})
}

// probe is the code space of the design-round hand probe.
var probe = codespace.Set{codespace.R("0000", "007F"), codespace.R("0110", "017F")}

// Run is the check.
func Run(tier string) int {
	budget := 4 * time.Minute
	if tier == "thorough" {
		budget = 25 * time.Minute
	}
	r := ev.New("C12", tier, "exploration", budget)
	ck := newChecker(r)
	r.Rule("a case is one set of code space ranges; for every set the reference model decides validity (NewCodec must agree) and, for valid sets, one execution = one input string (every string of length <= 4 over the cell edges and a cell-interior value of the partition induced by all range bounds, which includes all truncated codes, plus the empty string) judged on Decode, AppendCode(Decode), Decode(AppendCode) and once per set CodeSpaceRange() (its codes compared with the reference set, and CodeSpaceRange.Equivalent asked in both directions, which must give the same verdict); distinct = distinct valid sets of at least two ranges (order-independent identity); spaces: named sets, all sets of <=3 ranges over small bound alphabets (S1..S4), and every non-empty subset of every ladder (S5: up to 15 ranges with pairwise different first bytes and pairwise different continuations, so that the lookup tree has up to ~100 nodes)")
	r.Assume(
		"reference model ref/codespace written from ISO 32000-2 9.7.6.2/9.7.6.3, cross-checked at start-up against a literal list-of-codes formulation on all <=3-range sets of a tiny alphabet",
		"the codec's behaviour on a byte depends only on comparisons with range bounds, so the cell edges plus one interior value per cell represent all 256 values (checked for the reference model at start-up, assumed for the library)",
		"when the input ends before the number of bytes 9.7.6.3 prescribes, and for the empty code space, the specification is silent: any consumed count in 1..available is accepted, and AppendCode(Decode(s)) need only start with the consumed bytes",
		"codes are packed as documented for charcode.Code (first byte least significant)",
	)

	if err := codespace.SelfTest(r.Par); err != nil {
		r.Infra("reference model self-test: " + err.Error())
		return r.Finish()
	}

	// known findings and the hand probe are run explicitly
	var e evaluator
	for _, k := range r.KnownWitnesses() {
		var c Case
		if json.Unmarshal(k.Witness, &c) == nil {
			if rs, err := c.set(); err == nil {
				ck.evalSet(&e, "known-witness", rs)
			}
		}
	}
	ck.evalSet(&e, "named:design-probe", probe)
	ck.evalSet(&e, "named:empty", nil)
	for _, n := range codespace.Named {
		ck.evalSet(&e, "named:"+n.Name, n.Set)
		// and every subset of the named set obtained by dropping one range
		for d := range n.Set {
			sub := append(append(codespace.Set{}, n.Set[:d]...), n.Set[d+1:]...)
			if len(sub) > 0 {
				ck.evalSet(&e, "named:"+n.Name+"-minus-one", sub)
			}
		}
	}
	r.Dim("named_sets", len(codespace.Named)+2)

	r1 := ranges(1, intervals(bounds1))
	r2 := ranges(2, intervals(bounds2))
	r3 := ranges(3, intervals(bounds3))
	r4 := ranges(4, intervals(bounds3))
	r.Dim("ranges_1byte_bounds_00_0F_10_7F_80_FF", len(r1))
	r.Dim("ranges_2byte_bounds_00_10_7F_80_FF", len(r2))
	r.Dim("ranges_3byte_bounds_00_80_FF", len(r3))
	r.Dim("ranges_4byte_bounds_00_80_FF", len(r4))

	// S5: every subset of every ladder (code spaces with many different
	// sub-trees; see ladder.go).  Small, so it runs before the large spaces.
	ck.runLadders()

	// S1: all sets of 1, 2 and 3 ranges from the 1- and 2-byte lists
	s1 := append(append([]codespace.Range{}, r1...), r2...)
	r.Dim("S1_sets_le3_of_1and2byte_ranges", []int{len(s1), len(s1) * (len(s1) - 1) / 2, len(s1) * (len(s1) - 1) * (len(s1) - 2) / 6})
	ck.singles("S1", s1)
	ck.pairs("S1", s1, nil)
	ck.triples("S1", s1, nil)
	r.Sample(caseOf("S1", mkSet(s1, 3, 40, 200), nil))

	// S2: all sets of <= 2 ranges mixing lengths 1..4 (those inside S1 are not repeated)
	all := append(append(append([]codespace.Range{}, s1...), r3...), r4...)
	n1 := len(s1)
	r.Dim("S2_sets_le2_of_1to4byte_ranges", []int{len(all), len(all) * (len(all) - 1) / 2})
	ck.singles("S2", all[n1:])
	ck.pairs("S2", all, func(i, j int) bool { return j >= n1 })
	r.Sample(caseOf("S2", mkSet(all, 100, 1000), nil))

	if r.Thorough() {
		// S3: all sets of 3 ranges from the 1-, 2- and 3-byte lists that
		// contain a 3-byte range (the others are S1); this includes all
		// sets of 3 ranges of lengths 1..3 over the bounds {00,80,FF}
		s3 := append(append([]codespace.Range{}, s1...), r3...)
		n3 := len(s3)
		r.Dim("S3_sets_of3_of_1to3byte_ranges_with_a_3byte_range", []int{n3, n3*(n3-1)*(n3-2)/6 - n1*(n1-1)*(n1-2)/6})
		ck.triples("S3", s3, func(i, j, k int) bool { return k >= n1 })
		r.Sample(caseOf("S3", mkSet(s3, 5, 130, 300), nil))

		// S4: all sets of 3 ranges of lengths 1..4 that contain a 4-byte range,
		// per-byte intervals from the reduced alphabet
		var s4 []codespace.Range
		for n := 1; n <= 4; n++ {
			s4 = append(s4, ranges(n, reduced)...)
		}
		first4 := len(s4) - len(ranges(4, reduced))
		nn := len(s4)
		r.Dim("S4_sets_of3_of_1to4byte_ranges_reduced_intervals_with_a_4byte_range", []int{nn, nn*(nn-1)*(nn-2)/6 - first4*(first4-1)*(first4-2)/6})
		r.Dim("S4_intervals", "[00,FF] [00,00] [80,FF] [00,80] per byte")
		ck.triples("S4", s4, func(i, j, k int) bool { return k >= first4 })
		r.Sample(caseOf("S4", mkSet(s4, 2, 50, 300), nil))
	}

	ck.report()
	return r.Finish()
}

// Replay re-executes the code space of a replay file.
func Replay(path string) int {
	var c Case
	if err := ev.ReplayCase(path, &c); err != nil {
		fmt.Println("replay:", err)
		return 2
	}
	rs, err := c.set()
	if err != nil {
		fmt.Println("replay:", err)
		return 2
	}
	r := ev.New("C12", "quick", "exploration", time.Minute)
	r.SetReplayMode()
	ck := newChecker(r)
	var e evaluator
	ck.evalSet(&e, c.Space, rs)
	ck.report()
	return r.Finish()
}
