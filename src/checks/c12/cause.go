//go:build verif

package c12

import (
	"fmt"
	"strings"

	"seehuhn.de/go/pdf/zzverif/ref/codespace"
)

// This file is only used to *fingerprint* failures, never to judge them.
//
// It models one understood defect class: a decoder that shares the decision
// sub-tree of two different code prefixes whenever the two sub-trees have the
// same valid cells (same upper bounds, same children), ignoring where the
// invalid gaps between them are.  model.possible computes every answer such a
// decoder could give; a wrong answer of the library that lies in this set is
// attributed to that class (fingerprint fpShared), any other wrong answer
// keeps the fingerprint of its symptom.

const fpShared = "subtree-sharing-ignores-invalid-gaps"

const (
	cellInvalid = iota
	cellLeaf
	cellSub
)

type mCell struct {
	lo, hi byte
	kind   int
	extra  int // invalid: further bytes to consume
	child  *mNode
}

type mNode struct {
	cells    []mCell
	gapBlind string // descriptor without the invalid cells
	full     string // descriptor with them
}

type model struct {
	root  *mNode
	nodes []*mNode // all non-root nodes
	twins int      // 0 unknown, 1 no, 2 yes
}

func newModel(rs codespace.Set) *model {
	m := &model{}
	m.root = m.build(rs, 0, true)
	return m
}

func (m *model) build(rs codespace.Set, d int, isRoot bool) *mNode {
	br := codespace.Breaks([]codespace.Set{rs}, func(p int) bool { return p == d })
	minN := 1
	for i, r := range rs {
		if i == 0 || r.N < minN {
			minN = r.N
		}
	}
	n := &mNode{}
	var gb, full strings.Builder
	gb.WriteByte('(')
	full.WriteByte('(')
	for c := 0; c+1 < len(br); c++ {
		lo, hi := byte(br[c]), byte(br[c+1]-1)
		var sub codespace.Set
		leaves := 0
		for _, r := range rs {
			if r.Lo[d] <= lo && hi <= r.Hi[d] {
				sub = append(sub, r)
				if r.N == d+1 {
					leaves++
				}
			}
		}
		cell := mCell{lo: lo, hi: hi}
		switch {
		case len(sub) == 0:
			cell.kind = cellInvalid
			cell.extra = minN - (d + 1)
			fmt.Fprintf(&full, "I%d:%02x", cell.extra, hi)
		case leaves > 0: // for a prefix-free set: all of them
			cell.kind = cellLeaf
			fmt.Fprintf(&gb, "V:%02x", hi)
			fmt.Fprintf(&full, "V:%02x", hi)
		default:
			cell.kind = cellSub
			cell.child = m.build(sub, d+1, false)
			fmt.Fprintf(&gb, "%s:%02x", cell.child.gapBlind, hi)
			fmt.Fprintf(&full, "%s:%02x", cell.child.full, hi)
		}
		n.cells = append(n.cells, cell)
	}
	gb.WriteByte(')')
	full.WriteByte(')')
	n.gapBlind, n.full = gb.String(), full.String()
	if !isRoot {
		m.nodes = append(m.nodes, n)
	}
	return n
}

// hasTwins reports whether two sub-trees differ only in their gaps.
func (m *model) hasTwins() bool {
	if m.twins == 0 {
		m.twins = 1
		for i, a := range m.nodes {
			for _, b := range m.nodes[i+1:] {
				if a.gapBlind == b.gapBlind && a.full != b.full {
					m.twins = 2
				}
			}
		}
	}
	return m.twins == 2
}

type answer struct {
	valid    bool
	consumed int
}

// possible adds to out every (valid, consumed) a gap-blind sharing decoder
// could return for the input t.
func (m *model) possible(t []byte, out map[answer]bool) {
	m.walk(m.root, true, t, 0, out)
}

func (m *model) walk(n *mNode, isRoot bool, t []byte, base int, out map[answer]bool) {
	if len(t) == 0 {
		out[answer{false, base}] = true
		return
	}
	step := func(c *mNode) {
		for i := range c.cells {
			cell := &c.cells[i]
			if t[0] < cell.lo || t[0] > cell.hi {
				continue
			}
			switch cell.kind {
			case cellInvalid:
				e := cell.extra
				if e > len(t)-1 {
					e = len(t) - 1
				}
				out[answer{false, base + 1 + e}] = true
			case cellLeaf:
				out[answer{true, base + 1}] = true
			default:
				m.walk(cell.child, false, t[1:], base+1, out)
			}
		}
	}
	if isRoot {
		step(n)
		return
	}
	for _, c := range m.nodes {
		if c.gapBlind == n.gapBlind {
			step(c)
		}
	}
}
