package hx

import (
	"encoding/hex"
	"fmt"
	"math"
	"sort"
	"strconv"

	"seehuhn.de/go/pdf"
)

// Enc turns a library object into a JSON-able value that keeps nil-ness and
// all bytes (used in replay files and samples).
func Enc(o pdf.Object) any {
	switch x := o.(type) {
	case nil:
		return nil
	case pdf.Boolean:
		return bool(x)
	case pdf.Integer:
		return map[string]any{"i": strconv.FormatInt(int64(x), 10)}
	case pdf.Real:
		return map[string]any{"r": strconv.FormatUint(math.Float64bits(float64(x)), 16), "approx": float64OrString(float64(x))}
	case pdf.Name:
		return map[string]any{"n": hex.EncodeToString([]byte(x)), "txt": strconv.QuoteToASCII(string(x))}
	case pdf.String:
		if x == nil {
			return map[string]any{"s": nil}
		}
		return map[string]any{"s": hex.EncodeToString(x), "txt": strconv.QuoteToASCII(string(x))}
	case pdf.Reference:
		return map[string]any{"ref": []int{int(x.Number()), int(x.Generation())}}
	case pdf.Operator:
		return map[string]any{"op": string(x)}
	case pdf.Array:
		if x == nil {
			return map[string]any{"a": nil}
		}
		l := make([]any, len(x))
		for i, e := range x {
			l[i] = Enc(e)
		}
		return map[string]any{"a": l}
	case pdf.Dict:
		if x == nil {
			return map[string]any{"d": nil}
		}
		keys := make([]string, 0, len(x))
		for k := range x {
			keys = append(keys, string(k))
		}
		sort.Strings(keys)
		l := make([]any, 0, 2*len(x))
		for _, k := range keys {
			l = append(l, hex.EncodeToString([]byte(k)), Enc(x[pdf.Name(k)]))
		}
		return map[string]any{"d": l}
	}
	return map[string]any{"unknown": fmt.Sprintf("%T", o)}
}

func float64OrString(f float64) any {
	if math.IsInf(f, 0) || math.IsNaN(f) {
		return fmt.Sprint(f)
	}
	return f
}

// Dec is the inverse of Enc on the result of a JSON round trip.
func Dec(v any) pdf.Object {
	switch x := v.(type) {
	case nil:
		return nil
	case bool:
		return pdf.Boolean(x)
	case map[string]any:
		if s, ok := x["i"]; ok {
			n, _ := strconv.ParseInt(s.(string), 10, 64)
			return pdf.Integer(n)
		}
		if s, ok := x["r"]; ok {
			n, _ := strconv.ParseUint(s.(string), 16, 64)
			return pdf.Real(math.Float64frombits(n))
		}
		if s, ok := x["n"]; ok {
			b, _ := hex.DecodeString(s.(string))
			return pdf.Name(b)
		}
		if s, ok := x["s"]; ok {
			if s == nil {
				return pdf.String(nil)
			}
			b, _ := hex.DecodeString(s.(string))
			if b == nil {
				b = []byte{}
			}
			return pdf.String(b)
		}
		if s, ok := x["ref"]; ok {
			l := s.([]any)
			return pdf.NewReference(uint32(l[0].(float64)), uint16(l[1].(float64)))
		}
		if s, ok := x["op"]; ok {
			return pdf.Operator(s.(string))
		}
		if s, ok := x["a"]; ok {
			if s == nil {
				return pdf.Array(nil)
			}
			l := s.([]any)
			a := make(pdf.Array, len(l))
			for i, e := range l {
				a[i] = Dec(e)
			}
			return a
		}
		if s, ok := x["d"]; ok {
			if s == nil {
				return pdf.Dict(nil)
			}
			l := s.([]any)
			d := pdf.Dict{}
			for i := 0; i+1 < len(l); i += 2 {
				k, _ := hex.DecodeString(l[i].(string))
				d[pdf.Name(k)] = Dec(l[i+1])
			}
			return d
		}
	}
	panic(fmt.Sprintf("hx.Dec: cannot decode %v", v))
}

// EncList encodes a list of objects.
func EncList(l []pdf.Object) []any {
	out := make([]any, len(l))
	for i, o := range l {
		out[i] = Enc(o)
	}
	return out
}

func DecList(l []any) []pdf.Object {
	out := make([]pdf.Object, len(l))
	for i, o := range l {
		out[i] = Dec(o)
	}
	return out
}
