// Package hx holds helpers shared by the checks: conversion between the
// library's objects and the independent value type, normalising equality,
// deep snapshots.
package hx

import (
	"bytes"
	"fmt"
	"sort"

	"seehuhn.de/go/pdf"
	"seehuhn.de/go/pdf/zzverif/ref/pdfsyn"
)

// FromPdf converts a library object to the independent value type with the
// normalisations of the property statements: nil array / nil dict are null,
// nil dictionary entries are absent.
func FromPdf(obj pdf.Object) pdfsyn.Value {
	switch x := obj.(type) {
	case nil:
		return pdfsyn.NullV()
	case pdf.Boolean:
		return pdfsyn.BoolV(bool(x))
	case pdf.Integer:
		return pdfsyn.IntV(int64(x))
	case pdf.Real:
		return pdfsyn.RealV(float64(x))
	case pdf.Name:
		return pdfsyn.Value{K: pdfsyn.Name, S: []byte(x)}
	case pdf.String:
		return pdfsyn.Value{K: pdfsyn.String, S: []byte(x)}
	case pdf.Reference:
		return pdfsyn.RefV(int64(x.Number()), int64(x.Generation()))
	case pdf.Array:
		if x == nil {
			return pdfsyn.NullV()
		}
		v := pdfsyn.Value{K: pdfsyn.Array, A: make([]pdfsyn.Value, len(x))}
		for i, e := range x {
			v.A[i] = FromPdf(e)
		}
		return v
	case pdf.Dict:
		if x == nil {
			return pdfsyn.NullV()
		}
		v := pdfsyn.Value{K: pdfsyn.Dict, D: []pdfsyn.Entry{}}
		keys := make([]string, 0, len(x))
		for k := range x {
			keys = append(keys, string(k))
		}
		sort.Strings(keys)
		for _, k := range keys {
			e := FromPdf(x[pdf.Name(k)])
			if e.K == pdfsyn.Null {
				continue
			}
			v.D = append(v.D, pdfsyn.Entry{Key: []byte(k), Val: e})
		}
		return v
	case pdf.Operator:
		return pdfsyn.Value{K: pdfsyn.Keyword, S: []byte(x)}
	case *pdf.Stream:
		if x == nil {
			return pdfsyn.NullV()
		}
		d := FromPdf(x.Dict)
		d.D = append(d.D, pdfsyn.Entry{Key: []byte("\x00stream"), Val: pdfsyn.BoolV(true)})
		return d
	default:
		if obj == nil {
			return pdfsyn.NullV()
		}
		return FromPdf(obj.AsPDF(0))
	}
}

// ToPdf converts an independent value to a library object.
func ToPdf(v pdfsyn.Value) pdf.Object {
	switch v.K {
	case pdfsyn.Null:
		return nil
	case pdfsyn.Bool:
		return pdf.Boolean(v.B)
	case pdfsyn.Int:
		return pdf.Integer(v.I)
	case pdfsyn.Real:
		return pdf.Real(v.F)
	case pdfsyn.Name:
		return pdf.Name(v.S)
	case pdfsyn.String:
		return pdf.String(append([]byte{}, v.S...))
	case pdfsyn.Ref:
		return pdf.NewReference(uint32(v.N), uint16(v.G))
	case pdfsyn.Array:
		a := make(pdf.Array, len(v.A))
		for i, e := range v.A {
			a[i] = ToPdf(e)
		}
		return a
	case pdfsyn.Dict:
		d := pdf.Dict{}
		for _, e := range v.D {
			d[pdf.Name(e.Key)] = ToPdf(e.Val)
		}
		return d
	case pdfsyn.Keyword:
		return pdf.Operator(v.S)
	}
	panic("hx.ToPdf: bad kind")
}

// Equal is the harness equality on library objects.
func Equal(a, b pdf.Object) bool { return pdfsyn.Equal(FromPdf(a), FromPdf(b)) }

// Show renders a library object for messages.
func Show(o pdf.Object) string {
	v := FromPdf(o)
	var b bytes.Buffer
	pdfsyn.Print(&b, v, pdfsyn.Style{OctalStr: true})
	s := b.String()
	if len(s) > 300 {
		s = s[:300] + fmt.Sprintf("...(%d bytes)", len(s))
	}
	return s
}

// Clone makes a deep copy of a library object (streams excluded).
func Clone(o pdf.Object) pdf.Object {
	switch x := o.(type) {
	case pdf.String:
		if x == nil {
			return x
		}
		return pdf.String(append([]byte{}, x...))
	case pdf.Array:
		if x == nil {
			return x
		}
		a := make(pdf.Array, len(x))
		for i, e := range x {
			a[i] = Clone(e)
		}
		return a
	case pdf.Dict:
		if x == nil {
			return x
		}
		d := make(pdf.Dict, len(x))
		for k, e := range x {
			d[k] = Clone(e)
		}
		return d
	}
	return o
}

// Identical is exact equality (no normalisation) used to detect that an
// argument was modified by a call: same dynamic types, same nil-ness, same
// bytes.
func Identical(a, b pdf.Object) bool {
	switch x := a.(type) {
	case nil:
		return b == nil
	case pdf.String:
		y, ok := b.(pdf.String)
		return ok && (x == nil) == (y == nil) && bytes.Equal(x, y)
	case pdf.Array:
		y, ok := b.(pdf.Array)
		if !ok || (x == nil) != (y == nil) || len(x) != len(y) {
			return false
		}
		for i := range x {
			if !Identical(x[i], y[i]) {
				return false
			}
		}
		return true
	case pdf.Dict:
		y, ok := b.(pdf.Dict)
		if !ok || (x == nil) != (y == nil) || len(x) != len(y) {
			return false
		}
		for k, v := range x {
			w, ok := y[k]
			if !ok || !Identical(v, w) {
				return false
			}
		}
		return true
	case pdf.Real:
		y, ok := b.(pdf.Real)
		return ok && (x == y || x != x && y != y)
	default:
		return a == b
	}
}
