//go:build verif

// Package c03 decides C03: every file the Writer produces is structurally
// valid for an independent strict parser, and the values that parser
// extracts equal what was written.
package c03

import (
	"bytes"
	"fmt"
	"sort"
	"strings"
	"time"

	"seehuhn.de/go/pdf"
	"seehuhn.de/go/pdf/zzverif/checks/c02"
	"seehuhn.de/go/pdf/zzverif/checks/hx"
	"seehuhn.de/go/pdf/zzverif/checks/wprog"
	"seehuhn.de/go/pdf/zzverif/engine/ev"
	"seehuhn.de/go/pdf/zzverif/ref/pdffile"
	"seehuhn.de/go/pdf/zzverif/ref/pdfsyn"
	"seehuhn.de/go/pdf/zzverif/ref/stdsec"
)

type failure struct{ fp, what string }

// Judge validates the written bytes with the independent strict reader.
func Judge(res *wprog.Result) *failure {
	cfg := res.Cfg
	ropt := pdffile.Options{Strict: true}
	if cfg.Encrypted() {
		ropt.Password = &cfg.User
	}
	f, perr := pdffile.Read(res.Bytes, ropt)
	if perr != nil {
		return &failure{"structure:" + perr.Code, perr.Msg}
	}
	vs, _ := cfg.V.ToString()
	if f.Version != vs {
		return &failure{"header-version-value", fmt.Sprintf("header says %s, writer was created for %s", f.Version, vs)}
	}
	if orph := f.Orphans(); len(orph) > 0 {
		return &failure{"structure:object-not-in-xref", fmt.Sprintf("object header at offset %d is not the target of any cross-reference entry", orph[0])}
	}
	h := f.H
	if cfg.Encrypted() && h == nil {
		return &failure{"not-encrypted", "passwords were given but the trailer has no /Encrypt"}
	}
	refs := make([]pdf.Reference, 0, len(res.Objs))
	for ref := range res.Objs {
		refs = append(refs, ref)
	}
	sort.Slice(refs, func(i, j int) bool { return refs[i] < refs[j] })
	for _, ref := range refs {
		want := hx.FromPdf(res.Objs[ref])
		o := f.Objects[int(ref.Number())]
		if o == nil {
			if want.K == pdfsyn.Null {
				continue
			}
			return &failure{"value-missing", fmt.Sprintf("object %v was written but has no in-use cross-reference entry", ref)}
		}
		if o.Gen != int(ref.Generation()) {
			return &failure{"value-generation", fmt.Sprintf("object %v found with generation %d", ref, o.Gen)}
		}
		if o.IsStream {
			return &failure{"value-kind", fmt.Sprintf("object %v is a stream, a plain object was written", ref)}
		}
		got, _, err := f.Plain(h, o)
		if err != nil {
			return &failure{"independent-decrypt-error:" + cfg.Cipher(), fmt.Sprintf("object %v: %v", ref, err)}
		}
		if !pdfsyn.Equal(got, want) {
			return &failure{"value-differs:" + cfg.Cipher(), fmt.Sprintf("object %v: strict parser extracts %s, written %s", ref, got.String(), want.String())}
		}
	}
	srefs := make([]pdf.Reference, 0, len(res.Streams))
	for ref := range res.Streams {
		srefs = append(srefs, ref)
	}
	sort.Slice(srefs, func(i, j int) bool { return srefs[i] < srefs[j] })
	for _, ref := range srefs {
		want := res.Streams[ref]
		fl := strings.Join(want.Filters, "+")
		o := f.Objects[int(ref.Number())]
		if o == nil || !o.IsStream || o.Gen != int(ref.Generation()) {
			return &failure{"stream-missing", fmt.Sprintf("stream %v not found as an in-use stream object", ref)}
		}
		dv, raw, err := f.Plain(h, o)
		if err != nil {
			return &failure{"independent-decrypt-error:" + cfg.Cipher(), fmt.Sprintf("stream %v: %v", ref, err)}
		}
		data, err := pdffile.DecodeFilters(dv, raw)
		if err != nil {
			return &failure{"independent-decode-error:" + fl, fmt.Sprintf("stream %v (%s): %v", ref, dv.String(), err)}
		}
		if !bytes.Equal(data, want.Data) {
			return &failure{"stream-data-differs:" + fl + ":" + cfg.Cipher(), fmt.Sprintf("stream %v: independent decoders give %d bytes, written %d", ref, len(data), len(want.Data))}
		}
		d2 := pdfsyn.Value{K: pdfsyn.Dict}
		for _, e := range dv.D {
			k := string(e.Key)
			if k == "Length" || k == "Filter" || k == "DecodeParms" {
				continue
			}
			d2.D = append(d2.D, e)
		}
		if !pdfsyn.Equal(d2, hx.FromPdf(want.Dict)) {
			return &failure{"stream-dict-differs:" + cfg.Cipher(), fmt.Sprintf("stream %v dictionary %s, written %s", ref, d2.String(), hx.FromPdf(want.Dict).String())}
		}
	}
	for _, ref := range res.Unwritten {
		if e, ok := f.XRef[int(ref.Number())]; ok && e.Type != 0 {
			return &failure{"unwritten-in-use", fmt.Sprintf("reference %v was allocated but never written, yet its entry is in use", ref)}
		}
	}
	// trailer: Root and Info resolve to dictionaries, ID as given
	root := f.Trailer.Get("Root")
	if root.K != pdfsyn.Ref || f.Objects[int(root.N)] == nil {
		return &failure{"trailer-root", "trailer /Root does not point at an in-use object"}
	}
	if res.ID != nil {
		id := f.Trailer.Get("ID")
		if id.K != pdfsyn.Array || len(id.A) != 2 || !bytes.Equal(id.A[0].S, res.ID[0]) || !bytes.Equal(id.A[1].S, res.ID[1]) {
			return &failure{"trailer-id", fmt.Sprintf("trailer /ID %s, given %q", id.String(), res.ID)}
		}
	}
	return nil
}

// Run is the check.
func Run(tier string) int {
	budget := 4 * time.Minute
	if tier == "thorough" {
		budget = 25 * time.Minute
	}
	r := ev.New("C03", tier, "model_checking", budget)
	if err := stdsec.SelfTest(); err != nil {
		r.Infra("stdsec self-test: " + err.Error())
		return r.Finish()
	}
	r.Rule("same program space as C02 (all write programs up to max_ops operations with at most dev_bound non-default choices per configuration); every produced file is read by the independent strict reader ref/pdffile (header, %%EOF, startxref, 20-byte table entries or xref stream /W /Index /Size, every in-use offset exactly at 'N G obj', exactly one entry per object below /Size, /Length up to the EOL before endstream, object stream /N /First and offset table, no unlisted object) and the extracted values (decrypted by the independent security handler ref/stdsec, decoded by independent codecs) are compared with the model; distinct = distinct (configuration, operation list) pairs with at least one operation")
	r.Assume("ref/pdffile written from ISO 32000-2 7.5; ref/stdsec from 7.6; zlib, ascii85, tiff/lzw from outside go-pdf", "not judged (not in the statement): free-list threading, generation of object 0, whether the xref stream lists itself as in use")
	plans := c02.Plans(r.Thorough())
	c02.RunPlans(r, plans, &wprog.Env{FailedCallsFirst: true, ManyObjects: true}, func(res *wprog.Result, choices []int) {
		cs := wprog.Case{Cfg: res.Cfg, MaxOps: 99, Choices: append([]int{}, choices...), Ops: res.Ops}
		if res.NumOps > 0 {
			r.DistinctS(res.Cfg.String() + strings.Join(res.Ops, ";"))
		}
		r.State(1)
		if f := Judge(res); f != nil {
			r.Outcome("fail:" + f.fp)
			r.Violation(f.fp, f.what+" ["+res.Cfg.String()+"; "+strings.Join(res.Ops, "; ")+"]", cs)
			return
		}
		kind := "table"
		if res.Cfg.V >= pdf.V1_5 && !res.Cfg.Human {
			kind = "xrefstream"
		}
		r.Outcome(fmt.Sprintf("ok:ops=%d:%s:%s", res.NumOps, res.Cfg.Cipher(), kind))
		if r.WantSample() && res.NumOps >= 2 {
			r.Sample(cs)
		}
	})
	return r.Finish()
}

// Replay re-executes a recorded program.
func Replay(path string) int {
	var cs wprog.Case
	if err := ev.ReplayCase(path, &cs); err != nil {
		fmt.Println("replay:", err)
		return 2
	}
	r := ev.New("C03", "quick", "model_checking", time.Minute)
	r.SetReplayMode()
	res := wprog.Replay(cs, &wprog.Env{FailedCallsFirst: true, ManyObjects: true})
	fmt.Println("program:", strings.Join(res.Ops, "; "), "accepted:", res.Accepted, res.Reject)
	if res.Accepted {
		if f := Judge(res); f != nil {
			r.Violation(f.fp, f.what, cs)
		}
	}
	return r.Finish()
}
