//go:build verif

package c11

import (
	"bytes"
	"compress/zlib"
	"encoding/hex"
	"fmt"
	"io"
	"strings"

	tifflzw "golang.org/x/image/tiff/lzw"
)

// chainDecodeIndependent decodes the stored bytes of a fixture of the
// filter-chain family without the library: the first filter of the chain is
// undone first.
func chainDecodeIndependent(cs chainSpec, raw []byte) ([]byte, error) {
	for i := 0; i < len(cs.chain); i++ {
		var err error
		switch cs.chain[i] {
		case 'F':
			var zr io.ReadCloser
			zr, err = zlib.NewReader(bytes.NewReader(raw))
			if err == nil {
				raw, err = io.ReadAll(zr)
			}
		case 'L':
			raw, err = io.ReadAll(tifflzw.NewReader(bytes.NewReader(raw), tifflzw.MSB, 8))
		case 'H':
			if len(raw) == 0 || raw[len(raw)-1] != '>' {
				return nil, fmt.Errorf("no end-of-data marker")
			}
			raw, err = hex.DecodeString(string(raw[:len(raw)-1]))
		}
		if err != nil {
			return nil, fmt.Errorf("filter %d (%c): %w", i, cs.chain[i], err)
		}
		if cs.predictorAt(i) {
			// PNG "Up" on rows of one byte: tag 2, then the difference to the
			// byte above
			if len(raw)%2 != 0 {
				return nil, fmt.Errorf("filter %d: odd number of bytes before the predictor", i)
			}
			out := make([]byte, 0, len(raw)/2)
			var prev byte
			for k := 0; k < len(raw); k += 2 {
				if raw[k] != 2 {
					return nil, fmt.Errorf("filter %d: row tag %d", i, raw[k])
				}
				prev += raw[k+1]
				out = append(out, prev)
			}
			raw = out
		}
	}
	return raw, nil
}

// The self-test validates the oracle before it is used. It has two parts.
//
// selfTestOracle involves no code of the library under test: the case syntax
// round trips; correct copies made by the reference copier into a memTarget (a
// table of objects, streams as dictionary + decoded bytes) are accepted on
// complete small spaces; every planted flaw is reported under the fingerprint
// it belongs to. A failure here means the oracle is wrong: exit 2, whatever
// the exploration would say.
//
// selfTestFiles sends the same correct copies through the library's Writer
// and Reader (all file-level configurations), to make sure that the oracle
// does not object to anything a correct file round trip does to a value
// (/Length, inlined filters, encryption). This part depends on the Writer,
// the Reader and the security handlers being right; a defect there is not a
// defect of the oracle. Its failure is therefore kept as a suspicion: the
// exploration runs anyway, and only if it finds no violation is the run
// reported as an infrastructure failure.

// selfTestSpaces are the complete spaces on which correct copies are made.
func selfTestSpaces() []space {
	return []space{
		{alpha: rich, n: 1, depth: 2, dangOp: true, staleOp: true, cfgs: [][2]string{{"none", "1.4"}, {"rc4-128", "1.7-aes128"}, {"none", tgtRC4}}},
		{alpha: leanStale, n: 2, depth: 2, dangOp: true, staleOp: true, cfgs: plainPair},
		{alpha: midStale, n: 2, depth: 1, cfgs: plainPair},
		{alpha: leanStale, n: 3, depth: 1, rooted: true, cfgs: plainPair},
		// every spelling of a short filter chain, also into encrypted targets
		{alpha: spell, n: 1, depth: 2, dangOp: true, cfgs: [][2]string{{"none", "1.4"}, {"aes-128", "1.7-aes128"}, {"none", tgtRC4}}},
		// hand-made direct values with Go nils inside
		{alpha: lean, n: 1, depth: 2, directOp: true, cfgs: plainPair},
		// references inside filter parameter dictionaries
		{alpha: parmRefs, n: 1, depth: 2, dangOp: true, cfgs: [][2]string{{"none", "1.4"}, {"aes-128", "1.7-aes128"}, {"rc4-128", tgtRC4}}},
		{alpha: parmRefs, n: 2, depth: 1, cfgs: plainPair},
		// filter chains of two and three filters with every assignment of parameter entries
		{alpha: chains2, n: 1, depth: 1, dangOp: true, cfgs: [][2]string{{"none", "1.4"}, {"aes-128", "1.7-aes128"}, {"rc4-128", tgtRC4}}},
		{alpha: chains3, n: 1, depth: 1, cfgs: plainPair},
		{alpha: chains2Linked, n: 2, depth: 1, rooted: true, cfgs: plainPair},
		// every name of the name family in every placement
		{alpha: names, n: 1, depth: 1, rooted: true, cfgs: [][2]string{{srcByHand, "1.4"}}},
	}
}

// correctCopies runs the reference copier on the self-test spaces and hands
// every copy to the oracle.
func correctCopies(rn *runner, inMemory bool) (int, error) {
	accepted := 0
	for _, fl := range []flaw{flawNone, flawDirectNullOK} {
		for i, sp := range selfTestSpaces() {
			if fl != flawNone && i > 1 {
				continue
			}
			if inMemory {
				sp.cfgs = sp.cfgs[:1] // the configuration only labels fingerprints
			}
			ops := opsFor(sp)
			var progs [][]Op
			for _, a := range ops {
				progs = append(progs, []Op{a})
				if sp.depth >= 2 {
					for _, b := range ops {
						progs = append(progs, []Op{a, b})
					}
				}
			}
			var firstErr error
			var mu = &rn.mu
			cnt := rn.enumerate(sp, func(g Graph) {
				for _, cfg := range sp.cfgs {
					s := describeSource(g, cfg[0])
					for _, prog := range progs {
						ex, err := modelExecute(s, prog, cfg[1], fl, inMemory)
						if err == nil {
							fs, _ := judge(s, prog, cfg[1], ex)
							if len(fs.list) > 0 {
								err = fmt.Errorf("the oracle rejects a correct copy: graph {%s} program {%s} %s>%s: [%s] %s", g, progString(prog), cfg[0], cfg[1], fs.list[0].fp, fs.list[0].what)
							}
						} else {
							err = fmt.Errorf("the reference copy of graph {%s} program {%s} cannot be written to a %s target: %w", g, progString(prog), cfg[1], err)
						}
						if err != nil {
							mu.Lock()
							if firstErr == nil {
								firstErr = err
							}
							mu.Unlock()
							return
						}
					}
				}
			})
			if firstErr != nil {
				return accepted, firstErr
			}
			accepted += int(cnt) * len(progs) * len(sp.cfgs)
		}
	}
	return accepted, nil
}

// selfTestOracle is the part that does not depend on the library.
func selfTestOracle(rn *runner) error {
	for n := 1; n <= 3; n++ {
		for _, o := range rich.kinds(n) {
			g := make(Graph, n)
			for j := range g {
				g[j] = Obj{K: 'i'}
			}
			g[n-1] = o
			g2, err := ParseGraph(g.String())
			if err != nil || g2.String() != g.String() {
				return fmt.Errorf("graph syntax does not round trip: %q: %v", g.String(), err)
			}
		}
	}
	for _, o := range directValues(3) {
		o2, err := parseObj(o.String())
		if err != nil || o2.String() != o.String() {
			return fmt.Errorf("direct value syntax does not round trip: %q: %v", o.String(), err)
		}
	}
	for _, o := range spell.kinds(2) {
		o2, err := parseObj(o.String())
		if err != nil || o2.String() != o.String() || o2.V != o.V {
			return fmt.Errorf("object syntax does not round trip: %q: %v", o.String(), err)
		}
	}
	for _, o := range parmRefs.kinds(3) {
		g := Graph{{K: 'i'}, {K: 'i'}, o}
		g2, err := ParseGraph(g.String())
		if err != nil || g2.String() != g.String() || g2[2].V != o.V {
			return fmt.Errorf("graph syntax does not round trip: %q: %v", g.String(), err)
		}
	}
	for _, a := range []alphabet{chains2LinkedK, chains3} {
		for _, o := range a.kinds(2) {
			g := Graph{{K: 'i'}, o}
			g2, err := ParseGraph(g.String())
			if err != nil || g2.String() != g.String() || g2[1].V != o.V {
				return fmt.Errorf("graph syntax does not round trip: %q: %v", g.String(), err)
			}
		}
	}
	for _, o := range names.kinds(1) {
		g := Graph{o}
		g2, err := ParseGraph(g.String())
		if err != nil || g2.String() != g.String() || len(g2[0].It) != len(o.It) || len(o.It) > 0 && g2[0].It[0] != o.It[0] || g2[0].V != o.V {
			return fmt.Errorf("graph syntax does not round trip: %q: %v", g.String(), err)
		}
	}
	for _, idx := range allNames {
		if nameSpecOf(idx).index() != idx {
			return fmt.Errorf("name family: index %d does not round trip", idx)
		}
	}
	// the encoder of the filter-chain fixtures, against decoders that are not
	// the library's (compress/zlib, x/image/tiff/lzw, encoding/hex)
	for _, cs := range chainSpecs {
		plain := plainData(0, stmChainBase)
		got, err := chainDecodeIndependent(cs, chainRaw(cs, plain))
		if err != nil || !bytes.Equal(got, plain) {
			return fmt.Errorf("the encoding of the fixture %s does not decode to the plaintext with independent decoders: %v", cs, err)
		}
	}
	for _, p := range []string{"R0 C1 D2 Rx G0 G2", "", "V:<n1> V:[[N]] V:M R0 V:[<n>]"} {
		prog, err := parseProg(p, 3)
		if err != nil || progString(prog) != p {
			return fmt.Errorf("program syntax does not round trip: %q: %v", p, err)
		}
	}

	// (1) a correct copier is accepted
	accepted, err := correctCopies(rn, true)
	if err != nil {
		return err
	}
	rn.r.Dim("selftest_correct_copies_accepted_described_as_data", accepted)

	// (2) planted flaws are found
	type plant struct {
		fl    flaw
		graph string
		prog  string
		want  string
	}
	plants := []plant{
		{flawDuplicate, "[11] i", "R0", "sharing:object-copied-twice"},
		{flawDuplicate, "[01]  [0]", "R0", "sharing:object-copied-twice"},
		{flawMerge, "[12] i s", "R0", "sharing:distinct-objects-merged"},
		{flawEmptyArray, "[a]", "R0", "empty-array-becomes-null"},
		{flawEmptyArray, "<a>", "C0", "empty-array-becomes-null"},
		{flawEmptyArray, "[]", "R0", "empty-array-becomes-null"},
		{flawEmptyArray, "S0<a>", "R0", "empty-array-becomes-null"},
		{flawEmptyDict, "[d]", "R0", "empty-dict-becomes-null"},
		{flawEmptyDict, "<d>", "R0", "empty-dict-becomes-null"},
		{flawEmptyDict, "<>", "R0", "empty-dict-becomes-null"},
		{flawDropEntry, "<ii>", "R0", "dict-entry-lost"},
		{flawStreamBytes, "S1<>", "R0", "stream-bytes-differ:"},
		{flawStreamBytes, "S3<>", "C0", "stream-bytes-differ:"},
		{flawNullInArray, "[ni]", "R0", "array-length"},
		{flawDeadRefKept, "[x]", "R0", "dead-reference-not-null"},
		{flawDeadRefKept, "[f]", "C0", "dead-reference-not-null"},
		{flawDeadRefKept, "[~0]", "C0", "dead-reference-not-null"},
		{flawDeadRefKept, "i", "G0", "dead-reference-not-null"},
		{flawIgnoreRedir, "[1] i", "D1 R0", "redirect-not-honoured"},
		{flawIgnoreRedir, "i", "D0 R0", "redirect-not-honoured"},
		{flawNewRefTwice, "i", "R0 R0", "same-reference-twice:different-target"},
		{flawNewRefTwice, "i", "G0 G0", "same-reference-twice:different-target"},
		// a stale reference must not alias the live object ...
		{flawStaleAliased, "[1~1] i", "R0", "dead-reference-not-null"},
		{flawStaleAliased, "[~11] <>", "C0", "dead-reference-not-null"},
		{flawStaleAliased, "[~0]", "R0", "dead-reference-not-null"},
		{flawStaleAliased, "<~1> S0<>", "R1 R0", "dead-reference-not-null"},
		{flawStaleAliased, "i", "R0 G0", "dead-reference-not-null"},
		{flawStaleAliased, "i", "D0 G0", "dead-reference-not-null"},
		{flawStaleAliased, "^~1 i", "C0", "dead-reference-not-null"},
		// ... and must not destroy it
		{flawStaleKillsLive, "[~11] i", "R0", "copied-object-is-null"},
		{flawStaleKillsLive, "<~11> [i]", "C0", "copied-object-is-null"},
		{flawStaleKillsLive, "[~1] S0<>", "R0 R1", "copied-object-is-null"},
		{flawStaleKillsLive, "i", "G0 R0", "copied-object-is-null"},
		// nested direct containers
		{flawNestedString, "S0<[s]>", "R0", "value-differs:string"},
		{flawNestedString, "S1<<s>>", "C0", "value-differs:string"},
		{flawNestedString, "[<s>]", "R0", "value-differs:string"},
		{flawNestedRef, "<[1]> i", "R0", "copied-object-is-null"},
		{flawNestedRef, "S0<<1>> i", "R0", "copied-object-is-null"},
		// spellings of short filter chains ("Sh<>": /Filter /Crypt; "Sm<>": /Filter [/Crypt] /DecodeParms [<<...>>]; "So<>": [/Crypt /FlateDecode])
		{flawStreamBytes, "Sh<>", "R0", "stream-bytes-differ:stream=name:Crypt;parms:absent"},
		{flawStreamBytes, "Sm<>", "C0", "stream-bytes-differ:stream=array:Crypt;parms:array"},
		{flawStreamBytes, "So<>", "R0", "stream-bytes-differ:stream=array:Crypt+FlateDecode;parms:array"},
		{flawStreamBytes, "S8<s>", "R0", "stream-bytes-differ:stream=array:FlateDecode;parms:absent"},
		{flawNestedString, "Sc<[s]>", "R0", "value-differs:string"},
		// hand-made direct values
		{flawNullInArray, "i", "V:[ni]", "array-length"},
		{flawDropEntry, "i", "V:<ni>", "dict-entry-lost"},
		{flawDeadRefKept, "[x]", "V:[0N]", "dead-reference-not-null"},
		{flawIgnoreRedir, "i", "D0 V:<n0>", "redirect-not-honoured"},
		// references inside filter parameter dictionaries ("Sr": FlateDecode, direct dictionary; "Sy": JBIG2Decode, direct
		// dictionary; "Sv": Flate, indirect array; "SD": JBIG2, indirect array of indirect dictionary; "SE" / "Sx": second of two filters)
		{flawParmRefKept, "<> Sy<0>", "R1", fpParmNotTranslated},
		{flawParmRefKept, "i Sr<0>", "C1", fpParmNotTranslated},
		{flawParmRefKept, "i SE<0>", "C1", fpParmNotTranslated},
		{flawParmRefKept, "[21] <> SD<1>", "C0", fpParmNotTranslated},
		{flawParmRefKept, "Sv<1> i", "D1 R0", fpParmNotTranslated},
		{flawParmRefKept, "i Sv<0>", "R1 D0", fpParmNotTranslated},
		{flawParmRefDup, "[12] Sv<2> <>", "R0", "sharing:object-copied-twice"},
		{flawParmRefDup, "SD<11> S0<>", "R0", "sharing:object-copied-twice"},
		{flawParmEntryLost, "Sy<1> S0<>", "R0", "decodeparms-entry-lost"},
		{flawParmEntryLost, "Sx<0>", "C0", "decodeparms-entry-lost"},
		{flawDeadRefKept, "St<x>", "R0", "dead-reference-not-null"},
		{flawStreamBytes, "Sy<0>", "R0", "stream-bytes-differ:stream=parm-ref:JBIG2;name+dict"},
		{flawStreamBytes, "Sx<x>", "C0", "stream-bytes-differ:stream=parm-ref:Flate;second-of-two-filters"},
		{flawIgnoreRedir, "Sr<1> i", "D1 R0", "redirect-not-honoured"},
		// filter chains with one parameter entry per position ("S{FF:pn}": [/FlateDecode /FlateDecode] + [<<predictor>> null])
		{flawParmsStale, "S{FF:pn}<>", "R0", "decodeparms-changed:null-became-dict"},
		{flawParmsStale, "S{HLF:Pnn}<>", "C0", "decodeparms-changed:null-became-dict"},
		{flawParmsStale, "[1] S{LFL:ePn}<>", "R0", "decodeparms-changed:null-became-dict"},
		{flawParmsShifted, "S{FL:np}<>", "R0", "decodeparms-changed:null-became-dict"},
		{flawParmsShifted, "S{LF:pe}<>", "C0", "decodeparms-changed:dict-became-empty"},
		{flawStreamBytes, "S{FH:-}<>", "R0", "stream-bytes-differ:stream=filter-chain-of-2"},
		{flawStreamBytes, "S{LLH:eNP}<0>", "C0", "stream-bytes-differ:stream=filter-chain-of-3"},
		{flawDuplicate, "<1> S{LH:Pe}<1>", "R0", "sharing:object-copied-twice"},
		// the name family ("/p23h": the name N#41; "=p23h": an entry with that name as its key)
		{flawNameHashRaw, "/p23h", "R0", "value-differs:name;byte=number-sign;next=two-hex-digits"},
		{flawNameHashRaw, "[/b23h]", "C0", "value-differs:name;byte=number-sign;next=two-hex-digits"},
		{flawNameHashRaw, "<=p23h>", "R0", "dict-key-differs:byte=number-sign;next=two-hex-digits"},
		{flawNameHashRaw, "S1<=p23h>", "C0", "dict-key-differs:byte=number-sign;next=two-hex-digits"},
		{flawNameHashRaw, "S2<<=b23h>>", "R0", "dict-key-differs:byte=number-sign;next=two-hex-digits"},
		{flawNameHashRaw, "[</p23h>]", "R0", "value-differs:name;byte=number-sign;next=two-hex-digits"},
		{flawNameCutAtDelim, "</p28e>", "R0", "value-differs:name;byte=delimiter;next=end-of-name"},
		{flawNameCutAtDelim, "S0<=p20z>", "R0", "dict-key-differs:byte=white-space;next=non-hex"},
		{flawNameCutAtDelim, "<=b2fm>", "C0", "dict-key-differs:byte=delimiter;next=hex-digit+other"},
		{flawNameHighDropped, "[[/pffh]]", "R0", "value-differs:name;byte=del-or-high;next=two-hex-digits"},
		{flawNameHighDropped, "S0<=p80e>", "C0", "dict-key-differs:byte=del-or-high;next=end-of-name"},
	}
	for _, p := range plants {
		g, err := ParseGraph(p.graph)
		if err != nil {
			return err
		}
		prog, err := parseProg(p.prog, len(g))
		if err != nil {
			return err
		}
		s := describeSource(g, "none")
		ex, err := modelExecute(s, prog, "1.4", p.fl, true)
		if err != nil {
			return err
		}
		fs, _ := judge(s, prog, "1.4", ex)
		hit := false
		var got []string
		for _, f := range fs.list {
			got = append(got, f.fp)
			if strings.HasPrefix(f.fp, p.want) {
				hit = true
			}
		}
		if !hit {
			return fmt.Errorf("planted flaw %d on graph {%s} program {%s} is not reported as %q (reported: %v)", p.fl, p.graph, p.prog, p.want, got)
		}
	}
	rn.r.Dim("selftest_planted_flaws_found", len(plants))
	return nil
}

// selfTestFiles is the part that goes through the library's Writer and
// Reader.
func selfTestFiles(rn *runner) error {
	accepted, err := correctCopies(rn, false)
	if err != nil {
		return err
	}
	rn.r.Dim("selftest_correct_copies_accepted_through_files", accepted)
	return nil
}
