//go:build verif

package c11

import (
	"fmt"
	"strings"
)

// selfTest validates the oracle before it is used: the case syntax round
// trips, a correct copy made by the reference copier is accepted on a
// complete small space, and every planted flaw is reported under the
// fingerprint it belongs to.
func selfTest(rn *runner) error {
	for n := 1; n <= 3; n++ {
		for _, o := range rich.kinds(n) {
			g := make(Graph, n)
			for j := range g {
				g[j] = Obj{K: 'i'}
			}
			g[n-1] = o
			g2, err := ParseGraph(g.String())
			if err != nil || g2.String() != g.String() {
				return fmt.Errorf("graph syntax does not round trip: %q: %v", g.String(), err)
			}
		}
	}

	// (1) a correct copier is accepted
	accepted := 0
	for _, fl := range []flaw{flawNone, flawDirectNullOK} {
		for i, sp := range []space{
			{alpha: rich, n: 1, depth: 2, dangOp: true, cfgs: [][2]string{{"none", "1.4"}, {"rc4-128", "1.7-aes128"}}},
			{alpha: lean, n: 2, depth: 2, dangOp: true, cfgs: plainPair},
			{alpha: mid, n: 2, depth: 1, cfgs: plainPair},
			{alpha: lean, n: 3, depth: 1, rooted: true, cfgs: plainPair},
		} {
			if fl != flawNone && i > 1 {
				continue
			}
			ops := opsFor(sp)
			var progs [][]Op
			for _, a := range ops {
				progs = append(progs, []Op{a})
				if sp.depth >= 2 {
					for _, b := range ops {
						progs = append(progs, []Op{a, b})
					}
				}
			}
			var firstErr error
			var mu = &rn.mu
			cnt := rn.enumerate(sp, func(g Graph) {
				for _, cfg := range sp.cfgs {
					s, err := buildSource(g, cfg[0])
					if err != nil {
						mu.Lock()
						firstErr = err
						mu.Unlock()
						return
					}
					for _, prog := range progs {
						ex, err := modelExecute(s, prog, cfg[1], fl)
						if err == nil {
							fs, _ := judge(s, prog, cfg[1], ex)
							if len(fs.list) > 0 {
								err = fmt.Errorf("the oracle rejects a correct copy: graph {%s} program {%s} %s>%s: [%s] %s", g, progString(prog), cfg[0], cfg[1], fs.list[0].fp, fs.list[0].what)
							}
						}
						if err != nil {
							mu.Lock()
							if firstErr == nil {
								firstErr = err
							}
							mu.Unlock()
							return
						}
					}
				}
			})
			if firstErr != nil {
				return firstErr
			}
			accepted += int(cnt) * len(progs) * len(sp.cfgs)
		}
	}
	rn.r.Dim("selftest_correct_copies_accepted", accepted)

	// (2) planted flaws are found
	type plant struct {
		fl       flaw
		graph    string
		prog     string
		src, tgt string
		want     string
	}
	plants := []plant{
		{flawDuplicate, "[11] i", "R0", "none", "1.4", "sharing:object-copied-twice"},
		{flawDuplicate, "[01]  [0]", "R0", "none", "2.0", "sharing:object-copied-twice"},
		{flawMerge, "[12] i s", "R0", "none", "1.4", "sharing:distinct-objects-merged"},
		{flawEmptyArray, "[a]", "R0", "none", "1.4", "empty-array-becomes-null"},
		{flawEmptyArray, "<a>", "C0", "none", "1.4", "empty-array-becomes-null"},
		{flawEmptyArray, "[]", "R0", "none", "1.4", "empty-array-becomes-null"},
		{flawEmptyArray, "S0<a>", "R0", "none", "1.4", "empty-array-becomes-null"},
		{flawEmptyDict, "[d]", "R0", "none", "1.4", "empty-dict-becomes-null"},
		{flawEmptyDict, "<d>", "R0", "aes-128", "2.0", "empty-dict-becomes-null"},
		{flawEmptyDict, "<>", "R0", "none", "1.4", "empty-dict-becomes-null"},
		{flawDropEntry, "<ii>", "R0", "none", "1.4", "dict-entry-lost"},
		{flawStreamBytes, "S1<>", "R0", "none", "1.4", "stream-bytes-differ:"},
		{flawStreamBytes, "S3<>", "C0", "rc4-128", "2.0-aes256", "stream-bytes-differ:"},
		{flawNullInArray, "[ni]", "R0", "none", "1.4", "array-length"},
		{flawDeadRefKept, "[x]", "R0", "none", "1.4", "dead-reference-not-null"},
		{flawDeadRefKept, "[f]", "C0", "none", "1.4", "dead-reference-not-null"},
		{flawIgnoreRedir, "[1] i", "D1 R0", "none", "1.4", "redirect-not-honoured"},
		{flawIgnoreRedir, "i", "D0 R0", "none", "1.4", "redirect-not-honoured"},
		{flawNewRefTwice, "i", "R0 R0", "none", "1.4", "same-reference-twice:different-target"},
	}
	for _, p := range plants {
		g, err := ParseGraph(p.graph)
		if err != nil {
			return err
		}
		prog, err := parseProg(p.prog, len(g))
		if err != nil {
			return err
		}
		s, err := buildSource(g, p.src)
		if err != nil {
			return err
		}
		ex, err := modelExecute(s, prog, p.tgt, p.fl)
		if err != nil {
			return err
		}
		fs, _ := judge(s, prog, p.tgt, ex)
		hit := false
		var got []string
		for _, f := range fs.list {
			got = append(got, f.fp)
			if strings.HasPrefix(f.fp, p.want) {
				hit = true
			}
		}
		if !hit {
			return fmt.Errorf("planted flaw %d on graph {%s} program {%s} is not reported as %q (reported: %v)", p.fl, p.graph, p.prog, p.want, got)
		}
	}
	rn.r.Dim("selftest_planted_flaws_found", len(plants))
	return nil
}
