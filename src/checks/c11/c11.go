//go:build verif

// Package c11 decides C11: pdf.Copier reproduces the source object graph in
// the target file.
//
// Bounded exhaustive search: every source graph over a small alphabet of
// object kinds (up to isomorphism), every program of Copy / CopyReference /
// Redirect calls up to a depth (breadth first, histories that leave the copier
// in the same state are extended once), every pairing of source and target
// encryption. Each history is executed from scratch with the real Writer,
// Reader and Copier; the target is closed, reopened and compared with the
// source graph by an oracle that knows the graph from the case description.
package c11

import (
	"context"
	"encoding/json"
	"fmt"
	"os"
	"os/exec"
	"sort"
	"strings"
	"sync"
	"sync/atomic"
	"time"

	"seehuhn.de/go/pdf/zzverif/engine/ev"
)

// Case is one replayable execution.
type Case struct {
	Graph string `json:"graph"` // see Graph.String
	Prog  string `json:"prog"`  // "R0 D1 C2 G0 V:<n0>": CopyReference(obj 0), Redirect(obj 1, fresh), Copy(value of obj 2), CopyReference(stale reference to obj 0), Copy(hand-made pdf.Dict{"A": nil, "B": reference to obj 0})
	Src   string `json:"src"`
	Tgt   string `json:"tgt"`
}

func (c Case) key() string { return c.Graph + "|" + c.Prog + "|" + c.Src + "|" + c.Tgt }

// space is one bounded product that is enumerated completely.
type space struct {
	name    string
	alpha   alphabet
	n       int
	rooted  bool // programs: the single calls R0 and C0; every object reachable from object 0
	depth   int  // otherwise: all programs up to this many calls
	dangOp  bool // the alphabet of calls includes CopyReference(dangling)
	staleOp bool // ... and CopyReference(stale reference to object j) for every object
	// directOp: ... and Copy(hand-made direct value) for every value of directValues
	directOp bool
	cfgs     [][2]string
	verify   int // check the source fixture of every verify-th graph
}

type found struct {
	c     Case
	what  string
	size  int
	count int64
}

type runner struct {
	r  *ev.Run
	mu sync.Mutex
	// smallest witness per fingerprint
	found map[string]*found

	wmu      sync.Mutex
	inflight map[int64]*flight
	nextTok  atomic.Int64
	execs    atomic.Int64
	maxReads atomic.Int64
	hung     atomic.Bool

	// suspicions: failures of the machinery that a defect of the library
	// under test can cause (a fixture that does not read back, the file part
	// of the self-test). They do not stop the exploration; see conclude.
	smu       sync.Mutex
	suspicion []string
	nSuspect  int64
}

// suspect records a failure of the machinery that may be the consequence of
// a defect in the library.
func (rn *runner) suspect(msg string) {
	rn.smu.Lock()
	rn.nSuspect++
	if len(rn.suspicion) < 8 {
		rn.suspicion = append(rn.suspicion, msg)
	}
	rn.smu.Unlock()
}

// conclude decides what the suspicions amount to, after the exploration: if
// violations were found they are reported (the suspicions are most likely
// consequences of the same defect; they are listed in the evidence); if not,
// the run is an infrastructure failure.
func (rn *runner) conclude() {
	rn.smu.Lock()
	defer rn.smu.Unlock()
	if rn.nSuspect == 0 {
		return
	}
	r := rn.r
	r.Dim("machinery_failures_attributable_to_the_library", map[string]any{"count": rn.nSuspect, "first": rn.suspicion})
	if r.NumViolations() > 0 {
		for _, m := range rn.suspicion {
			fmt.Println("NOTE (machinery failure, not counted because violations were found):", m)
		}
		return
	}
	for _, m := range rn.suspicion {
		r.Infra(m)
	}
}

type flight struct {
	c     Case
	start time.Time
}

func caseSize(g Graph, prog []Op, src, tgt string) int {
	sz := g.size()*100 + len(prog)*10
	for _, op := range prog {
		sz += len(op.D) // hand-made direct values: the shorter description first
	}
	for i, c := range srcConfigs {
		if c == src {
			sz += 3 * i
		}
	}
	for i, c := range tgtConfigs {
		if c == tgt {
			sz += i
		}
	}
	if tgt == tgtNoSeek {
		sz += len(tgtConfigs)
	}
	return sz
}

func (rn *runner) record(fs fails, g Graph, prog []Op, src, tgt string) {
	if len(fs.list) == 0 {
		return
	}
	c := Case{g.String(), progString(prog), src, tgt}
	sz := caseSize(g, prog, src, tgt)
	rn.mu.Lock()
	for _, f := range fs.list {
		fd := rn.found[f.fp]
		if fd == nil {
			fd = &found{size: 1 << 30}
			rn.found[f.fp] = fd
		}
		fd.count++
		if sz < fd.size || sz == fd.size && c.key() < fd.c.key() {
			fd.c, fd.what, fd.size = c, fmt.Sprintf("graph {%s}, program {%s}, source %s, target %s: %s", c.Graph, c.Prog, src, tgt, f.what), sz
		}
	}
	rn.mu.Unlock()
}

// flush hands the collected classes to the evidence writer, smallest witness
// first.
func (rn *runner) flush() {
	rn.mu.Lock()
	defer rn.mu.Unlock()
	fps := make([]string, 0, len(rn.found))
	for fp := range rn.found {
		fps = append(fps, fp)
	}
	sort.Strings(fps)
	for _, fp := range fps {
		fd := rn.found[fp]
		for i := int64(0); i < fd.count; i++ {
			rn.r.Violation(fp, fd.what, fd.c)
		}
		rn.r.Count("violating_executions:"+fp, fd.count)
	}
	rn.found = map[string]*found{}
}

// run executes one history and judges it.
func (rn *runner) run(s *source, prog []Op, tgtCfg string) (*execution, bool) {
	r := rn.r
	tok := rn.nextTok.Add(1)
	rn.wmu.Lock()
	rn.inflight[tok] = &flight{Case{s.g.String(), progString(prog), s.cfg, tgtCfg}, time.Now()}
	rn.wmu.Unlock()

	ex := execute(s, prog, tgtCfg)
	fs, outcome := judge(s, prog, tgtCfg, ex)

	rn.wmu.Lock()
	delete(rn.inflight, tok)
	rn.wmu.Unlock()

	r.Eval(1)
	r.Trace(1)
	rn.execs.Add(1)
	for {
		old := rn.maxReads.Load()
		if int64(ex.reads) <= old || rn.maxReads.CompareAndSwap(old, int64(ex.reads)) {
			break
		}
	}
	for _, f := range fs.list {
		if strings.HasPrefix(f.fp, "infra:") {
			rn.suspect(fmt.Sprintf("graph {%s} program {%s} %s>%s: %s", s.g, progString(prog), s.cfg, tgtCfg, f.what))
			r.Outcome("not-judged:" + f.fp)
			return ex, false
		}
	}
	if len(fs.list) > 0 {
		for _, f := range fs.list {
			r.Outcome("fail:" + f.fp)
		}
		rn.record(fs, s.g, prog, s.cfg, tgtCfg)
	} else {
		r.Outcome(outcome)
	}
	// a history is worth extending unless a call failed: a wrong value in the
	// target leaves the copier in a proper state
	extend := ex.fatal == "" && ex.closeErr == nil
	for _, st := range ex.steps {
		if st.err != nil {
			extend = false
		}
	}
	return ex, extend
}

func opsFor(sp space) []Op {
	var ops []Op
	for j := 0; j < sp.n; j++ {
		ops = append(ops, Op{K: 'R', J: j}, Op{K: 'C', J: j}, Op{K: 'D', J: j})
	}
	if sp.dangOp {
		ops = append(ops, Op{K: 'R', J: -1})
	}
	if sp.staleOp {
		for j := 0; j < sp.n; j++ {
			ops = append(ops, Op{K: 'G', J: j})
		}
	}
	if sp.directOp {
		for _, o := range directValues(sp.n) {
			ops = append(ops, Op{K: 'V', D: o.String()})
		}
	}
	return ops
}

// search explores the programs on one graph under one configuration.
func (rn *runner) search(sp space, s *source, tgtCfg string, ops []Op) {
	r := rn.r
	if sp.rooted {
		r.State(1)
		for _, op := range []Op{{K: 'R', J: 0}, {K: 'C', J: 0}} {
			r.Trans(1)
			r.State(1)
			rn.run(s, []Op{op}, tgtCfg)
			r.DistinctS(s.g.String() + "|" + op.String())
		}
		return
	}
	seen := map[string]bool{"": true}
	r.State(1)
	frontier := [][]Op{nil}
	for d := 1; d <= sp.depth; d++ {
		var next [][]Op
		for _, h := range frontier {
			for _, op := range ops {
				prog := append(append(make([]Op, 0, len(h)+1), h...), op)
				r.Trans(1)
				ex, ok := rn.run(s, prog, tgtCfg)
				if len(ex.trans) > 0 {
					r.DistinctS(s.g.String() + "|" + progString(prog))
				}
				if !ok {
					continue // a call failed or did not return: nothing to build on
				}
				key := ex.stateKey()
				if !seen[key] {
					seen[key] = true
					r.State(1)
					next = append(next, prog)
				}
			}
		}
		frontier = next
	}
}

// enumerate calls f for every graph of the space, in parallel.
func (rn *runner) enumerate(sp space, f func(g Graph)) int64 {
	kinds := sp.alpha.kinds(sp.n)
	K := len(kinds)
	jobs := 1
	for i := 0; i < sp.n-1; i++ {
		jobs *= K
	}
	if sp.n == 1 {
		jobs = K
	}
	var count atomic.Int64
	full := 1<<sp.n - 1
	rn.r.Par(jobs, func(job int) {
		if rn.r.Expired() || rn.hung.Load() {
			return
		}
		g := make(Graph, sp.n)
		accept := func() {
			if sp.rooted {
				if g.reachFromItems([]Item{{'r', 0}}) != full || !g.canonical(true) {
					return
				}
			} else if !g.weaklyConnected() || !g.canonical(false) {
				return
			}
			count.Add(1)
			f(append(Graph{}, g...))
		}
		if sp.n == 1 {
			g[0] = kinds[job]
			accept()
			return
		}
		x := job
		for i := 0; i < sp.n-1; i++ {
			g[i] = kinds[x%K]
			x /= K
		}
		for _, last := range kinds {
			g[sp.n-1] = last
			accept()
		}
	})
	return count.Load()
}

func (rn *runner) runSpace(sp space) {
	r := rn.r
	ops := opsFor(sp)
	var verifyCtr atomic.Int64
	countOnly := os.Getenv("VERIF_C11_COUNT") != ""
	t0 := time.Now()
	e0 := rn.evals()
	n := rn.enumerate(sp, func(g Graph) {
		if countOnly || r.Expired() || rn.hung.Load() {
			return
		}
		srcs := map[string]*source{}
		for _, cfg := range sp.cfgs {
			s, tried := srcs[cfg[0]]
			if !tried {
				var err error
				s, err = buildSource(g, cfg[0])
				if err != nil {
					rn.suspect(fmt.Sprintf("cannot build source {%s} %s: %v", g, cfg[0], err))
					s = nil
				} else if sp.verify > 0 && verifyCtr.Add(1)%int64(sp.verify) == 0 {
					if err := s.verify(); err != nil {
						rn.suspect(fmt.Sprintf("source fixture {%s} %s: %v", g, cfg[0], err))
						s = nil
					} else {
						r.Count("source_fixtures_verified", 1)
					}
				}
				srcs[cfg[0]] = s
			}
			if s == nil {
				// this source cannot be used; the other graphs and
				// configurations are explored all the same
				r.Count("sources_not_usable", 1)
				continue
			}
			rn.search(sp, s, cfg[1], ops)
		}
		if r.WantSample() {
			r.Sample(Case{g.String(), progString(ops[:1]), sp.cfgs[0][0], sp.cfgs[0][1]})
		}
	})
	cfgNames := make([]string, len(sp.cfgs))
	for i, c := range sp.cfgs {
		cfgNames[i] = c[0] + ">" + c[1]
	}
	progs := fmt.Sprintf("all programs of <= %d calls over %d calls (breadth first, merged by copier state)", sp.depth, len(ops))
	if sp.rooted {
		progs = "CopyReference(obj 0) and Copy(value of obj 0); all objects reachable from obj 0"
	}
	r.Dim("space:"+sp.name, map[string]any{
		"objects": sp.n, "alphabet": sp.alpha.name, "object_kinds": len(sp.alpha.kinds(sp.n)), "calls": len(ops),
		"item_kinds": len(sp.alpha.itemList(sp.n)), "nested_item_kinds": len(sp.alpha.nestedList(sp.n)), "stale_references": sp.alpha.stale,
		"graphs_up_to_isomorphism": n, "programs": progs, "configurations": cfgNames,
		"executions": rn.evals() - e0, "wall_s": time.Since(t0).Seconds(),
	})
	fmt.Printf("[C11] space %-22s graphs=%-8d executions=%-9d %.1fs\n", sp.name, n, rn.evals()-e0, time.Since(t0).Seconds())
}

func (rn *runner) evals() int64 { return rn.execs.Load() }

// ---------------------------------------------------------------------------
// configurations per tier

func pairs(srcs, tgts []string) [][2]string {
	var out [][2]string
	for _, s := range srcs {
		for _, t := range tgts {
			out = append(out, [2]string{s, t})
		}
	}
	return out
}

var allPairs = pairs(srcConfigs, tgtConfigs)

// noAES256 is every pairing except those with the expensive AES-256 target
// (about 8 ms per file against 0.1-0.3 ms for the others).
var noAES256 = pairs(srcConfigs, tgtConfigs[:3])
var encPairs = [][2]string{{"rc4-128", "1.7-aes128"}, {"aes-128", "2.0"}}
var plainPair = [][2]string{{"none", "1.4"}}
var noSeekPairs = [][2]string{{"none", tgtNoSeek}, {"aes-128", tgtNoSeek}}
var rc4TgtPairs = pairs(srcConfigs, []string{tgtRC4})
var rc4TgtPairs2 = [][2]string{{"none", tgtRC4}, {"aes-128", tgtRC4}}

func join(ps ...[][2]string) [][2]string {
	var out [][2]string
	for _, p := range ps {
		out = append(out, p...)
	}
	return out
}

var aes256Pairs = pairs(srcConfigs, tgtConfigs[3:])

// spaces lists the products that are enumerated completely, cheapest first
// (so that a run cut short by its deadline on a loaded machine has covered
// the structural spaces).
func spaces(r *ev.Run) []space {
	if r.Thorough() {
		return []space{
			{name: "1obj-filter-spellings-depth3", alpha: spell, n: 1, depth: 3, dangOp: true, cfgs: join(allPairs, noSeekPairs, rc4TgtPairs), verify: 1},
			{name: "2obj-filter-spellings-rooted", alpha: spell, n: 2, rooted: true, cfgs: join(noAES256, noSeekPairs, rc4TgtPairs), verify: 1},
			{name: "1obj-direct-values-depth3", alpha: lean, n: 1, depth: 3, dangOp: true, directOp: true, cfgs: [][2]string{{"none", "1.4"}, {"aes-128", "1.7-aes128"}}, verify: 1},
			{name: "2obj-direct-values-depth2", alpha: lean, n: 2, depth: 2, directOp: true, cfgs: plainPair, verify: 1},
			{name: "1obj-names-depth2", alpha: names, n: 1, depth: 2, dangOp: true, cfgs: pairs([]string{srcByHand}, []string{"1.4", "2.0"}), verify: 1},
			{name: "1obj-names-rooted-enc", alpha: names, n: 1, rooted: true, cfgs: pairs([]string{srcByHand}, []string{"1.7-aes128", tgtRC4, tgtNoSeek}), verify: 1},
			{name: "1obj-filter-chains2-depth3", alpha: chains2, n: 1, depth: 3, dangOp: true, cfgs: join(allPairs, noSeekPairs, rc4TgtPairs), verify: 1},
			{name: "1obj-filter-chains3-depth2", alpha: chains3, n: 1, depth: 2, cfgs: join(noAES256, noSeekPairs, rc4TgtPairs2), verify: 1},
			{name: "2obj-filter-chains2-linked-depth2", alpha: chains2Linked, n: 2, depth: 2, cfgs: [][2]string{{"none", "1.4"}, {"aes-128", "1.7-aes128"}}, verify: 1},
			{name: "2obj-filter-chains2-linked+K-rooted", alpha: chains2LinkedK, n: 2, rooted: true, cfgs: plainPair, verify: 8},
			{name: "1obj-parm-refs-depth3", alpha: parmRefs, n: 1, depth: 3, dangOp: true, cfgs: join(allPairs, noSeekPairs, rc4TgtPairs), verify: 1},
			{name: "2obj-parm-refs-depth3", alpha: parmRefs, n: 2, depth: 3, dangOp: true, cfgs: plainPair, verify: 1},
			{name: "2obj-parm-refs-depth2-enc", alpha: parmRefs, n: 2, depth: 2, cfgs: join(encPairs, noSeekPairs[:1], rc4TgtPairs2[1:]), verify: 1},
			{name: "3obj-parm-refs-lean-depth2", alpha: parmRefsLean, n: 3, depth: 2, cfgs: plainPair, verify: 8},
			{name: "3obj-parm-refs-nok-rooted", alpha: parmRefsNoK, n: 3, rooted: true, cfgs: [][2]string{{"none", "1.4"}, {"aes-128", "1.7-aes128"}}, verify: 64},
			{name: "1obj-rich-depth3", alpha: rich, n: 1, depth: 3, dangOp: true, staleOp: true, cfgs: join(allPairs, noSeekPairs, rc4TgtPairs), verify: 1},
			{name: "2obj-rich-depth3", alpha: rich, n: 2, depth: 3, dangOp: true, staleOp: true, cfgs: plainPair, verify: 1},
			{name: "3obj-lean-depth3", alpha: lean, n: 3, depth: 3, cfgs: plainPair, verify: 8},
			{name: "3obj-lean+stale-depth2", alpha: leanStale, n: 3, depth: 2, cfgs: plainPair, verify: 8},
			{name: "3obj-mid-depth2", alpha: mid, n: 3, depth: 2, cfgs: plainPair, verify: 64},
			{name: "3obj-mid+stale-rooted", alpha: midStale, n: 3, rooted: true, cfgs: plainPair, verify: 64},
			{name: "3obj-rich-flat-rooted", alpha: richFlat, n: 3, rooted: true, cfgs: [][2]string{{"none", "1.4"}, {"aes-128", "1.7-aes128"}}, verify: 64},
			{name: "2obj-rich-depth2-enc", alpha: richNested, n: 2, depth: 2, dangOp: true, cfgs: encPairs, verify: 1},
			{name: "3obj-lean-depth2-enc", alpha: lean, n: 3, depth: 2, cfgs: encPairs, verify: 8},
			{name: "2obj-rich-rooted", alpha: richNested, n: 2, rooted: true, cfgs: join(allPairs, noSeekPairs, rc4TgtPairs), verify: 1},
		}
	}
	return []space{
		{name: "1obj-filter-spellings-depth2", alpha: spell, n: 1, depth: 2, dangOp: true, cfgs: join(noAES256, noSeekPairs, rc4TgtPairs), verify: 1},
		{name: "1obj-filter-spellings-aes256", alpha: spell, n: 1, depth: 1, cfgs: aes256Pairs, verify: 1},
		{name: "1obj-direct-values-depth2", alpha: lean, n: 1, depth: 2, dangOp: true, directOp: true, cfgs: [][2]string{{"none", "1.4"}, {"aes-128", "1.7-aes128"}}, verify: 1},
		{name: "1obj-names-rooted", alpha: names, n: 1, rooted: true, cfgs: [][2]string{{srcByHand, "1.4"}, {srcByHand, "1.7-aes128"}}, verify: 1},
		{name: "1obj-filter-chains2-depth2", alpha: chains2, n: 1, depth: 2, dangOp: true, cfgs: join(noAES256, noSeekPairs, rc4TgtPairs), verify: 1},
		{name: "1obj-filter-chains2-aes256", alpha: chains2, n: 1, depth: 1, cfgs: aes256Pairs, verify: 1},
		{name: "1obj-filter-chains3-rooted", alpha: chains3, n: 1, rooted: true, cfgs: [][2]string{{"none", "1.4"}, {"aes-128", "1.7-aes128"}, {"rc4-128", "2.0"}, {"none", tgtNoSeek}}, verify: 1},
		{name: "2obj-filter-chains2-linked-rooted", alpha: chains2Linked, n: 2, rooted: true, cfgs: plainPair, verify: 1},
		{name: "1obj-parm-refs-depth2", alpha: parmRefs, n: 1, depth: 2, dangOp: true, cfgs: join(noAES256, noSeekPairs, rc4TgtPairs, aes256Pairs[:1]), verify: 1},
		{name: "2obj-parm-refs-depth2", alpha: parmRefs, n: 2, depth: 2, cfgs: plainPair, verify: 1},
		{name: "2obj-parm-refs-rooted-enc", alpha: parmRefs, n: 2, rooted: true, cfgs: join(encPairs, noSeekPairs[:1], rc4TgtPairs2[1:]), verify: 1},
		{name: "3obj-parm-refs-lean-rooted", alpha: parmRefsLean, n: 3, rooted: true, cfgs: plainPair, verify: 8},
		{name: "1obj-rich-depth3", alpha: rich, n: 1, depth: 3, dangOp: true, staleOp: true, cfgs: join(noAES256, noSeekPairs, rc4TgtPairs), verify: 1},
		{name: "2obj-mid+stale-depth3", alpha: midStale, n: 2, depth: 3, dangOp: true, staleOp: true, cfgs: plainPair, verify: 1},
		{name: "3obj-lean-depth2", alpha: lean, n: 3, depth: 2, cfgs: plainPair, verify: 8},
		{name: "3obj-lean+stale-rooted", alpha: leanStale, n: 3, rooted: true, cfgs: plainPair, verify: 8},
		{name: "2obj-rich-depth2", alpha: rich, n: 2, depth: 2, dangOp: true, cfgs: plainPair, verify: 1},
		{name: "3obj-mid-rooted", alpha: mid, n: 3, rooted: true, cfgs: [][2]string{{"none", "1.4"}, {"aes-128", "1.7-aes128"}}, verify: 64},
		{name: "2obj-mid-depth2-enc", alpha: mid, n: 2, depth: 2, dangOp: true, cfgs: encPairs, verify: 1},
		{name: "2obj-rich-rooted", alpha: richNested, n: 2, rooted: true, cfgs: join(noAES256, noSeekPairs, rc4TgtPairs2), verify: 1},
		{name: "1obj-rich-depth2-aes256", alpha: richNested, n: 1, depth: 2, dangOp: true, cfgs: aes256Pairs, verify: 1},
	}
}

// ---------------------------------------------------------------------------

func newRunner(r *ev.Run) *runner {
	return &runner{r: r, found: map[string]*found{}, inflight: map[int64]*flight{}}
}

// runCase executes one case (replays, known witnesses, self-test).
func (rn *runner) runCase(c Case) error {
	g, err := ParseGraph(c.Graph)
	if err != nil {
		return err
	}
	prog, err := parseProg(c.Prog, len(g))
	if err != nil {
		return err
	}
	s, err := buildSource(g, c.Src)
	if err != nil {
		return err
	}
	if err := s.verify(); err != nil {
		return fmt.Errorf("source fixture: %w", err)
	}
	if _, _, err := writerFor(c.Tgt); err != nil {
		return err
	}
	rn.run(s, prog, c.Tgt)
	return nil
}

// Run is the check.
func Run(tier string) int {
	budget := 4 * time.Minute
	if tier == "thorough" {
		budget = 25 * time.Minute
	}
	r := ev.New("C11", tier, "model_checking", budget)
	rn := newRunner(r)
	r.Rule("a case is (source graph up to isomorphism, program of Copy/CopyReference/Redirect calls, source configuration, target configuration); every case is executed from scratch with the real Writer, Reader and Copier, the target is closed, reopened and compared with the graph of the case description; states = distinct abstract copier states (which source references are translated, to a copy or to a redirect target) per graph and configuration, transitions = histories generated, traces = histories executed on the implementation (all of them); distinct non-trivial = distinct (graph, program) pairs in which at least one reference is translated")
	r.Assume(
		"source fixtures are written with pdf.Writer (streams with indirect /Length, /Filter, /DecodeParms through a thin export wrapper that emits the dictionary verbatim) and checked to read back as described; the fixtures of the name family (source configuration by-hand) are written without the library, by the framework's reference writer and printer (ref/pdffile, ref/pdfsyn), so that a defect of the library's Writer cannot change what the source says, and are checked to read back as described through the library's Reader",
		"identity of a source object is the object a reference finally leads to; a reference that leads to no object (dangling, free, or the number of a live object with a wrong generation) is a null value; reference loops and chains that pass a redirected object are outside the statement (every outcome accepted)",
		"the oracle was validated at start-up against an independent reference copier whose targets are described as data (no Writer, no Reader): accepted on every self-test case, and each planted flaw reported under its fingerprint (selftest_* entries); the same correct copies are also sent through the library's Writer and Reader, and a failure of that second part, of a source fixture or of a known witness counts as an infrastructure failure only if the exploration finds no violation (otherwise it is listed under machinery_failures_attributable_to_the_library)",
		"the fixtures of the filter-chain family are encoded by the harness (compress/zlib, the framework's reference LZW encoder, own ASCIIHex and PNG-Up encoders); the encoding is checked at start-up against decoders that are not the library's (compress/zlib, x/image/tiff/lzw, encoding/hex) and every fixture is checked to decode to its plaintext through the library's Reader before it is used",
		"/Filter and /DecodeParms of a stream may be respelled by the copier (inlined, name <-> one-element array): their form is not compared, but a reference inside a filter parameter dictionary is a reference of the graph and is judged like every other (translated to the copy of the same source object, shared with every other path); the /JBIG2Decode streams of the parm-reference family hold opaque data that nothing decodes, in the source either: for them the stored bytes after decryption are compared as long as the target names the same filter chain",
		"non-termination is detected by bounding the number of reads from the source (see source_read_budget and max_source_reads_in_one_execution) and by a 20 s wall-clock watchdog whose suspects are re-run twice in a child process")

	// The oracle is tested without the library (targets described as data);
	// if that fails the oracle is wrong and nothing it says can be believed.
	if err := selfTestOracle(rn); err != nil {
		r.Infra("oracle self-test: " + err.Error())
		return r.Finish()
	}
	// The same correct copies sent through the library's Writer and Reader:
	// a failure may be a defect of the library under test, so the exploration
	// runs anyway and decides (see conclude).
	if os.Getenv("VERIF_C11_SPACE") == "" {
		if err := selfTestFiles(rn); err != nil {
			msg := "self-test through files (reference copier > Writer > Reader > oracle): " + err.Error()
			r.Dim("selftest_through_files_failed", msg)
			rn.suspect(msg)
		}
	}

	stop := rn.watchdog()
	defer stop()

	for _, k := range r.KnownWitnesses() {
		var c Case
		if json.Unmarshal(k.Witness, &c) == nil && c.Graph != "" {
			if err := rn.runCase(c); err != nil {
				rn.suspect("known witness does not run: " + err.Error())
			}
		}
	}

	r.Dim("source_configurations", append(append([]string{}, srcConfigs...), srcByHand))
	r.Dim("target_configurations", append(append([]string{}, tgtConfigs...), tgtNoSeek, tgtRC4))
	r.Dim("item_kinds", map[string]string{
		"i": "integer", "s": "string", "n": "null", "a": "[]", "d": "<<>>", "0 1 2": "reference to an object of the graph",
		"x": "dangling reference (number beyond the xref)", "f": "reference to a free object",
		"~0 ~1 ~2":            "stale reference: number of a live object, wrong generation (N 1 R while N 0 obj exists)",
		"[s] <s> [0] <0> ...": "nested direct array / dictionary holding a string or a reference to an object of the graph",
	})
	r.Dim("name_family", "names /p23h and dictionary keys =p23h: every name that consists of {nothing, the regular character N} + one byte out of 0x01..0xFF (regular characters, the number sign, delimiters, white space, control characters, DEL and bytes above 0x7E) + a tail out of {nothing, the two hexadecimal digits 41, a hexadecimal digit and another character 4z, two characters that are no hexadecimal digits zz}; every name stands as a name object, as the only element of an array, as the value and as the KEY of the only entry of a dictionary and of a stream dictionary (plain stream, /FlateDecode stream, stream with an indirect /Length), and one level down (a nested direct array holding it, a nested direct dictionary holding it as a value and as a key) inside an array, a dictionary and a stream dictionary; the sources of these spaces are written without the library (source configuration by-hand: ref/pdffile + ref/pdfsyn, classic cross-reference table, unencrypted) and checked to read back as described; oracle as for every value: the same name, the same keys")
	r.Dim("name_family_names", numNames)
	r.Dim("name_family_bytes", 255)
	r.Dim("name_family_tails", nameTailNames)
	r.Dim("name_family_prefixes", []string{"the byte begins the name", "the byte follows the regular character N"})
	r.Dim("name_family_object_kinds_per_name", len(names.kinds(1))/numNames)
	r.Dim("stream_variants", stmNames)
	r.Dim("filter_spelling_family", "stream variants 5..: every one-filter chain X in {FlateDecode, ASCIIHexDecode, Crypt (Identity)} as /Filter /X and as /Filter [/X], each with /DecodeParms absent, a dictionary, a one-element array (a bare name with an array of parameters and an array with a bare dictionary cannot be decoded: only the rest of the object is judged); [/Crypt /FlateDecode] and [/Crypt /ASCIIHexDecode] with /DecodeParms absent and a two-element array; a stream that starts with /Crypt is stored unencrypted in an encrypted source")
	r.Dim("filter_spelling_variants", len(spellings))
	r.Dim("direct_value_family", "call V = Copy(hand-made direct value): arrays and dictionaries with one item out of {nil, pdf.Array(nil), pdf.Dict(nil), integer, reference to an object of the graph, [nil] [pdf.Array(nil)] [pdf.Dict(nil)] <</N nil>> <</N pdf.Array(nil)>> <</N pdf.Dict(nil)>>}, two items out of the first five kinds in both orders, and the bare values nil, pdf.Array(nil), pdf.Dict(nil); a nil entry or element counts as null / absent, a typed nil container as null or an empty container of its type")
	r.Dim("direct_values_1_object", len(directValues(1)))
	r.Dim("parm_reference_family", "stream variants "+fmt.Sprint(stmParmBase)+"..: a stream whose filter parameter dictionary holds an indirect reference to a node of the source graph: filter in {FlateDecode with <</Predictor 12 /Columns 4 /G ref>> (decodes; /G is unknown to the filter), JBIG2Decode with <</JBIG2Globals ref>> (opaque data, stored bytes compared)} x placement of the dictionary in {/Filter /X + dictionary; [/X] + [dictionary]; /X + reference to the dictionary; [/X] + [reference]; [/X] + reference to [dictionary]; [/X] + reference to [reference]; [/ASCIIHexDecode /X] + [null dictionary]} x reference to every object of the graph (the stream itself included: a stream, a dictionary or array that a second path reaches, a link of a reference chain) or a dangling reference x /K entry absent or a reference to every object of the graph; the oracle finds the parameter dictionary by the meaning of /Filter and /DecodeParms (any spelling, direct or behind references) and judges the reference inside like every other reference of the graph")
	r.Dim("parm_reference_variants", len(parmSpecs))
	r.Dim("filter_chain_family", "streams S{chain:parms}: every filter chain of length 2 and 3 over {FlateDecode, ASCIIHexDecode, LZWDecode} (/Filter an array of names) x /DecodeParms absent or an array with one entry per filter, every position independently one of {null, the predictor dictionary <</Predictor 12 /Columns 1>>, the empty dictionary, a reference to an object holding the predictor dictionary, a reference to an object holding the empty dictionary, a reference to an object holding null}; the data is encoded accordingly (PNG Up predictor at the stages whose entry is or leads to the predictor dictionary and whose filter has a predictor), so every stream decodes in the source and a parameter entry that moves, vanishes or appears changes the decoded bytes; oracle as for every stream: the decoded bytes in the reopened target")
	r.Dim("filter_chain_filters", []string{"FlateDecode", "ASCIIHexDecode", "LZWDecode"})
	entryNames := map[string]string{}
	for k, v := range chainEntryNames {
		entryNames[string(rune(k))] = v
	}
	r.Dim("filter_chain_parameter_entries", entryNames)
	r.Dim("filter_chain_variants", map[string]int{"2 filters": len(chainVariantsOfLen(2)), "3 filters": len(chainVariantsOfLen(3))})
	for _, sp := range spaces(r) {
		if r.Expired() || rn.hung.Load() {
			break
		}
		if only := os.Getenv("VERIF_C11_SPACE"); only != "" && only != sp.name {
			continue // debugging aid; the evidence then covers that space only
		}
		if pr := strings.Split(os.Getenv("VERIF_C11_PAIR"), ">"); len(pr) == 2 {
			sp.cfgs = [][2]string{{pr[0], pr[1]}}
		}
		rn.runSpace(sp)
	}
	r.Dim("max_source_reads_in_one_execution", rn.maxReads.Load())
	r.Dim("source_read_budget", getBudget)
	rn.flush()
	rn.conclude()
	return r.Finish()
}

// Replay re-executes the case of a replay file.
func Replay(path string) int {
	var c Case
	if err := ev.ReplayCase(path, &c); err != nil {
		fmt.Println("replay:", err)
		return 2
	}
	r := ev.New("C11", "quick", "model_checking", time.Minute)
	r.SetReplayMode()
	rn := newRunner(r)
	stop := rn.watchdog()
	defer stop()
	if err := rn.runCase(c); err != nil {
		fmt.Println("replay:", err)
		return 2
	}
	rn.flush()
	rn.conclude()
	return r.Finish()
}

// ---------------------------------------------------------------------------
// watchdog

const hangAfter = 20 * time.Second

// watchdog reports executions that run for more than 20 s. A suspect is
// re-run twice in a child process; only if it hangs there too is it a
// violation (a goroutine that hangs cannot be stopped, so the run ends
// then). A suspect that finishes when re-run was merely starved on a loaded
// machine: it is noted as flaky and the run goes on; should the original
// still not have returned a minute later the run is cut short (exhaustive:
// false), without a violation.
func (rn *runner) watchdog() (stop func()) {
	done := make(chan struct{})
	go func() {
		t := time.NewTicker(2 * time.Second)
		defer t.Stop()
		starved := map[int64]time.Time{}
		overAge := map[int64]int{}
		for {
			select {
			case <-done:
				return
			case <-t.C:
			}
			var suspect *flight
			var suspectTok int64
			stuck := false
			rn.wmu.Lock()
			for tok, f := range rn.inflight {
				if t0, known := starved[tok]; known {
					if time.Since(t0) > time.Minute {
						stuck = true
					}
					continue
				}
				if time.Since(f.start) > hangAfter {
					// over age at two consecutive looks: if the whole
					// machine was frozen for a while, everything in flight
					// looks old at the first look after it
					overAge[tok]++
					if overAge[tok] >= 2 && suspect == nil {
						suspect, suspectTok = f, tok
					}
				}
			}
			for tok := range overAge {
				if _, still := rn.inflight[tok]; !still {
					delete(overAge, tok)
				}
			}
			rn.wmu.Unlock()
			r := rn.r
			if stuck {
				rn.hung.Store(true)
				r.Capped("an execution that finished when re-run in a child process never returned in this process")
				rn.flush()
				os.Exit(r.Finish())
			}
			if suspect == nil {
				continue
			}
			hangs := 0
			for i := 0; i < 2; i++ {
				if childHangs(suspect.c) {
					hangs++
				}
			}
			if hangs < 2 {
				r.Flaky(fmt.Sprintf("case %s exceeded %v once but finished when re-run", suspect.c.key(), hangAfter))
				starved[suspectTok] = time.Now()
				continue
			}
			rn.hung.Store(true)
			var fs fails
			fs.add("non-termination", "the execution did not finish within %v (3 of 3 runs)", hangAfter)
			g, _ := ParseGraph(suspect.c.Graph)
			prog, _ := parseProg(suspect.c.Prog, len(g))
			rn.record(fs, g, prog, suspect.c.Src, suspect.c.Tgt)
			r.Capped("stopped after an execution exceeded the watchdog deadline")
			rn.flush()
			os.Exit(r.Finish())
		}
	}()
	return func() { close(done) }
}

func childHangs(c Case) bool {
	bin := os.Getenv("VERIF_BIN")
	if bin == "" {
		bin = os.Args[0]
	}
	data, _ := json.Marshal(c)
	ctx, cancel := context.WithTimeout(context.Background(), hangAfter+5*time.Second)
	defer cancel()
	cmd := exec.CommandContext(ctx, bin, "C11", "case", string(data))
	cmd.Run()
	return ctx.Err() != nil
}

// CaseMain runs one case in this process ("vcheck C11 case <json>").
func CaseMain(args []string) int {
	if len(args) != 1 {
		return 2
	}
	var c Case
	if err := json.Unmarshal([]byte(args[0]), &c); err != nil {
		return 2
	}
	r := ev.New("C11", "quick", "model_checking", time.Minute)
	r.SetReplayMode()
	rn := newRunner(r)
	if err := rn.runCase(c); err != nil {
		fmt.Println(err)
		return 2
	}
	rn.flush()
	rn.conclude()
	return r.Finish()
}
