//go:build verif

package c11

import (
	"bytes"
	"compress/zlib"
	"fmt"
	"io"
	"runtime/debug"
	"strings"

	"seehuhn.de/go/pdf"
	"seehuhn.de/go/pdf/internal/debug/memfile"
	"seehuhn.de/go/pdf/zzverif/ref/codecs"
	"seehuhn.de/go/pdf/zzverif/ref/pdffile"
	"seehuhn.de/go/pdf/zzverif/ref/pdfsyn"
)

// configurations ------------------------------------------------------------

var srcConfigs = []string{"none", "rc4-128", "aes-128"}

// srcByHand is an extra source configuration: an unencrypted PDF 1.7 file
// that is written without the library under test (the framework's reference
// writer ref/pdffile and printer ref/pdfsyn: classic cross-reference table,
// names with every byte outside the regular printable range, and the number
// sign, in the #xx form). A defect of the library's Writer cannot change what
// such a source says.
const srcByHand = "by-hand"

var tgtConfigs = []string{"1.4", "1.7-aes128", "2.0", "2.0-aes256"}

// tgtRC4 is an extra target: PDF 1.4 with RC4-128 (per-object keys like
// AES-128, but a string or stream decrypted with the wrong key reads as
// garbage instead of failing).
const tgtRC4 = "1.4-rc4128"

// tgtNoSeek is an extra target: PDF 1.4 written to a sink that can only
// Write (the writer cannot read back or patch what it has written, stream
// lengths become indirect objects).
const tgtNoSeek = "1.4-noseek"

type writeOnly struct{ buf bytes.Buffer }

func (w *writeOnly) Write(p []byte) (int, error) { return w.buf.Write(p) }

func writerFor(cfg string) (pdf.Version, *pdf.WriterOptions, error) {
	enc := &pdf.WriterOptions{OwnerPassword: "owner", UserPermissions: pdf.PermAll}
	switch cfg {
	case "none", "1.4", tgtNoSeek:
		return pdf.V1_4, nil, nil
	case "rc4-128", tgtRC4:
		return pdf.V1_4, enc, nil
	case "aes-128":
		return pdf.V1_6, enc, nil
	case "1.7-aes128":
		return pdf.V1_7, enc, nil
	case "2.0":
		return pdf.V2_0, nil, nil
	case "2.0-aes256":
		return pdf.V2_0, enc, nil
	}
	return 0, nil, fmt.Errorf("unknown configuration %q", cfg)
}

// values --------------------------------------------------------------------

func objInt(j int) pdf.Integer     { return pdf.Integer(1000 + j) }
func objStr(j int) pdf.String      { return pdf.String(fmt.Sprintf("object-%d-string", j)) }
func itemInt(j, p int) pdf.Integer { return pdf.Integer(10*(j+1) + p) }
func itemStr(j, p int) pdf.String  { return pdf.String(fmt.Sprintf("s%d.%d", j, p)) }

// nestedStr is the string inside the nested container at position p of object j.
func nestedStr(j, p int) pdf.String { return pdf.String(fmt.Sprintf("nested-%d.%d", j, p)) }

const nestedKey = pdf.Name("N")

var dictKeys = []pdf.Name{"A", "B"}

const stmKey = pdf.Name("K")

// entryKey is the key of the dictionary entry that holds the item: the key of
// its position (/A, /B, /K, /N), or, for an item of kind 'y', the name of the
// name family the item stands for.
func entryKey(base pdf.Name, it Item) pdf.Name {
	if it.K == 'y' {
		return pdf.Name(nameString(it.R))
	}
	return base
}

// plainData is the decoded content of stream object j.
func plainData(j, variant int) []byte {
	n := 32
	if variant == stmIndLength {
		n = 1500
	}
	pat := fmt.Sprintf("stream-%d:", j)
	b := []byte(strings.Repeat(pat, n/len(pat)+1))
	b = b[:n]
	if variant == stmIndLength {
		// make sure neither "endstream" nor an EOL occurs, and that every
		// 256-byte block differs
		for i := 0; i < n; i += 97 {
			b[i] = byte('A' + i/97)
		}
	}
	return b
}

func deflate(b []byte) []byte {
	var buf bytes.Buffer
	zw := zlib.NewWriter(&buf)
	zw.Write(b)
	zw.Close()
	return buf.Bytes()
}

// pngUp applies PNG predictor 12 ("Up") to rows of the given width.
func pngUp(b []byte, cols int) []byte {
	var out []byte
	prev := make([]byte, cols)
	for i := 0; i+cols <= len(b); i += cols {
		out = append(out, 2)
		for k := 0; k < cols; k++ {
			out = append(out, b[i+k]-prev[k])
		}
		prev = b[i : i+cols]
	}
	return out
}

// hexEncode is ASCIIHexDecode's encoding (with the end-of-data marker).
func hexEncode(b []byte) []byte {
	const digits = "0123456789ABCDEF"
	out := make([]byte, 0, 2*len(b)+1)
	for _, c := range b {
		out = append(out, digits[c>>4], digits[c&15])
	}
	return append(out, '>')
}

// stmEncoding returns what a spelling variant puts into the stream dictionary
// (/Filter and /DecodeParms as direct objects; nil = no such entry) and the
// bytes stored for the decoded content plain. The parameter dictionaries:
// FlateDecode <</Predictor 12 /Columns 4>> (not the default: the stored bytes
// differ), ASCIIHexDecode <<>> (the filter has no parameters), Crypt <</Type
// /CryptFilterDecodeParms /Name /Identity>> (absent means Identity as well).
func stmEncoding(v int, plain []byte) (filter, parms pdf.Object, raw []byte) {
	sp, ok := spellingOf(v)
	if !ok {
		panic("stmEncoding: not a spelling variant")
	}
	raw = plain
	var names pdf.Array
	var dicts pdf.Array
	withParms := sp.parms != '-'
	// encode innermost filter first
	for i := len(sp.chain) - 1; i >= 0; i-- {
		var d pdf.Object
		switch sp.chain[i] {
		case 'F':
			if withParms {
				d = pdf.Dict{"Predictor": pdf.Integer(12), "Columns": pdf.Integer(4)}
				raw = deflate(pngUp(raw, 4))
			} else {
				raw = deflate(raw)
			}
		case 'H':
			if withParms && len(sp.chain) == 1 {
				d = pdf.Dict{}
			}
			raw = hexEncode(raw)
		case 'C':
			if withParms {
				d = pdf.Dict{"Type": pdf.Name("CryptFilterDecodeParms"), "Name": pdf.Name("Identity")}
			}
		}
		names = append(pdf.Array{pdf.Name(filterLongNames[sp.chain[i]])}, names...)
		dicts = append(pdf.Array{d}, dicts...)
	}
	if sp.array {
		filter = names
	} else {
		filter = names[0]
	}
	switch sp.parms {
	case 'd':
		parms = dicts[0]
	case 'a':
		parms = dicts
	}
	return filter, parms, raw
}

// filter-chain family -----------------------------------------------------------

// chainPredictor is the predictor dictionary of the family: PNG "Up" on rows of
// one byte, so that data of any length can pass through it.
func chainPredictor() pdf.Dict {
	return pdf.Dict{"Predictor": pdf.Integer(12), "Columns": pdf.Integer(1)}
}

// lzwEncode is LZWDecode's encoding with the default /EarlyChange 1 (reference
// encoder of the framework, cross-checked against x/image/tiff/lzw).
func lzwEncode(b []byte) []byte {
	return codecs.LZWEncode(b, codecs.LZWOptions{EarlyChange: true})
}

// chainRaw returns the bytes stored for the decoded content plain: the last
// filter of the chain is applied first when encoding.
func chainRaw(cs chainSpec, plain []byte) []byte {
	raw := plain
	for i := len(cs.chain) - 1; i >= 0; i-- {
		if cs.predictorAt(i) {
			raw = pngUp(raw, 1)
		}
		switch cs.chain[i] {
		case 'F':
			raw = deflate(raw)
		case 'L':
			raw = lzwEncode(raw)
		case 'H':
			raw = hexEncode(raw)
		}
	}
	return raw
}

// chainNames is the /Filter array of the chain.
func chainNames(cs chainSpec) pdf.Array {
	names := make(pdf.Array, len(cs.chain))
	for i := range names {
		names[i] = pdf.Name(chainLongNames[cs.chain[i]])
	}
	return names
}

// chainParms builds the /DecodeParms array (nil: no such entry). indirect is
// called for the entries that are references: it stores the object and
// returns the reference to it; with indirect == nil everything is inlined
// (what the stream dictionary amounts to).
func chainParms(cs chainSpec, indirect func(pdf.Object) (pdf.Object, error)) (pdf.Object, error) {
	if cs.parms == "-" {
		return nil, nil
	}
	parms := make(pdf.Array, len(cs.parms))
	for i := range parms {
		var v pdf.Object
		switch cs.parms[i] {
		case 'p', 'P':
			v = chainPredictor()
		case 'e', 'E':
			v = pdf.Dict{}
		}
		if indirect != nil && strings.IndexByte("PEN", cs.parms[i]) >= 0 {
			ref, err := indirect(v)
			if err != nil {
				return nil, err
			}
			v = ref
		}
		parms[i] = v
	}
	return parms, nil
}

// filterLayout reads /Filter and /DecodeParms of a stream dictionary the way
// the standard defines them, whatever the spelling (a name or an array of
// names; a dictionary or an array of dictionaries and nulls; each of them
// direct or behind a reference): the filter names and, per filter, its
// parameter dictionary (nil: none). ok = false: not of that form.
func filterLayout(resolve func(pdf.Object) (pdf.Object, bool), d pdf.Dict) (names []pdf.Name, parms []pdf.Dict, ok bool) {
	fv, ok := resolve(d["Filter"])
	if !ok {
		return nil, nil, false
	}
	switch f := fv.(type) {
	case nil:
	case pdf.Name:
		names = []pdf.Name{f}
	case pdf.Array:
		for _, e := range f {
			e, ok := resolve(e)
			n, isName := e.(pdf.Name)
			if !ok || !isName {
				return nil, nil, false
			}
			names = append(names, n)
		}
	default:
		return nil, nil, false
	}
	parms = make([]pdf.Dict, len(names))
	pv, ok := resolve(d["DecodeParms"])
	if !ok {
		return nil, nil, false
	}
	switch p := pv.(type) {
	case nil:
	case pdf.Dict:
		if len(names) != 1 {
			return nil, nil, false
		}
		parms[0] = p
	case pdf.Array:
		for i := range names {
			if i >= len(p) {
				break
			}
			e, ok := resolve(p[i])
			if !ok {
				return nil, nil, false
			}
			switch ed := e.(type) {
			case nil:
			case pdf.Dict:
				parms[i] = ed
			default:
				return nil, nil, false
			}
		}
	default:
		return nil, nil, false
	}
	return names, parms, true
}

// parmKind classifies a parameter dictionary like chainSpec.entryKind.
func parmKind(d pdf.Dict) string {
	switch {
	case d == nil:
		return "null"
	case countNonNull(d) == 0:
		return "empty"
	}
	return "dict"
}

// parm-reference family -------------------------------------------------------

var parmFilterNames = map[byte]pdf.Name{'F': "FlateDecode", 'J': "JBIG2Decode"}

// parmKeys: the entry of the parameter dictionary that holds the reference.
// /JBIG2Globals is the entry the standard defines with an indirect reference
// as its value; /G is an entry FlateDecode does not know.
var parmKeys = map[byte]pdf.Name{'F': "G", 'J': "JBIG2Globals"}

// parmDict is the parameter dictionary with the reference ref inside (nil: no
// such entry).
func parmDict(filter byte, ref pdf.Object) pdf.Dict {
	d := pdf.Dict{}
	if filter == 'F' {
		d["Predictor"], d["Columns"] = pdf.Integer(12), pdf.Integer(4)
	}
	if ref != nil {
		d[parmKeys[filter]] = ref
	}
	return d
}

// parmRaw returns the bytes stored for the content plain: Flate with the PNG
// "Up" predictor for 'F'; for 'J' the content is taken as it is (an opaque
// JBIG2 body that nothing decodes). In shape '2' ASCIIHexDecode comes on top.
func parmRaw(ps parmSpec, plain []byte) []byte {
	raw := plain
	if ps.filter == 'F' {
		raw = deflate(pngUp(plain, 4))
	}
	if ps.shape == '2' {
		raw = hexEncode(raw)
	}
	return raw
}

// parmInlined returns /Filter and /DecodeParms of the variant with everything
// direct (what the shapes with indirect objects amount to).
func parmInlined(ps parmSpec, pd pdf.Dict) (filter, parms pdf.Object) {
	name := parmFilterNames[ps.filter]
	switch ps.shape {
	case 'd', 'D':
		return name, pd
	case '2':
		return pdf.Array{pdf.Name("ASCIIHexDecode"), name}, pdf.Array{nil, pd}
	}
	return pdf.Array{name}, pdf.Array{pd}
}

// locateParms finds, in a stream dictionary, the parameter dictionary that
// belongs to the filter name. It reads /Filter and /DecodeParms the way the
// standard defines them, whatever the spelling: a name or an array of names, a
// dictionary or an array of dictionaries and nulls, each of them direct or
// behind a reference (resolve follows a reference; ok = false: unreadable).
//
//	hasFilter: the filter chain contains the filter
//	pd:        its parameter dictionary (nil: none)
func locateParms(resolve func(pdf.Object) (pdf.Object, bool), d pdf.Dict, name pdf.Name) (pd pdf.Dict, hasFilter, ok bool) {
	fv, ok := resolve(d["Filter"])
	if !ok {
		return nil, false, false
	}
	var names []pdf.Object
	switch f := fv.(type) {
	case pdf.Name:
		names = []pdf.Object{f}
	case pdf.Array:
		for _, e := range f {
			e, ok := resolve(e)
			if !ok {
				return nil, false, false
			}
			names = append(names, e)
		}
	}
	idx := -1
	for i, n := range names {
		if n == pdf.Object(name) {
			idx = i
			break
		}
	}
	if idx < 0 {
		return nil, false, true
	}
	pv, ok := resolve(d["DecodeParms"])
	if !ok {
		return nil, true, false
	}
	switch p := pv.(type) {
	case pdf.Dict:
		if len(names) == 1 {
			return p, true, true
		}
	case pdf.Array:
		if idx < len(p) {
			e, ok := resolve(p[idx])
			if !ok {
				return nil, true, false
			}
			if ed, isDict := e.(pdf.Dict); isDict {
				return ed, true, true
			}
		}
	}
	return nil, true, true
}

// source ----------------------------------------------------------------------

type source struct {
	g        Graph
	cfg      string
	data     []byte
	refs     []pdf.Reference // object j of the graph
	free     pdf.Reference
	dangling pdf.Reference
	numAux   int
}

// stale is the reference with the number of object j and a wrong generation.
func (s *source) stale(j int) pdf.Reference {
	return pdf.NewReference(s.refs[j].Number(), s.refs[j].Generation()+1)
}

func (s *source) itemObj(it Item, j, p int) pdf.Object {
	switch it.K {
	case 'g':
		return s.stale(it.R)
	case 'm':
		return nestedStr(j, p)
	case 'A':
		return pdf.Array{s.itemObj(it.inner(), j, p)}
	case 'T':
		return pdf.Dict{entryKey(nestedKey, it.inner()): s.itemObj(it.inner(), j, p)}
	case 'k':
		return pdf.Name(nameString(it.R))
	case 'i', 'y':
		return itemInt(j, p)
	case 's':
		return itemStr(j, p)
	case 'n':
		return nil
	case 'N':
		return pdf.Array(nil)
	case 'M':
		return pdf.Dict(nil)
	case 'a':
		return pdf.Array{}
	case 'd':
		return pdf.Dict{}
	case 'r':
		return s.refs[it.R]
	case 'x':
		return s.dangling
	case 'f':
		return s.free
	}
	panic("bad item")
}

// directValue builds the hand-made value of a 'V' call the way a caller
// would: Go nils where the description says so.
func (s *source) directValue(o Obj) pdf.Native {
	switch o.K {
	case 'N':
		return pdf.Array(nil)
	case 'M':
		return pdf.Dict(nil)
	case 'A':
		a := make(pdf.Array, len(o.It))
		for p, it := range o.It {
			a[p] = s.itemObj(it, directJ, p)
		}
		return a
	case 'D':
		d := pdf.Dict{}
		for p, it := range o.It {
			d[dictKeys[p]] = s.itemObj(it, directJ, p)
		}
		return d
	}
	return nil // 'n'
}

// describeSource fixes the object numbers of a source without writing it:
// object j of the graph is indirect object j+1, the free object follows. (The
// oracle and the reference copier only need this much.)
func describeSource(g Graph, cfg string) *source {
	s := &source{g: g, cfg: cfg, dangling: pdf.NewReference(70, 0)}
	for j := range g {
		s.refs = append(s.refs, pdf.NewReference(uint32(j+1), 0))
	}
	s.free = pdf.NewReference(uint32(len(g)+1), 0)
	return s
}

// buildSource writes the graph with pdf.Writer into memory.
func buildSource(g Graph, cfg string) (*source, error) {
	if cfg == srcByHand {
		return buildSourceByHand(g)
	}
	v, opt, err := writerFor(cfg)
	if err != nil {
		return nil, err
	}
	mf := memfile.New()
	w, err := pdf.NewWriter(mf, v, opt)
	if err != nil {
		return nil, err
	}
	s := describeSource(g, cfg)
	for j := range g {
		if ref := w.Alloc(); ref != s.refs[j] {
			return nil, fmt.Errorf("Writer.Alloc hands out %v for the object %d of a new file, the harness assumes %v", ref, j, s.refs[j])
		}
	}
	if ref := w.Alloc(); ref != s.free { // never written: a free entry of the xref
		return nil, fmt.Errorf("Writer.Alloc hands out %v, the harness assumes %v", ref, s.free)
	}
	for j, o := range g {
		ref := s.refs[j]
		switch o.K {
		case 'i':
			err = w.Put(ref, objInt(j))
		case 's':
			err = w.Put(ref, objStr(j))
		case 'A':
			a := make(pdf.Array, len(o.It))
			for p, it := range o.It {
				a[p] = s.itemObj(it, j, p)
			}
			err = w.Put(ref, a)
		case 'D':
			d := pdf.Dict{}
			for p, it := range o.It {
				d[entryKey(dictKeys[p], it)] = s.itemObj(it, j, p)
			}
			err = w.Put(ref, d)
		case 'r', 'q':
			err = w.Put(ref, s.itemObj(o.It[0], j, 0))
		case 'S':
			d := pdf.Dict{}
			pIt, kIt, kPos := o.stmParts()
			if len(kIt) > 0 {
				d[entryKey(stmKey, kIt[0])] = s.itemObj(kIt[0], j, kPos)
			}
			plain := plainData(j, o.V)
			raw := plain
			var lengthRef pdf.Reference
			if ps, ok := parmOf(o.V); ok {
				// parm-reference family: the parameter dictionary holds the
				// reference; the shape decides which parts are indirect objects
				pd := parmDict(ps.filter, s.itemObj(pIt[0], j, 0))
				raw = parmRaw(ps, plain)
				aux := func(obj pdf.Object) (pdf.Reference, error) {
					ref := w.Alloc()
					s.numAux++
					return ref, w.Put(ref, obj)
				}
				f, p := parmInlined(ps, pd)
				switch ps.shape {
				case 'D':
					p, err = aux(pd)
				case 'A':
					var r pdf.Reference
					r, err = aux(pd)
					p = pdf.Array{r}
				case 'I':
					p, err = aux(pdf.Array{pd})
				case 'B':
					var r pdf.Reference
					r, err = aux(pd)
					if err == nil {
						p, err = aux(pdf.Array{r})
					}
				}
				if err != nil {
					return nil, err
				}
				d["Filter"], d["DecodeParms"] = f, p
			}
			if cs, ok := chainOf(o.V); ok {
				// filter-chain family: names direct, the parameter entries direct
				// or references to auxiliary objects, as the variant says
				p, err := chainParms(cs, func(obj pdf.Object) (pdf.Object, error) {
					ref := w.Alloc()
					s.numAux++
					return ref, w.Put(ref, obj)
				})
				if err != nil {
					return nil, err
				}
				d["Filter"] = chainNames(cs)
				if p != nil {
					d["DecodeParms"] = p
				}
				raw = chainRaw(cs, plain)
			}
			switch o.V {
			case stmFlate:
				d["Filter"] = pdf.Name("FlateDecode")
				raw = deflate(plain)
			case stmIndLength:
				lengthRef = w.Alloc()
				s.numAux++
			case stmIndFilter, stmIndFilterAr:
				fRef, pRef := w.Alloc(), w.Alloc()
				s.numAux += 2
				if err = w.Put(fRef, pdf.Name("FlateDecode")); err != nil {
					return nil, err
				}
				if err = w.Put(pRef, pdf.Dict{"Predictor": pdf.Integer(12), "Columns": pdf.Integer(4)}); err != nil {
					return nil, err
				}
				if o.V == stmIndFilter {
					d["Filter"], d["DecodeParms"] = fRef, pRef
				} else {
					d["Filter"], d["DecodeParms"] = pdf.Array{fRef}, pdf.Array{pRef}
				}
				raw = deflate(pngUp(plain, 4))
			default:
				if _, ok := spellingOf(o.V); ok {
					// a spelling variant: everything direct
					var f, p pdf.Object
					f, p, raw = stmEncoding(o.V, plain)
					d["Filter"] = f
					if p != nil {
						d["DecodeParms"] = p
					}
				}
			}
			if stmCryptFirst(o.V) {
				// /Crypt (Identity) first: the bytes are stored as they are,
				// also in an encrypted file
				err = pdf.VerifPutRawStreamPlain(w, ref, d, raw)
			} else {
				err = pdf.VerifPutRawStream(w, ref, d, raw, lengthRef)
			}
		}
		if err != nil {
			return nil, fmt.Errorf("writing object %d (%s): %w", j, o, err)
		}
	}
	if err := memfile.AddBlankPage(w); err != nil {
		return nil, err
	}
	if err := w.Close(); err != nil {
		return nil, err
	}
	s.data = mf.Data
	return s, nil
}

// toSyn translates a value built from the library's value types into the value
// type of the reference printer.
func toSyn(obj pdf.Object) (pdfsyn.Value, error) {
	switch x := obj.(type) {
	case nil:
		return pdfsyn.NullV(), nil
	case pdf.Integer:
		return pdfsyn.IntV(int64(x)), nil
	case pdf.String:
		return pdfsyn.StrV(string(x)), nil
	case pdf.Name:
		return pdfsyn.NameV(string(x)), nil
	case pdf.Reference:
		return pdfsyn.RefV(int64(x.Number()), int64(x.Generation())), nil
	case pdf.Array:
		v := pdfsyn.Value{K: pdfsyn.Array}
		for _, e := range x {
			ev, err := toSyn(e)
			if err != nil {
				return v, err
			}
			v.A = append(v.A, ev)
		}
		return v, nil
	case pdf.Dict:
		v := pdfsyn.Value{K: pdfsyn.Dict}
		for _, key := range x.SortedKeys() {
			ev, err := toSyn(x[key])
			if err != nil {
				return v, err
			}
			v.D = append(v.D, pdfsyn.Entry{Key: []byte(key), Val: ev})
		}
		return v, nil
	}
	return pdfsyn.Value{}, fmt.Errorf("toSyn: %T cannot be written by hand", obj)
}

// buildSourceByHand writes the graph without the library under test: the
// objects are printed by ref/pdfsyn and laid out by ref/pdffile (one revision,
// classic cross-reference table). Object j of the graph is indirect object j+1,
// the free object follows, then the document catalogue and an empty page tree,
// then auxiliary objects. Streams: the variants plain, /FlateDecode and
// indirect /Length.
func buildSourceByHand(g Graph) (*source, error) {
	s := describeSource(g, srcByHand)
	n := len(g)
	catalog, pages := int64(n+2), int64(n+3)
	nextAux := n + 4
	objs := []pdffile.ObjDef{{Num: n + 1, Free: true}}
	objs = append(objs,
		pdffile.ObjDef{Num: int(catalog), Val: pdfsyn.DictV("Type", pdfsyn.NameV("Catalog"), "Pages", pdfsyn.RefV(pages, 0))},
		pdffile.ObjDef{Num: int(pages), Val: pdfsyn.DictV("Type", pdfsyn.NameV("Pages"), "Kids", pdfsyn.ArrV(), "Count", pdfsyn.IntV(0))})
	for j, o := range g {
		def := pdffile.ObjDef{Num: j + 1}
		var val pdf.Object
		switch o.K {
		case 'i':
			val = objInt(j)
		case 's':
			val = objStr(j)
		case 'A':
			a := make(pdf.Array, len(o.It))
			for p, it := range o.It {
				a[p] = s.itemObj(it, j, p)
			}
			val = a
		case 'D':
			d := pdf.Dict{}
			for p, it := range o.It {
				d[entryKey(dictKeys[p], it)] = s.itemObj(it, j, p)
			}
			val = d
		case 'r', 'q':
			val = s.itemObj(o.It[0], j, 0)
		case 'S':
			d := pdf.Dict{}
			if len(o.It) > 0 {
				d[entryKey(stmKey, o.It[0])] = s.itemObj(o.It[0], j, 0)
			}
			def.Stream = plainData(j, o.V)
			switch o.V {
			case stmPlain:
			case stmFlate:
				d["Filter"] = pdf.Name("FlateDecode")
				def.Stream = deflate(def.Stream)
			case stmIndLength:
				lv := pdfsyn.RefV(int64(nextAux), 0)
				def.LengthOverride = &lv
				objs = append(objs, pdffile.ObjDef{Num: nextAux, Val: pdfsyn.IntV(int64(len(def.Stream)))})
				nextAux++
				s.numAux++
			default:
				return nil, fmt.Errorf("object %d (%s): this stream variant is not written by hand", j, o)
			}
			val = d
		default:
			return nil, fmt.Errorf("object %d (%s) cannot be written by hand", j, o)
		}
		v, err := toSyn(val)
		if err != nil {
			return nil, fmt.Errorf("object %d (%s): %w", j, o, err)
		}
		def.Val = v
		objs = append(objs, def)
	}
	rev := pdffile.Revision{Kind: "table", Objs: objs, Trailer: []pdfsyn.Entry{{Key: []byte("Root"), Val: pdfsyn.RefV(catalog, 0)}}}
	s.data = pdffile.Write([]pdffile.Revision{rev}, pdffile.Knobs{Version: "1.7"})
	return s, nil
}

func (s *source) open() (*pdf.Reader, error) {
	return pdf.NewReader(bytes.NewReader(s.data), int64(len(s.data)), &pdf.ReaderOptions{ErrorHandling: pdf.ErrorHandlingReport})
}

// verify checks that the library reads the fixture back as it was meant: a
// failure here is not a C11 matter.
func (s *source) verify() error {
	r, err := s.open()
	if err != nil {
		return err
	}
	for j, o := range s.g {
		got, err := r.Get(s.refs[j], true)
		if err != nil {
			return fmt.Errorf("object %d: %w", j, err)
		}
		if o.K == 'S' {
			stm, ok := got.(*pdf.Stream)
			if !ok {
				return fmt.Errorf("object %d reads as %T", j, got)
			}
			if !stmDecodable(o.V) {
				continue // /Filter and /DecodeParms do not fit together: nothing to decode
			}
			if ps, ok := parmOf(o.V); ok {
				// the reference inside the parameter dictionary is there literally
				pIt, _, _ := o.stmParts()
				pd, hasFilter, ok := locateParms(func(x pdf.Object) (pdf.Object, bool) {
					v, err := pdf.Resolve(r, x)
					return v, err == nil
				}, stm.Dict, parmFilterNames[ps.filter])
				if !ok || !hasFilter || pd == nil || pd[parmKeys[ps.filter]] != s.itemObj(pIt[0], j, 0) {
					return fmt.Errorf("object %d (%s): the parameter dictionary reads back as %v, want /%s %v inside", j, o, pd, parmKeys[ps.filter], s.itemObj(pIt[0], j, 0))
				}
			}
			if cs, ok := chainOf(o.V); ok {
				// the /DecodeParms array is there literally: nulls, direct
				// dictionaries and references at the positions the variant names
				if err := cs.verifyLiteral(stm.Dict); err != nil {
					return fmt.Errorf("object %d (%s): %w", j, o, err)
				}
			}
			var data []byte
			want := plainData(j, o.V)
			if stmRawOnly(o.V) {
				ps, _ := parmOf(o.V)
				want = parmRaw(ps, want)
				data, err = fileTarget{r}.streamRaw(stm)
			} else {
				data, err = pdf.ReadAll(r, nil, stm, 1<<20)
			}
			if err != nil {
				return fmt.Errorf("object %d: %w", j, err)
			}
			if !bytes.Equal(data, want) {
				return fmt.Errorf("object %d: stream data reads back differently", j)
			}
			if s.cfg == srcByHand {
				// the entries of the stream dictionary read back as described
				var f fails
				ck := newChecker(s, "", nil, &f)
				ck.plainValue(o, j, got, "source")
				if len(f.list) > 0 {
					return fmt.Errorf("object %d (%s) reads back wrong: %s", j, o, f.list[0].what)
				}
			}
			continue
		}
		var f fails
		ck := newChecker(s, "", nil, &f)
		ck.plainValue(o, j, got, "source")
		if len(f.list) > 0 {
			return fmt.Errorf("object %d (%s) reads back wrong: %s", j, o, f.list[0].what)
		}
	}
	dead := []pdf.Reference{s.free, s.dangling}
	for j := range s.g {
		dead = append(dead, s.stale(j))
	}
	for _, ref := range dead {
		got, err := r.Get(ref, true)
		if err != nil || got != nil {
			return fmt.Errorf("reference %v reads as %v, %v; want null", ref, got, err)
		}
	}
	return nil
}

// verifyLiteral checks the stream dictionary of a fixture of the filter-chain
// family as the Reader returns it.
func (cs chainSpec) verifyLiteral(d pdf.Dict) error {
	f, ok := d["Filter"].(pdf.Array)
	if !ok || len(f) != len(cs.chain) {
		return fmt.Errorf("/Filter reads back as %v", d["Filter"])
	}
	for i := range f {
		if f[i] != pdf.Object(pdf.Name(chainLongNames[cs.chain[i]])) {
			return fmt.Errorf("/Filter reads back as %v", d["Filter"])
		}
	}
	if cs.parms == "-" {
		if _, present := d["DecodeParms"]; present {
			return fmt.Errorf("/DecodeParms reads back as %v, want none", d["DecodeParms"])
		}
		return nil
	}
	p, ok := d["DecodeParms"].(pdf.Array)
	if !ok || len(p) != len(cs.parms) {
		return fmt.Errorf("/DecodeParms reads back as %v", d["DecodeParms"])
	}
	for i := range p {
		good := false
		switch cs.parms[i] {
		case 'n':
			good = p[i] == nil
		case 'p':
			pd, isDict := p[i].(pdf.Dict)
			good = isDict && len(pd) == 2 && pd["Predictor"] == pdf.Object(pdf.Integer(12)) && pd["Columns"] == pdf.Object(pdf.Integer(1))
		case 'e':
			pd, isDict := p[i].(pdf.Dict)
			good = isDict && pd != nil && len(pd) == 0
		default:
			_, good = p[i].(pdf.Reference)
		}
		if !good {
			return fmt.Errorf("/DecodeParms reads back as %v, position %d should be a %s", d["DecodeParms"], i, chainEntryNames[cs.parms[i]])
		}
	}
	return nil
}

// programs ----------------------------------------------------------------------

// Op is one call: 'C' Copy(value of object J), 'R' CopyReference(ref of object
// J), 'D' Redirect(ref of object J, fresh target object), 'G'
// CopyReference(stale reference to object J: same number, wrong generation).
// J = -1 stands for the dangling reference (only with 'R').
// 'V' Copy(hand-made direct value D): a value built by the caller, not read
// from the source (see directValues); D is the value in the object syntax
// ("V:<n0>" = Copy(pdf.Dict{"A": nil, "B": reference to object 0})).
type Op struct {
	K byte
	J int
	D string
}

// directJ is the "object number" of a hand-made direct value (it decides the
// integers inside, which differ from those of every object of the graph).
const directJ = 8

func (o Op) String() string {
	if o.K == 'V' {
		return "V:" + o.D
	}
	if o.J < 0 {
		return string(rune(o.K)) + "x"
	}
	return fmt.Sprintf("%c%d", o.K, o.J)
}

func progString(p []Op) string {
	parts := make([]string, len(p))
	for i, o := range p {
		parts[i] = o.String()
	}
	return strings.Join(parts, " ")
}

func parseProg(s string, n int) ([]Op, error) {
	var out []Op
	for _, f := range strings.Fields(s) {
		if strings.HasPrefix(f, "V:") {
			o, err := parseObj(f[2:])
			if err != nil || strings.IndexByte("ADnNM", o.K) < 0 || o.String() != f[2:] {
				return nil, fmt.Errorf("bad direct value in %q: %v", f, err)
			}
			for _, it := range o.It {
				if j, ok := it.mention(); ok && j >= n {
					return nil, fmt.Errorf("bad direct value in %q: no object %d", f, j)
				}
			}
			out = append(out, Op{K: 'V', D: f[2:]})
			continue
		}
		if len(f) != 2 || strings.IndexByte("CRDG", f[0]) < 0 {
			return nil, fmt.Errorf("bad op %q", f)
		}
		o := Op{K: f[0]}
		if f[1] == 'x' && f[0] == 'R' {
			o.J = -1
		} else if f[1] >= '0' && int(f[1]-'0') < n {
			o.J = int(f[1] - '0')
		} else {
			return nil, fmt.Errorf("bad op %q", f)
		}
		out = append(out, o)
	}
	return out, nil
}

// budgetGetter turns unbounded recursion through the source into a panic the
// harness can recover (a stack overflow cannot be recovered).
type budgetGetter struct {
	*pdf.Reader
	left int
}

type getBudgetExceeded struct{}

func (b *budgetGetter) Get(ref pdf.Reference, canObjStm bool) (pdf.Native, error) {
	b.left--
	if b.left < 0 {
		panic(getBudgetExceeded{})
	}
	return b.Reader.Get(ref, canObjStm)
}

const getBudget = 500 // the largest number a correct run needs is recorded in the evidence file (< 100)

// step is what one call returned.
type step struct {
	op     Op
	ref    pdf.Reference // 'R': returned reference; 'C': object holding the returned value; 'D': fresh object
	direct pdf.Object    // 'C': the returned value (translated, still in memory)
	err    error
	trans  [][2]pdf.Reference // the copier's translation table after the call (fingerprints only)
}

type execution struct {
	steps    []step
	tgt      []byte
	mem      *memTarget // self-test: the target described as data instead of a file
	trans    [][2]pdf.Reference
	fatal    string // panic text / non-termination
	fatalFP  string
	closeErr error
	reads    int // reads from the source by the copier
}

func redirectMarker(k int) pdf.Name { return pdf.Name(fmt.Sprintf("Redirected-%d", k)) }

// execute runs the program with the real Copier on a fresh target.
func execute(s *source, prog []Op, tgtCfg string) (ex *execution) {
	ex = &execution{}
	var direct *Obj // the hand-made value being copied by a 'V' call
	defer func() {
		if p := recover(); p != nil {
			if _, ok := p.(getBudgetExceeded); ok {
				ex.fatalFP = "non-termination"
				ex.fatal = fmt.Sprintf("the copy read the source more than %d times (a correct copy of %d objects needs fewer than 100): unbounded recursion", getBudget, len(s.g))
			} else {
				msg := fmt.Sprint(p)
				fn := panicSite(debug.Stack())
				ex.fatalFP = "panic:" + normaliseMsg(msg)
				if fn != "" {
					ex.fatalFP = "panic:" + fn + ":" + normaliseMsg(msg)
				}
				if direct != nil && direct.hasNilDictEntry() && strings.Contains(msg, "nil pointer dereference") && fn != "" {
					// the class: a dictionary entry whose Go value is nil
					ex.fatalFP = "panic:" + fn + ":nil-entry"
				}
				ex.fatal = "panic in " + fn + ": " + msg
			}
		}
	}()
	r, err := s.open()
	if err != nil {
		ex.fatalFP, ex.fatal = "infra:source", "source does not open: "+err.Error()
		return ex
	}
	v, opt, err := writerFor(tgtCfg)
	if err != nil {
		ex.fatalFP, ex.fatal = "infra:config", err.Error()
		return ex
	}
	mf := memfile.New()
	wo := &writeOnly{}
	var sink io.Writer = mf
	if tgtCfg == tgtNoSeek {
		sink = wo
	}
	w, err := pdf.NewWriter(sink, v, opt)
	if err != nil {
		ex.fatalFP, ex.fatal = "infra:target", err.Error()
		return ex
	}
	getter := &budgetGetter{Reader: r, left: getBudget}
	c := pdf.NewCopier(w, getter)
	nRedirect := 0
	for _, op := range prog {
		st := step{op: op}
		switch op.K {
		case 'R':
			ref := s.dangling
			if op.J >= 0 {
				ref = s.refs[op.J]
			}
			st.ref, st.err = c.CopyReference(ref)
		case 'G':
			st.ref, st.err = c.CopyReference(s.stale(op.J))
		case 'C':
			val, err := r.Get(s.refs[op.J], true)
			if err != nil {
				ex.fatalFP, ex.fatal = "infra:source", "source object does not read: "+err.Error()
				return ex
			}
			var res pdf.Native
			res, st.err = c.Copy(val)
			if st.err == nil {
				st.direct = res
				st.ref = w.Alloc()
				if err := w.Put(st.ref, res); err != nil {
					st.err = fmt.Errorf("Put of the copied value: %w", err)
				}
			}
		case 'V':
			o, err := parseObj(op.D)
			if err != nil {
				ex.fatalFP, ex.fatal = "infra:case", "bad direct value: "+err.Error()
				return ex
			}
			direct = &o
			var res pdf.Native
			res, st.err = c.Copy(s.directValue(o))
			if st.err == nil {
				st.direct = res
				st.ref = w.Alloc()
				if err := w.Put(st.ref, res); err != nil {
					st.err = fmt.Errorf("Put of the copied value: %w", err)
				}
			}
			direct = nil
		case 'D':
			st.ref = w.Alloc()
			if err := w.Put(st.ref, redirectMarker(nRedirect)); err != nil {
				ex.fatalFP, ex.fatal = "infra:target", err.Error()
				return ex
			}
			nRedirect++
			c.Redirect(s.refs[op.J], st.ref)
		}
		st.trans = pdf.VerifCopierTrans(c)
		ex.steps = append(ex.steps, st)
	}
	ex.trans = pdf.VerifCopierTrans(c)
	ex.reads = getBudget - getter.left
	if err := memfile.AddBlankPage(w); err != nil {
		ex.closeErr = err
		return ex
	}
	if err := w.Close(); err != nil {
		ex.closeErr = err
		return ex
	}
	ex.tgt = mf.Data
	if tgtCfg == tgtNoSeek {
		ex.tgt = wo.buf.Bytes()
	}
	return ex
}

// stateKey abstracts the copier's translation table: which source references
// are translated, and whether to a copy or to a redirect target. The copier
// has no other state of its own (its writer only supplies fresh numbers), so
// two histories with the same key have the same futures up to the numbering of
// target objects. The set of redirects the program asked for is part of the
// key as well: it is the state of the specification.
func (ex *execution) stateKey() string {
	fresh := map[pdf.Reference]bool{}
	for _, st := range ex.steps {
		if st.op.K == 'D' {
			fresh[st.ref] = true
		}
	}
	var b strings.Builder
	for _, kv := range ex.trans {
		c := 'c'
		if fresh[kv[1]] {
			c = 'f'
		}
		fmt.Fprintf(&b, "%d.%d%c,", kv[0].Number(), kv[0].Generation(), c)
	}
	// what the oracle expects of the future also depends on which
	// redirects the program has asked for (whether or not the copier took
	// them in)
	asked := 0
	for _, st := range ex.steps {
		if st.op.K == 'D' {
			asked |= 1 << st.op.J
		}
	}
	fmt.Fprintf(&b, "|D%d", asked)
	return b.String()
}

// panicSite names the innermost function of package pdf on the stack of a
// panic ("CopyDict" for seehuhn.de/go/pdf.(*Copier).CopyDict).
func panicSite(stack []byte) string {
	lines := strings.Split(string(stack), "\n")
	past := false
	for _, l := range lines {
		if strings.HasPrefix(l, "panic(") {
			past = true
			continue
		}
		if !past || strings.HasPrefix(l, "\t") {
			continue
		}
		const pkg = "seehuhn.de/go/pdf."
		if strings.HasPrefix(l, pkg) {
			fn := l[len(pkg):]
			if i := strings.IndexByte(fn, '('); i > 0 && fn[0] != '(' {
				fn = fn[:i]
			} else if fn[0] == '(' {
				// method: (*Copier).CopyDict(...)
				if j := strings.Index(fn, ")."); j > 0 {
					fn = fn[j+2:]
					if i := strings.IndexByte(fn, '('); i > 0 {
						fn = fn[:i]
					}
				}
			}
			return fn
		}
	}
	return ""
}

func normaliseMsg(s string) string {
	// drop numbers so that one message is one class
	var b strings.Builder
	lastDigit := false
	for _, c := range s {
		if c >= '0' && c <= '9' {
			if !lastDigit {
				b.WriteByte('N')
			}
			lastDigit = true
			continue
		}
		lastDigit = false
		b.WriteRune(c)
	}
	out := b.String()
	if len(out) > 80 {
		out = out[:80]
	}
	return out
}
