//go:build verif

package c11

import (
	"bytes"
	"fmt"
	"io"
	"sort"
	"strings"

	"seehuhn.de/go/pdf"
	"seehuhn.de/go/pdf/zzverif/checks/hx"
)

type fail struct{ fp, what string }

type fails struct{ list []fail }

func (f *fails) add(fp, format string, args ...any) {
	for _, x := range f.list {
		if x.fp == fp {
			return
		}
	}
	f.list = append(f.list, fail{fp, fmt.Sprintf(format, args...)})
}

type pair struct {
	src int
	tgt pdf.Reference
}

// target is what the oracle needs of a target file: objects by reference and
// the decoded bytes of a stream.
type target interface {
	Get(ref pdf.Reference, canObjStm bool) (pdf.Native, error)
	streamData(stm *pdf.Stream) ([]byte, error)
	// streamRaw: the stored bytes after decryption, before any filter
	streamRaw(stm *pdf.Stream) ([]byte, error)
}

// fileTarget is a target file reopened with the library's Reader.
type fileTarget struct{ *pdf.Reader }

func (t fileTarget) streamData(stm *pdf.Stream) ([]byte, error) {
	return pdf.ReadAll(t.Reader, nil, stm, 1<<20)
}

func (t fileTarget) streamRaw(stm *pdf.Stream) ([]byte, error) {
	rc, err := pdf.RawStreamReader(t.Reader, stm)
	if err != nil {
		return nil, err
	}
	data, err := io.ReadAll(io.LimitReader(rc, 1<<20))
	if cerr := rc.Close(); err == nil {
		err = cerr
	}
	return data, err
}

// memTarget is a target described directly as data: a table of objects and,
// for every stream, its decoded bytes. No code of the library is involved in
// building or reading it, so the oracle can be tested against it whatever
// state the library is in.
type memTarget struct {
	objs map[pdf.Reference]pdf.Native
	data map[*pdf.Stream][]byte
	next uint32
}

func newMemTarget() *memTarget {
	return &memTarget{objs: map[pdf.Reference]pdf.Native{}, data: map[*pdf.Stream][]byte{}, next: 1}
}

func (m *memTarget) Alloc() pdf.Reference {
	ref := pdf.NewReference(m.next, 0)
	m.next++
	return ref
}

func (m *memTarget) Put(ref pdf.Reference, obj pdf.Object) error {
	if obj == nil {
		m.objs[ref] = nil
		return nil
	}
	nat, ok := obj.(pdf.Native)
	if !ok {
		return fmt.Errorf("memTarget.Put: %T is not a native object", obj)
	}
	m.objs[ref] = nat
	return nil
}

func (m *memTarget) Get(ref pdf.Reference, canObjStm bool) (pdf.Native, error) {
	return m.objs[ref], nil
}

func (m *memTarget) streamData(stm *pdf.Stream) ([]byte, error) {
	d, ok := m.data[stm]
	if !ok {
		return nil, fmt.Errorf("memTarget: unknown stream")
	}
	return d, nil
}

// streamRaw: for a stream whose data is opaque the description holds the
// stored bytes.
func (m *memTarget) streamRaw(stm *pdf.Stream) ([]byte, error) { return m.streamData(stm) }

// checker is the oracle: it walks the source graph (known from the case, not
// read through the library) and the reopened target in lockstep, learning
// the relation "source object -> target object" as it goes.
//
// Identity of a source object is the object a reference finally leads to
// (chains of bare references are followed); a reference that leads nowhere
// (dangling, free) is a null value, a reference loop is outside the statement.
type checker struct {
	src    *source
	g      Graph
	tgtCfg string
	tr     target // nil: compare against the source file itself (fixture self check)
	f      *fails

	m        map[int]pdf.Reference // terminal source object -> target object
	mChain   map[int]bool          // ... learned through a chain of references
	img      map[pdf.Reference]int
	redirect map[int]pdf.Reference // source object -> redirect target, while in force
	fresh    map[pdf.Reference]int // redirect targets created by the program
	seen     map[pair]bool
	work     []pair

	// trans is the copier's own translation table right after the step that
	// is being judged (read through the test hook; an entry, once made, only
	// changes by a Redirect, which is a step of its own). It takes no part in
	// any judgement; it only narrows the fingerprint of a failure found at a
	// reference inside /DecodeParms (see parmEntry).
	trans map[pdf.Reference]pdf.Reference
	// parmLit: target objects first reached through a reference inside
	// /DecodeParms that still is, literally, the source reference although the
	// copier's table translates that reference to something else
	parmLit  map[pair]string
	misWired bool // a failure of the class fpParmNotTranslated has been recorded

	unspecified int // positions where the statement is silent
}

const fpParmNotTranslated = "decodeparms-reference-not-translated"

func newChecker(s *source, tgtCfg string, tr target, f *fails) *checker {
	return &checker{src: s, g: s.g, tgtCfg: tgtCfg, tr: tr, f: f,
		m: map[int]pdf.Reference{}, mChain: map[int]bool{}, img: map[pdf.Reference]int{},
		redirect: map[int]pdf.Reference{}, fresh: map[pdf.Reference]int{}, seen: map[pair]bool{}, parmLit: map[pair]string{}}
}

func (ck *checker) cfgTag() string { return "src=" + ck.src.cfg + ";tgt=" + ck.tgtCfg }

// kindTag names the kind of source object j (part of fingerprints: where a
// wrong value sits is part of the class of a defect).
func (ck *checker) kindTag(j int) string {
	if j >= len(ck.g) {
		return "direct-value"
	}
	switch ck.g[j].K {
	case 'i':
		return "integer-object"
	case 's':
		return "string-object"
	case 'A':
		return "array"
	case 'D':
		return "dict"
	case 'S':
		return "stream-dict"
	case 'q':
		return "name-object"
	}
	return "reference-object"
}

// resolveTgt follows references in the target.
func (ck *checker) resolveTgt(ref pdf.Reference, kind, where string) (pdf.Reference, pdf.Object, bool) {
	for i := 0; i < 8; i++ {
		v, err := ck.tr.Get(ref, true)
		if err != nil {
			ck.f.add("target-object-unreadable:"+kind+";"+ck.cfgTag(), "%s: target object %v does not read: %v", where, ref, err)
			return ref, nil, false
		}
		next, isRef := v.(pdf.Reference)
		if !isRef {
			return ref, v, true
		}
		ref = next
	}
	ck.f.add("target-reference-loop", "%s: references in the target do not end at an object", where)
	return ref, nil, false
}

func (ck *checker) isNullInTarget(tv pdf.Object, where string) bool {
	if tv == nil {
		return true
	}
	if a, ok := tv.(pdf.Array); ok && a == nil {
		return true
	}
	if d, ok := tv.(pdf.Dict); ok && d == nil {
		return true
	}
	if ref, ok := tv.(pdf.Reference); ok && ck.tr != nil {
		_, v, ok := ck.resolveTgt(ref, "null", where)
		return ok && v == nil
	}
	return false
}

// item compares one array element / dictionary value / chain link.
func (ck *checker) item(it Item, j, p int, tv pdf.Object, where string) {
	switch it.K {
	case 'i', 'y':
		// ('y': the value of an entry whose key is a name of the name family)
		if tv != pdf.Object(itemInt(j, p)) {
			ck.f.add("value-differs:integer", "%s: want %d, target has %s", where, itemInt(j, p), hx.Show(tv))
		}
	case 'k':
		want := pdf.Name(nameString(it.R))
		if tv != pdf.Object(want) {
			got := hx.Show(tv)
			if n, isName := tv.(pdf.Name); isName {
				got = fmt.Sprintf("the name %q", string(n))
			}
			ck.f.add("value-differs:name;"+nameTag(it.R), "%s: want the name %q, target has %s", where, string(want), got)
		}
	case 's':
		s, ok := tv.(pdf.String)
		if !ok || !bytes.Equal(s, itemStr(j, p)) {
			ck.f.add("value-differs:string;in="+ck.kindTag(j)+";"+ck.cfgTag(), "%s: want string %q, target has %s", where, itemStr(j, p), hx.Show(tv))
		}
	case 'n':
		if !ck.isNullInTarget(tv, where) {
			ck.f.add("null-entry-not-preserved", "%s: want null, target has %s", where, hx.Show(tv))
		}
	case 'N', 'M':
		ck.typedNil(it.K, tv, where)
	case 'a':
		a, ok := tv.(pdf.Array)
		switch {
		case tv == nil || ok && a == nil:
			ck.f.add("empty-array-becomes-null", "%s: the source has an empty array, the target has null", where)
		case !ok || len(a) != 0:
			ck.f.add("value-differs:empty-array", "%s: want [], target has %s", where, hx.Show(tv))
		}
	case 'd':
		d, ok := tv.(pdf.Dict)
		switch {
		case tv == nil || ok && d == nil:
			ck.f.add("empty-dict-becomes-null", "%s: the source has an empty dictionary, the target has null", where)
		case !ok || countNonNull(d) != 0:
			ck.f.add("value-differs:empty-dict", "%s: want <<>>, target has %s", where, hx.Show(tv))
		}
	case 'm':
		s, ok := tv.(pdf.String)
		if !ok || !bytes.Equal(s, nestedStr(j, p)) {
			ck.f.add("value-differs:string;in="+ck.kindTag(j)+";"+ck.cfgTag(), "%s: want string %q (inside a nested direct container), target has %s", where, nestedStr(j, p), hx.Show(tv))
		}
	case 'A':
		a, ok := tv.(pdf.Array)
		if !ok || a == nil {
			ck.f.add("value-differs:nested-array", "%s: want a direct array, target has %s", where, hx.Show(tv))
			return
		}
		if len(a) != 1 {
			ck.f.add("array-length", "%s: want 1 element, target has %s", where, hx.Show(tv))
			return
		}
		ck.item(it.inner(), j, p, a[0], where+" [0]")
	case 'T':
		d, ok := tv.(pdf.Dict)
		if !ok || d == nil {
			ck.f.add("value-differs:nested-dict", "%s: want a direct dictionary, target has %s", where, hx.Show(tv))
			return
		}
		ck.dictEntries([]pdf.Name{nestedKey}, []Item{it.inner()}, j, p, d, nil, where)
		// (dictEntries takes the key from the item if it is of kind 'y')
	default:
		ck.refItem(it, tv, where)
	}
}

// typedNil judges what became of a nil pdf.Array ('N') or nil pdf.Dict ('M')
// handed to Copy by the caller. Such a value is written as null; the
// statement does not say whether the copy is a null or an empty container of
// the same type, so both are accepted (and nothing else).
func (ck *checker) typedNil(k byte, tv pdf.Object, where string) {
	if ck.isNullInTarget(tv, where) {
		return
	}
	if a, ok := tv.(pdf.Array); ok && k == 'N' && len(a) == 0 {
		ck.unspecified++
		return
	}
	if d, ok := tv.(pdf.Dict); ok && k == 'M' && countNonNull(d) == 0 {
		ck.unspecified++
		return
	}
	ck.f.add("typed-nil-value-differs", "%s: the caller handed in a nil %s, the target has %s", where, map[byte]string{'N': "pdf.Array", 'M': "pdf.Dict"}[k], hx.Show(tv))
}

func countNonNull(d pdf.Dict) int {
	n := 0
	for _, v := range d {
		if v != nil {
			n++
		}
	}
	return n
}

// refItem compares the translation of a reference.
func (ck *checker) refItem(it Item, tv pdf.Object, where string) {
	if ck.tr == nil {
		// fixture self check: the reference must be there literally
		if tv != pdf.Object(ck.src.itemObj(it, 0, 0)) {
			ck.f.add("source", "%s: want %v, source has %s", where, ck.src.itemObj(it, 0, 0), hx.Show(tv))
		}
		return
	}
	if it.K == 'r' {
		if f, ok := ck.redirect[it.R]; ok {
			if tv != pdf.Object(f) {
				ck.f.add("redirect-not-honoured", "%s: object %d was redirected to %v, the target has %s", where, it.R, f, hx.Show(tv))
			}
			return
		}
	}
	t, via := ck.g.itemTerminal(it)
	if t == termUndef {
		ck.unspecified++
		return
	}
	for _, v := range via {
		if _, ok := ck.redirect[v]; ok {
			// a chain that passes a redirected object: not specified
			ck.unspecified++
			return
		}
	}
	if t == termNull {
		if !ck.isNullInTarget(tv, where) {
			ck.f.add("dead-reference-not-null", "%s: the source reference leads to no object (null), the target has %s", where, hx.Show(tv))
		}
		return
	}
	ref, ok := tv.(pdf.Reference)
	if !ok {
		if tv == nil {
			ck.f.add("reference-becomes-null", "%s: the source has a reference to object %d, the target has null", where, t)
		} else {
			ck.f.add("reference-becomes-direct", "%s: the source has a reference to object %d, the target has the direct value %s", where, t, hx.Show(tv))
		}
		return
	}
	tt, _, ok := ck.resolveTgt(ref, ck.kindTag(t), where)
	if !ok {
		return
	}
	if _, isFresh := ck.fresh[tt]; isFresh {
		ck.f.add("spurious-redirect", "%s: reference to object %d was translated to the redirect target %v of another object", where, t, tt)
		return
	}
	chain := len(via) > 1
	if old, known := ck.m[t]; known {
		if old != tt {
			if chain || ck.mChain[t] {
				ck.f.add("chain:object-copied-twice", "%s: source object %d, reached once directly and once through a chain of references, has two copies in the target (%v and %v)", where, t, old, tt)
			} else {
				ck.f.add("sharing:object-copied-twice", "%s: source object %d has two copies in the target (%v and %v)", where, t, old, tt)
			}
			ck.push(t, tt)
		}
		return
	}
	if other, used := ck.img[tt]; used && other != t {
		ck.f.add("sharing:distinct-objects-merged", "%s: source objects %d and %d are both translated to target object %v", where, other, t, tt)
		return
	}
	ck.m[t], ck.mChain[t], ck.img[tt] = tt, chain, t
	ck.push(t, tt)
}

func (ck *checker) push(t int, tt pdf.Reference) {
	p := pair{t, tt}
	if !ck.seen[p] {
		ck.seen[p] = true
		ck.work = append(ck.work, p)
	}
}

func (ck *checker) drain() {
	for len(ck.work) > 0 {
		if ck.misWired {
			// the relation source object -> target object was learned through a
			// reference that is known to be wrong: what it says about the rest
			// of the graph are consequences, not classes of their own
			ck.work = nil
			return
		}
		p := ck.work[len(ck.work)-1]
		ck.work = ck.work[:len(ck.work)-1]
		tv, err := ck.tr.Get(p.tgt, true)
		if err != nil {
			ck.f.add("target-object-unreadable:"+ck.kindTag(p.src)+";"+ck.cfgTag(), "copy of object %d: target object %v does not read: %v", p.src, p.tgt, err)
			continue
		}
		// what is wrong with an object that was reached through an untranslated
		// reference inside /DecodeParms belongs to that class
		saved := ck.f
		lit, viaParm := ck.parmLit[p]
		if viaParm {
			ck.f = &fails{}
		}
		before := len(ck.work)
		if o := ck.g[p.src]; tv == nil && !((o.K == 'A' || o.K == 'D') && len(o.It) == 0) {
			// (an empty array or dictionary that became null has its own class)
			ck.f.add("copied-object-is-null", "copy %v of object %d (%s): the target object is null", p.tgt, p.src, o)
		} else {
			ck.plainValue(ck.g[p.src], p.src, tv, fmt.Sprintf("copy %v of object %d", p.tgt, p.src))
		}
		if viaParm {
			sub := ck.f
			ck.f = saved
			for _, x := range sub.list {
				ck.f.add(fpParmNotTranslated, "%s; the object it leads to in the target is not a copy of source object %d [%s] %s", lit, p.src, x.fp, x.what)
				ck.misWired = true
			}
			// what is reached from there is reached through the same reference
			for _, pr := range ck.work[before:] {
				if _, marked := ck.parmLit[pr]; !marked {
					ck.parmLit[pr] = lit
				}
			}
		}
	}
}

// parmEntry judges the reference inside the filter parameter dictionary of a
// stream of the parm-reference family. The copier may respell /Filter and
// /DecodeParms (inline indirect parts, turn a name into an array ...): the
// parameter dictionary is looked up by the meaning of the two entries, not by
// their form. The reference inside it is a reference of the graph like every
// other: it must lead to the copy of the object it led to in the source, the
// same target object as along every other path (refItem).
func (ck *checker) parmEntry(o Obj, j int, p Item, d pdf.Dict, where string) {
	ps, _ := parmOf(o.V)
	key := parmKeys[ps.filter]
	w := fmt.Sprintf("%s /DecodeParms (of /%s) /%s", where, parmFilterNames[ps.filter], key)
	pd, hasFilter, ok := locateParms(func(x pdf.Object) (pdf.Object, bool) {
		ref, isRef := x.(pdf.Reference)
		if !isRef {
			return x, true
		}
		_, v, ok := ck.resolveTgt(ref, "stream-dict", w)
		return v, ok
	}, d, parmFilterNames[ps.filter])
	if !ok {
		return // reported by resolveTgt
	}
	if !hasFilter {
		if stmRawOnly(o.V) {
			// opaque data can only be data of the filter it was stored for
			ck.f.add("stream-filter-lost:stream="+stmNames[o.V], "%s: the source stream holds /%s data (opaque, nothing can re-encode it), the target stream does not name that filter: %s", where, parmFilterNames[ps.filter], hx.Show(d))
			return
		}
		// the target stream does not use the filter any more: the statement
		// only demands the decoded bytes
		ck.unspecified++
		return
	}
	dead, undef := ck.isDead(p)
	if undef {
		ck.unspecified++
		return
	}
	tv, present := pd[key]
	if !present || tv == nil {
		if !dead {
			ck.f.add("decodeparms-entry-lost", "%s: the source has a reference here, the target has no such entry (stream dictionary %s)", w, hx.Show(d))
		}
		return
	}
	// fingerprint only: is this, literally, the source reference, while the
	// copier's own table translates that reference differently?
	lit := ""
	if p.K == 'r' && tv == pdf.Object(ck.src.refs[p.R]) && ck.trans[ck.src.refs[p.R]] != ck.src.refs[p.R] {
		lit = fmt.Sprintf("%s: the target has %v, which is the number of the object in the SOURCE (the copier translates %v to %v elsewhere), stream %s", w, tv, tv, ck.trans[ck.src.refs[p.R]], stmNames[o.V])
	}
	saved := ck.f
	if lit != "" {
		ck.f = &fails{}
	}
	before := len(ck.work)
	ck.item(p, j, 0, tv, w)
	if lit != "" {
		sub := ck.f
		ck.f = saved
		for _, x := range sub.list {
			ck.f.add(fpParmNotTranslated, "%s [%s] %s", lit, x.fp, x.what)
			ck.misWired = true
		}
		for _, pr := range ck.work[before:] {
			ck.parmLit[pr] = lit
		}
	}
}

// isDead reports whether an item is semantically null (so that a dictionary
// entry holding it is equivalent to an absent entry).
func (ck *checker) isDead(it Item) (dead, undef bool) {
	switch it.K {
	case 'n', 'N', 'M':
		return true, false
	case 'r', 'x', 'f', 'g':
		if it.K == 'r' {
			if _, ok := ck.redirect[it.R]; ok {
				return false, false
			}
		}
		t, _ := ck.g.itemTerminal(it)
		return t == termNull, t == termUndef
	}
	return false, false
}

// dictEntries compares the entries keys[k] = its[k]; the item its[k] is the
// item at position p0+k of object j.
func (ck *checker) dictEntries(keys []pdf.Name, its []Item, j, p0 int, d pdf.Dict, ignore map[pdf.Name]bool, where string) {
	want := map[pdf.Name]bool{}
	for k, it := range its {
		p := p0 + k
		key := entryKey(keys[k], it)
		want[key] = true
		tv, present := d[key]
		w := fmt.Sprintf("%s /%s", where, key)
		dead, undef := ck.isDead(it)
		switch {
		case undef:
			ck.unspecified++
		case dead:
			if present && tv != nil {
				ck.item(it, j, p, tv, w)
			}
		case !present || tv == nil:
			if it.K == 'a' {
				ck.f.add("empty-array-becomes-null", "%s: the source entry holds an empty array, the target has no such entry (null)", w)
			} else if it.K == 'd' {
				ck.f.add("empty-dict-becomes-null", "%s: the source entry holds an empty dictionary, the target has no such entry (null)", w)
			} else if it.K == 'y' && len(extraKeys(d, keys, its, ignore)) > 0 {
				// the entry is missing and another one, which the source does not
				// have, is there: the key was changed
				ck.f.add("dict-key-differs:"+nameTag(it.R), "%s: the source entry has the key %q, the target has no such entry but the keys %q", where, string(key), extraKeys(d, keys, its, ignore))
				return
			} else {
				ck.f.add("dict-entry-lost", "%s: entry missing in the target", w)
			}
		default:
			ck.item(it, j, p, tv, w)
		}
	}
	if extra := extraKeys(d, keys, its, ignore); len(extra) > 0 {
		ck.f.add("dict-extra-key", "%s: target has extra keys %q", where, extra)
	}
}

// extraKeys lists the keys of d (with a value other than null) that the
// source dictionary does not have.
func extraKeys(d pdf.Dict, keys []pdf.Name, its []Item, ignore map[pdf.Name]bool) []string {
	want := map[pdf.Name]bool{}
	for k, it := range its {
		want[entryKey(keys[k], it)] = true
	}
	var extra []string
	for k, v := range d {
		if !want[k] && !ignore[k] && v != nil {
			extra = append(extra, string(k))
		}
	}
	sort.Strings(extra)
	return extra
}

var stmIgnore = map[pdf.Name]bool{"Length": true, "Filter": true, "DecodeParms": true}

// plainValue compares the content of source object j (as a direct value)
// with tv.
func (ck *checker) plainValue(o Obj, j int, tv pdf.Object, where string) {
	switch o.K {
	case 'n':
		if !ck.isNullInTarget(tv, where) {
			ck.f.add("null-entry-not-preserved", "%s: want null, target has %s", where, hx.Show(tv))
		}
	case 'N', 'M':
		ck.typedNil(o.K, tv, where)
	case 'i':
		if tv != pdf.Object(objInt(j)) {
			ck.f.add("value-differs:integer", "%s: want %d, target has %s", where, objInt(j), hx.Show(tv))
		}
	case 's':
		s, ok := tv.(pdf.String)
		if !ok || !bytes.Equal(s, objStr(j)) {
			ck.f.add("value-differs:string;in=string-object;"+ck.cfgTag(), "%s: want string %q, target has %s", where, objStr(j), hx.Show(tv))
		}
	case 'A':
		a, ok := tv.(pdf.Array)
		if len(o.It) == 0 && (tv == nil || ok && a == nil) {
			ck.f.add("empty-array-becomes-null", "%s: the source object is an empty array, the target has null", where)
			return
		}
		if !ok || a == nil {
			ck.f.add("value-differs:array", "%s: want an array, target has %s", where, hx.Show(tv))
			return
		}
		if len(a) != len(o.It) {
			ck.f.add("array-length", "%s: want %d elements, target has %s", where, len(o.It), hx.Show(tv))
			return
		}
		for p, it := range o.It {
			ck.item(it, j, p, a[p], fmt.Sprintf("%s [%d]", where, p))
		}
	case 'D':
		d, ok := tv.(pdf.Dict)
		if len(o.It) == 0 && (tv == nil || ok && d == nil) {
			ck.f.add("empty-dict-becomes-null", "%s: the source object is an empty dictionary, the target has null", where)
			return
		}
		if !ok || d == nil {
			ck.f.add("value-differs:dict", "%s: want a dictionary, target has %s", where, hx.Show(tv))
			return
		}
		ck.dictEntries(dictKeys, o.It, j, 0, d, nil, where)
	case 'S':
		stm, ok := tv.(*pdf.Stream)
		if !ok || stm == nil {
			ck.f.add("value-differs:stream", "%s: want a stream, target has %s", where, hx.Show(tv))
			return
		}
		pIt, kIt, kPos := o.stmParts()
		ck.dictEntries([]pdf.Name{stmKey}, kIt, j, kPos, stm.Dict, stmIgnore, where)
		if ck.tr == nil {
			return
		}
		if len(pIt) > 0 {
			// /Filter and /DecodeParms themselves may be respelled; a reference
			// inside the parameter dictionary is a reference of the graph
			ck.parmEntry(o, j, pIt[0], stm.Dict, where)
		}
		if !stmDecodable(o.V) {
			// /Filter and /DecodeParms of the source do not fit together: there
			// are no decoded bytes to compare
			ck.unspecified++
			return
		}
		tag := "stream=" + stmTag(o.V) + ";" + ck.cfgTag()
		if stmRawOnly(o.V) {
			// opaque data that nothing decodes (in the source either): as long
			// as the target declares the same filter chain, the same decoded
			// bytes means the same stored bytes
			ps, _ := parmOf(o.V)
			wantF, _ := parmInlined(ps, nil)
			if !sameFilterChain(stm.Dict["Filter"], wantF) {
				ck.unspecified++
				return
			}
			data, err := ck.tr.streamRaw(stm)
			if err != nil {
				ck.f.add("stream-unreadable:"+tag, "%s: the stored bytes of the stream do not read in the target: %v (dict %s)", where, err, hx.Show(stm.Dict))
				return
			}
			if want := parmRaw(ps, plainData(j, o.V)); !bytes.Equal(data, want) {
				ck.f.add("stream-bytes-differ:"+tag, "%s: the stream holds %d bytes %q..., want %d bytes %q... (opaque data, compared before decoding)", where, len(data), head(data), len(want), head(want))
			}
			return
		}
		data, err := ck.tr.streamData(stm)
		if err != nil {
			if fp, note := ck.chainDiagnosis(o, stm.Dict); fp != "" {
				ck.f.add(fp, "%s: stream does not decode in the target: %v; %s [stream-undecodable:%s]", where, err, note, tag)
				return
			}
			ck.f.add("stream-undecodable:"+tag, "%s: stream does not decode in the target: %v (source stream %s, target dict %s)", where, err, stmName(o.V), hx.Show(stm.Dict))
			return
		}
		if want := plainData(j, o.V); !bytes.Equal(data, want) {
			if fp, note := ck.chainDiagnosis(o, stm.Dict); fp != "" {
				ck.f.add(fp, "%s: stream decodes to %d bytes %q..., want %d bytes %q...; %s [stream-bytes-differ:%s]", where, len(data), head(data), len(want), head(want), note, tag)
				return
			}
			ck.f.add("stream-bytes-differ:"+tag, "%s: stream decodes to %d bytes %q..., want %d bytes %q... (source stream %s, target dict %s)", where, len(data), head(data), len(want), head(want), stmName(o.V), hx.Show(stm.Dict))
		}
	case 'r', 'q':
		ck.item(o.It[0], j, 0, tv, where)
	}
}

// chainDiagnosis narrows the fingerprint of a stream of the filter-chain family
// whose decoded bytes are wrong (it takes no part in the judgement: a stream
// fails by its decoded bytes only). If the target stream still names the same
// filters, the parameter entry of every position is compared with the source's
// by what it amounts to (the predictor dictionary, an empty dictionary, null;
// direct or behind a reference; an empty dictionary and null mean the same):
// the first position that differs names the class, "decodeparms-changed:
// null-became-dict". fp = "": /Filter and /DecodeParms explain nothing.
func (ck *checker) chainDiagnosis(o Obj, d pdf.Dict) (fp, note string) {
	cs, ok := chainOf(o.V)
	if !ok {
		return "", ""
	}
	names, parms, ok := filterLayout(func(x pdf.Object) (pdf.Object, bool) {
		for i := 0; i < 8; i++ {
			ref, isRef := x.(pdf.Reference)
			if !isRef {
				return x, true
			}
			v, err := ck.tr.Get(ref, true)
			if err != nil {
				return nil, false
			}
			x = v
		}
		return nil, false
	}, d)
	if !ok || len(names) != len(cs.chain) {
		return "", ""
	}
	for i, n := range names {
		if string(n) != chainLongNames[cs.chain[i]] {
			return "", ""
		}
	}
	var src, tgt []string
	for i := range names {
		src = append(src, cs.entryKind(i))
		tgt = append(tgt, parmKind(parms[i]))
	}
	for i := range names {
		if src[i] == tgt[i] || src[i] != "dict" && tgt[i] != "dict" {
			continue
		}
		return "decodeparms-changed:" + src[i] + "-became-" + tgt[i],
			fmt.Sprintf("the parameter entry of filter %d (/%s) was %s in the source and is %s in the target: source /Filter %v /DecodeParms [%s] (%s), target /DecodeParms [%s] (stream dictionary %s)",
				i, names[i], src[i], tgt[i], names, strings.Join(src, " "), stmName(o.V), strings.Join(tgt, " "), hx.Show(d))
	}
	return "", ""
}

// sameFilterChain: the direct /Filter value got names the same filters as want
// (a name and a one-element array are the same chain).
func sameFilterChain(got, want pdf.Object) bool {
	list := func(x pdf.Object) (pdf.Array, bool) {
		switch v := x.(type) {
		case pdf.Name:
			return pdf.Array{v}, true
		case pdf.Array:
			return v, true
		}
		return nil, false
	}
	g, ok1 := list(got)
	w, ok2 := list(want)
	if !ok1 || !ok2 || len(g) != len(w) {
		return false
	}
	for i := range g {
		if g[i] != w[i] {
			return false
		}
	}
	return true
}

func head(b []byte) []byte {
	if len(b) > 24 {
		return b[:24]
	}
	return b
}

// lastKey identifies the reference an 'R' or 'G' call was made with (the
// live reference to object J and the stale one are different references).
func lastKey(op Op) int {
	if op.K == 'G' {
		return 100 + op.J
	}
	return op.J
}

// judge is the oracle for one execution.
func judge(s *source, prog []Op, tgtCfg string, ex *execution) (f fails, outcome string) {
	if ex.fatal != "" {
		f.add(ex.fatalFP, "%s", ex.fatal)
		return f, "fatal"
	}
	// errors returned by the calls
	for k, st := range ex.steps {
		if st.err == nil {
			continue
		}
		var its []Item
		reach := 0
		if st.op.K == 'C' {
			its = s.g[st.op.J].It
			reach = 1 << st.op.J
		} else if st.op.K == 'R' && st.op.J >= 0 {
			its = []Item{{'r', st.op.J}}
		} else if st.op.K == 'V' {
			if o, err := parseObj(st.op.D); err == nil {
				its = o.It
			}
		}
		reach |= s.g.reachFromItems(its)
		if s.g.hasRefLoop(reach) {
			// a reference loop is a malformed source: the statement is silent
			return f, "error:reference-loop-in-source"
		}
		if s.g.hasUndecodableStream(reach) {
			// a stream whose /Filter and /DecodeParms do not fit together is a
			// malformed source as well
			return f, "error:undecodable-stream-in-source"
		}
		f.add("copy-error:"+normaliseMsg(st.err.Error()), "step %d (%s) returned an error: %v", k, st.op, st.err)
		return f, "error"
	}
	if ex.closeErr != nil {
		f.add("target-close-error:"+normaliseMsg(ex.closeErr.Error()), "closing the target: %v", ex.closeErr)
		return f, "error"
	}
	var tr target = ex.mem
	if ex.mem == nil {
		rd, err := pdf.NewReader(bytes.NewReader(ex.tgt), int64(len(ex.tgt)), &pdf.ReaderOptions{ErrorHandling: pdf.ErrorHandlingReport})
		if err != nil {
			f.add("target-unreadable", "the target does not reopen: %v", err)
			return f, "error"
		}
		tr = fileTarget{rd}
	}
	ck := newChecker(s, tgtCfg, tr, &f)
	lastR := map[int]pdf.Reference{} // by lastKey
	for k, st := range ex.steps {
		where := fmt.Sprintf("step %d (%s)", k, st.op)
		ck.trans = map[pdf.Reference]pdf.Reference{}
		for _, kv := range st.trans {
			ck.trans[kv[0]] = kv[1]
		}
		switch st.op.K {
		case 'D':
			ck.redirect[st.op.J] = st.ref
			ck.fresh[st.ref] = len(ck.fresh)
			delete(lastR, st.op.J)
		case 'R', 'G':
			it := Item{K: 'x'}
			if st.op.K == 'G' {
				it = Item{'g', st.op.J}
			} else if st.op.J >= 0 {
				it = Item{'r', st.op.J}
			}
			if prev, ok := lastR[lastKey(st.op)]; ok && prev != st.ref {
				f.add("same-reference-twice:different-target", "%s: CopyReference returned %v, the earlier call for the same reference returned %v", where, st.ref, prev)
			}
			lastR[lastKey(st.op)] = st.ref
			ck.refItem(it, st.ref, where+" result")
		case 'C':
			tv, err := tr.Get(st.ref, true)
			if err != nil {
				f.add("target-object-unreadable:"+ck.kindTag(st.op.J)+";"+ck.cfgTag(), "%s: the copied value does not read back: %v", where, err)
				break
			}
			ck.plainValue(s.g[st.op.J], st.op.J, tv, where+" result")
		case 'V':
			o, err := parseObj(st.op.D)
			if err != nil {
				f.add("infra:case", "bad direct value %q", st.op.D)
				break
			}
			tv, err := tr.Get(st.ref, true)
			if err != nil {
				f.add("target-object-unreadable:direct-value;"+ck.cfgTag(), "%s: the copied value does not read back: %v", where, err)
				break
			}
			ck.plainValue(o, directJ, tv, where+" result")
		}
		ck.drain()
		if len(f.list) > 0 {
			// The walk learns which object was copied in which step from the
			// order of discovery; after a mismatch that order is no longer
			// reliable, so later steps are not judged (no follow-up classes).
			break
		}
	}
	// the redirect targets are still what the program wrote
	for ref, k := range ck.fresh {
		v, err := tr.Get(ref, true)
		if err != nil || v != pdf.Object(redirectMarker(k)) {
			f.add("redirect-target-overwritten", "redirect target %v reads %s, %v; the program wrote /%s", ref, hx.Show(v), err, redirectMarker(k))
		}
	}
	switch {
	case len(f.list) > 0:
		return f, "violation"
	case ck.unspecified > 0:
		return f, "ok:with-unspecified-positions"
	case len(ck.m) == 0:
		return f, "ok:no-object-copied"
	default:
		return f, fmt.Sprintf("ok:%d-objects-copied", len(ck.m))
	}
}
