//go:build verif

package c11

import (
	"fmt"

	"seehuhn.de/go/pdf"
	"seehuhn.de/go/pdf/internal/debug/memfile"
)

// The reference copier works on the case description (not on the source
// file). It is used to test the oracle itself: a correct copy must be
// accepted on every case of the self-test space, and each deliberate flaw
// must be reported under the expected fingerprint. It writes either into a
// memTarget (a table of objects: no code of the library is involved, so the
// verdict on the oracle does not depend on the library under test) or, for
// the second part of the self-test, into a file through Writer.Put.

// putter is the part of pdf.Writer the reference copier uses.
type putter interface {
	Alloc() pdf.Reference
	Put(ref pdf.Reference, obj pdf.Object) error
}

type flaw int

const (
	flawNone            flaw = iota
	flawDuplicate            // a shared object is copied once per reference
	flawMerge                // two different source objects share one target object
	flawEmptyArray           // [] written as null
	flawEmptyDict            // <<>> written as null
	flawDropEntry            // last dictionary entry dropped
	flawStreamBytes          // first byte of the stream data changed
	flawNullInArray          // null array elements dropped
	flawDeadRefKept          // dangling reference copied as a reference to an integer
	flawIgnoreRedir          // Redirect ignored
	flawNewRefTwice          // CopyReference allocates a new object on every call
	flawDirectNullOK         // (not a flaw) dead references become direct nulls
	flawStaleAliased         // a stale reference (wrong generation) is translated like the live one
	flawStaleKillsLive       // a stale reference seen first takes the table entry of the live object: the live object is lost
	flawNestedString         // the string inside a nested direct container is altered
	flawNestedRef            // the reference inside a nested direct container is not translated (left dangling)
	flawParmRefKept          // the reference inside a filter parameter dictionary keeps its source number (the object is copied all the same)
	flawParmRefDup           // ... leads to a copy of its own instead of the shared one
	flawParmEntryLost        // ... is dropped from the parameter dictionary
	flawParmsStale           // a null entry of an array-valued /DecodeParms receives the value of the nearest non-null entry before it
	flawParmsShifted         // the entries of an array-valued /DecodeParms move one position to the left (the last becomes null)
	flawNameHashRaw          // a number sign in a name (value or key) is written as it is: followed by two hexadecimal digits it reads back as an escape
	flawNameCutAtDelim       // a name (value or key) ends before its first delimiter or white-space byte (written as it is, the reader ends the name there)
	flawNameHighDropped      // bytes above 0x7E are dropped from names
)

// flawedName is what a name of the name family becomes under the flaws that
// concern names (the name itself otherwise).
func (mc *modelCopier) flawedName(n pdf.Name) pdf.Name {
	isHex := func(c byte) bool { return c >= '0' && c <= '9' || c >= 'a' && c <= 'f' || c >= 'A' && c <= 'F' }
	val := func(c byte) byte {
		switch {
		case c <= '9':
			return c - '0'
		case c >= 'a':
			return c - 'a' + 10
		}
		return c - 'A' + 10
	}
	b := []byte(n)
	var out []byte
	switch mc.flaw {
	case flawNameHashRaw:
		for i := 0; i < len(b); i++ {
			if b[i] == '#' && i+2 < len(b) && isHex(b[i+1]) && isHex(b[i+2]) {
				out = append(out, val(b[i+1])<<4|val(b[i+2]))
				i += 2
				continue
			}
			out = append(out, b[i])
		}
	case flawNameCutAtDelim:
		for _, c := range b {
			if c == 0 || c == 9 || c == 10 || c == 12 || c == 13 || c == 32 || c == '(' || c == ')' || c == '<' || c == '>' ||
				c == '[' || c == ']' || c == '{' || c == '}' || c == '/' || c == '%' {
				break
			}
			out = append(out, c)
		}
	case flawNameHighDropped:
		for _, c := range b {
			if c <= 0x7e {
				out = append(out, c)
			}
		}
	default:
		return n
	}
	return pdf.Name(out)
}

// key is the key of the entry holding the item in the copy.
func (mc *modelCopier) key(base pdf.Name, it Item) pdf.Name {
	if it.K == 'y' {
		return mc.flawedName(entryKey(base, it))
	}
	return base
}

type modelCopier struct {
	s        *source
	w        putter
	mem      *memTarget // not nil: streams are described as data
	trans    map[int]pdf.Reference
	killed   map[int]pdf.Reference // flawStaleKillsLive
	redirect map[int]pdf.Reference
	flaw     flaw
	dups     int
	merged   bool
}

func (mc *modelCopier) item(it Item, j, p int) pdf.Object {
	switch it.K {
	case 'i', 'y':
		return itemInt(j, p)
	case 'k':
		return mc.flawedName(pdf.Name(nameString(it.R)))
	case 's':
		return itemStr(j, p)
	case 'n', 'N', 'M':
		return nil
	case 'a':
		if mc.flaw == flawEmptyArray {
			return nil
		}
		return pdf.Array{}
	case 'd':
		if mc.flaw == flawEmptyDict {
			return nil
		}
		return pdf.Dict{}
	case 'm':
		if mc.flaw == flawNestedString {
			return pdf.String("garbage")
		}
		return nestedStr(j, p)
	case 'A':
		return pdf.Array{mc.nestedInner(it, j, p)}
	case 'T':
		return pdf.Dict{mc.key(nestedKey, it.inner()): mc.nestedInner(it, j, p)}
	}
	return mc.ref(it)
}

func (mc *modelCopier) nestedInner(it Item, j, p int) pdf.Object {
	if it.R >= 0 && mc.flaw == flawNestedRef {
		return pdf.NewReference(90, 0)
	}
	return mc.item(it.inner(), j, p)
}

func (mc *modelCopier) ref(it Item) pdf.Object {
	if it.K == 'r' && mc.flaw != flawIgnoreRedir {
		if f, ok := mc.redirect[it.R]; ok {
			return f
		}
	}
	if it.K == 'g' && mc.flaw == flawStaleAliased {
		it = Item{'r', it.R}
	}
	if it.K == 'g' && mc.flaw == flawStaleKillsLive {
		if _, copied := mc.trans[it.R]; !copied {
			tt := mc.w.Alloc()
			mc.w.Put(tt, nil)
			mc.killed[it.R] = tt
			return tt
		}
	}
	if it.K == 'r' {
		if tt, dead := mc.killed[it.R]; dead {
			return tt
		}
	}
	t, _ := mc.s.g.itemTerminal(it)
	if t < 0 {
		if mc.flaw == flawDirectNullOK {
			return nil
		}
		tt := mc.w.Alloc()
		if mc.flaw == flawDeadRefKept && t == termNull {
			mc.w.Put(tt, pdf.Integer(5))
		} else {
			mc.w.Put(tt, nil)
		}
		return tt
	}
	if tt, ok := mc.trans[t]; ok {
		if mc.flaw != flawDuplicate || mc.dups >= 2 {
			return tt
		}
		mc.dups++
	} else if mc.flaw == flawMerge && !mc.merged {
		for _, tt := range mc.trans {
			mc.merged = true
			mc.trans[t] = tt
			return tt
		}
	}
	tt := mc.w.Alloc()
	mc.trans[t] = tt
	mc.w.Put(tt, mc.content(t))
	return tt
}

func (mc *modelCopier) content(j int) pdf.Object {
	return mc.contentOf(mc.s.g[j], j)
}

// contentOf is the copy of a value described by o (object j of the graph, or
// a hand-made direct value with j = directJ).
func (mc *modelCopier) contentOf(o Obj, j int) pdf.Object {
	switch o.K {
	case 'n', 'N', 'M':
		return nil
	case 'i':
		return objInt(j)
	case 's':
		return objStr(j)
	case 'A':
		if len(o.It) == 0 && mc.flaw == flawEmptyArray {
			return nil
		}
		a := pdf.Array{}
		for p, it := range o.It {
			if it.K == 'n' && mc.flaw == flawNullInArray {
				continue
			}
			a = append(a, mc.item(it, j, p))
		}
		return a
	case 'D':
		if len(o.It) == 0 && mc.flaw == flawEmptyDict {
			return nil
		}
		d := pdf.Dict{}
		for p, it := range o.It {
			if mc.flaw == flawDropEntry && p == len(o.It)-1 {
				continue
			}
			d[mc.key(dictKeys[p], it)] = mc.item(it, j, p)
		}
		return d
	case 'S':
		d := pdf.Dict{}
		pIt, kIt, kPos := o.stmParts()
		if len(kIt) > 0 {
			d[mc.key(stmKey, kIt[0])] = mc.item(kIt[0], j, kPos)
		}
		plain := plainData(j, o.V)
		if mc.flaw == flawStreamBytes {
			plain = append([]byte{}, plain...)
			plain[0] ^= 1
		}
		raw := plain
		if ps, ok := parmOf(o.V); ok {
			// parm-reference family: everything inlined, the reference inside
			// the parameter dictionary translated like any other
			tp := mc.item(pIt[0], j, 0)
			switch {
			case mc.flaw == flawParmRefKept && pIt[0].K == 'r':
				tp = mc.s.refs[pIt[0].R]
			case mc.flaw == flawParmRefDup && pIt[0].K == 'r':
				if t, _ := mc.s.g.itemTerminal(pIt[0]); t >= 0 {
					tt := mc.w.Alloc()
					mc.w.Put(tt, mc.content(t))
					tp = tt
				}
			case mc.flaw == flawParmEntryLost:
				tp = nil
			}
			d["Filter"], d["DecodeParms"] = parmInlined(ps, parmDict(ps.filter, tp))
			raw = parmRaw(ps, plain)
			if mc.mem != nil {
				// described as data: the dictionary with the filter entries (the
				// oracle looks the parameter dictionary up in them) and the bytes
				// the oracle compares: decoded, or as stored for opaque data
				stm := &pdf.Stream{Dict: d}
				mc.mem.data[stm] = plain
				if stmRawOnly(o.V) {
					mc.mem.data[stm] = raw
				}
				return stm
			}
			return pdf.NewStream(d, raw)
		}
		if cs, ok := chainOf(o.V); ok {
			// filter-chain family: everything inlined
			p, _ := chainParms(cs, nil)
			pa, _ := p.(pdf.Array)
			changed := false
			switch {
			case mc.flaw == flawParmsStale:
				var last pdf.Object
				for i := range pa {
					if pa[i] != nil {
						last = pa[i]
					} else if last != nil {
						pa[i] = last
						changed = changed || parmKind(asDict(last)) == "dict"
					}
				}
			case mc.flaw == flawParmsShifted && pa != nil:
				shifted := append(append(pdf.Array{}, pa[1:]...), nil)
				for i := range pa {
					if parmKind(asDict(pa[i])) != parmKind(asDict(shifted[i])) {
						changed = true
					}
				}
				pa = shifted
			}
			d["Filter"] = chainNames(cs)
			if pa != nil {
				d["DecodeParms"] = pa
			}
			raw = chainRaw(cs, plain)
			if mc.mem != nil {
				// described as data: the dictionary with the filter entries and
				// the decoded bytes; with altered parameters the stream decodes to
				// something else
				stm := &pdf.Stream{Dict: d}
				mc.mem.data[stm] = plain
				if changed {
					mc.mem.data[stm] = plain[:len(plain)/2]
				}
				return stm
			}
			return pdf.NewStream(d, raw)
		}
		switch o.V {
		case stmFlate:
			d["Filter"] = pdf.Name("FlateDecode")
			raw = deflate(plain)
		case stmIndFilter, stmIndFilterAr:
			d["Filter"] = pdf.Name("FlateDecode")
			d["DecodeParms"] = pdf.Dict{"Predictor": pdf.Integer(12), "Columns": pdf.Integer(4)}
			raw = deflate(pngUp(plain, 4))
		default:
			if _, ok := spellingOf(o.V); ok {
				var f, p pdf.Object
				f, p, raw = stmEncoding(o.V, plain)
				d["Filter"] = f
				if p != nil {
					d["DecodeParms"] = p
				}
			}
		}
		if mc.mem != nil {
			// described as data: the dictionary and the decoded bytes
			delete(d, "Filter")
			delete(d, "DecodeParms")
			stm := &pdf.Stream{Dict: d}
			mc.mem.data[stm] = plain
			return stm
		}
		return pdf.NewStream(d, raw)
	case 'r':
		return mc.ref(o.It[0])
	case 'q':
		return mc.item(o.It[0], j, 0)
	}
	panic("bad object")
}

func asDict(x pdf.Object) pdf.Dict {
	d, _ := x.(pdf.Dict)
	return d
}

// modelExecute is execute with the reference copier in place of pdf.Copier.
// With inMemory the target is a memTarget (no Writer, no file, no Reader);
// otherwise it is written with the library's Writer under configuration
// tgtCfg.
func modelExecute(s *source, prog []Op, tgtCfg string, fl flaw, inMemory bool) (*execution, error) {
	var w putter
	var pw *pdf.Writer
	var mem *memTarget
	mf := memfile.New()
	if inMemory {
		mem = newMemTarget()
		w = mem
	} else {
		v, opt, err := writerFor(tgtCfg)
		if err != nil {
			return nil, err
		}
		pw, err = pdf.NewWriter(mf, v, opt)
		if err != nil {
			return nil, err
		}
		w = pw
	}
	mc := &modelCopier{s: s, w: w, mem: mem, trans: map[int]pdf.Reference{}, redirect: map[int]pdf.Reference{},
		killed: map[int]pdf.Reference{}, flaw: fl}
	ex := &execution{mem: mem}
	nRedirect := 0
	lastR := map[int]pdf.Reference{}
	for _, op := range prog {
		st := step{op: op}
		switch op.K {
		case 'R', 'G':
			it := Item{K: 'x'}
			if op.K == 'G' {
				it = Item{'g', op.J}
			} else if op.J >= 0 {
				it = Item{'r', op.J}
			}
			if prev, ok := lastR[lastKey(op)]; ok {
				st.ref = prev
				if fl == flawNewRefTwice {
					st.ref = w.Alloc()
					w.Put(st.ref, prev)
				}
				break
			}
			res := mc.ref(it)
			ref, ok := res.(pdf.Reference)
			if !ok {
				ref = w.Alloc()
				w.Put(ref, res)
			}
			st.ref = ref
			lastR[lastKey(op)] = ref
		case 'C':
			st.ref = w.Alloc()
			if err := w.Put(st.ref, mc.content(op.J)); err != nil {
				return nil, fmt.Errorf("model Put: %w", err)
			}
		case 'V':
			o, err := parseObj(op.D)
			if err != nil {
				return nil, err
			}
			st.ref = w.Alloc()
			if err := w.Put(st.ref, mc.contentOf(o, directJ)); err != nil {
				return nil, fmt.Errorf("model Put: %w", err)
			}
		case 'D':
			st.ref = w.Alloc()
			w.Put(st.ref, redirectMarker(nRedirect))
			nRedirect++
			mc.redirect[op.J] = st.ref
			delete(lastR, op.J)
		}
		// the copier's table, as the real one would report it (fingerprints only)
		for t, tt := range mc.trans {
			if _, redirected := mc.redirect[t]; !redirected {
				st.trans = append(st.trans, [2]pdf.Reference{s.refs[t], tt})
			}
		}
		for t, tt := range mc.redirect {
			st.trans = append(st.trans, [2]pdf.Reference{s.refs[t], tt})
		}
		ex.steps = append(ex.steps, st)
	}
	if inMemory {
		return ex, nil
	}
	if err := memfile.AddBlankPage(pw); err != nil {
		return nil, err
	}
	if err := pw.Close(); err != nil {
		return nil, err
	}
	ex.tgt = mf.Data
	return ex, nil
}
