//go:build verif

package c11

import (
	"fmt"
	"strings"
)

// Item is one element of an array, one value of a dictionary entry or the
// target of a bare reference object.
//
//	'i' integer  's' string  'n' null  'a' []  'd' <<>>
//	'r' reference to object R of the graph
//	'x' dangling reference (object number beyond the xref size)
//	'f' reference to a free object (allocated, never written)
//	'g' stale reference to object R: the number of a live object with a wrong
//	    generation ("N 1 R" while "N 0 obj" exists); resolves to null
//	'A' direct array with one element, 'T' direct dictionary with one entry /N:
//	    a nested direct container; the inner value is a string if R < 0 and a
//	    reference to object R otherwise
//	'm' the string inside a nested container (only used by the oracle)
type Item struct {
	K byte
	R int
}

// innerStr as R of a nested container: the inner value is a string.
const innerStr = -1

// inner returns the item inside a nested direct container.
func (it Item) inner() Item {
	if it.R < 0 {
		return Item{K: 'm'}
	}
	return Item{'r', it.R}
}

// edge reports the object the item really refers to (a live reference,
// directly or inside a nested container).
func (it Item) edge() (int, bool) {
	if it.K == 'r' || (it.K == 'A' || it.K == 'T') && it.R >= 0 {
		return it.R, true
	}
	return 0, false
}

// mention is edge plus stale references: the objects whose number occurs.
func (it Item) mention() (int, bool) {
	if it.K == 'g' {
		return it.R, true
	}
	return it.edge()
}

// refLike: the item is a reference (live or stale) to an object of the graph.
func (it Item) refLike() bool { return it.K == 'r' || it.K == 'g' }

// Obj is one indirect object of a source graph.
//
//	'i' integer  's' string
//	'A' array of It        'D' dictionary, keys /A /B, values It
//	'S' stream, variant V, optional entry /K It[0]
//	'r' bare reference It[0] (a link of a reference chain)
type Obj struct {
	K  byte
	V  int
	It []Item
}

// Graph is a source object graph; object j is written as indirect object j+1.
type Graph []Obj

// stream variants
const (
	stmPlain       = 0 // no filter, 32 bytes
	stmFlate       = 1 // /Filter /FlateDecode (direct)
	stmIndLength   = 2 // /Length n 0 R, 1500 bytes (unbuffered path of the writer)
	stmIndFilter   = 3 // /Filter n 0 R, /DecodeParms m 0 R (Flate + PNG-up predictor)
	stmIndFilterAr = 4 // /Filter [n 0 R], /DecodeParms [m 0 R]
	numStmVariants = 5
)

var stmNames = []string{"plain", "flate", "indirect-length", "indirect-filter-parms", "array-of-indirect-filter-parms"}

func (it Item) String() string {
	switch it.K {
	case 'r':
		return string(rune('0' + it.R))
	case 'g':
		return "~" + string(rune('0'+it.R))
	case 'A':
		return "[" + it.inner().String() + "]"
	case 'T':
		return "<" + it.inner().String() + ">"
	case 'm':
		return "s"
	}
	return string(rune(it.K))
}

func (o Obj) String() string {
	var b strings.Builder
	switch o.K {
	case 'i', 's':
		b.WriteByte(o.K)
	case 'A':
		b.WriteByte('[')
		for _, it := range o.It {
			b.WriteString(it.String())
		}
		b.WriteByte(']')
	case 'D':
		b.WriteByte('<')
		for _, it := range o.It {
			b.WriteString(it.String())
		}
		b.WriteByte('>')
	case 'S':
		fmt.Fprintf(&b, "S%d<", o.V)
		for _, it := range o.It {
			b.WriteString(it.String())
		}
		b.WriteByte('>')
	case 'r':
		b.WriteByte('^')
		b.WriteString(o.It[0].String())
	}
	return b.String()
}

// String renders the graph in the syntax ParseGraph reads:
// "[0a] <1x> S3<2> ^0 i s"; "~1" is a stale reference to object 1, "[[s]]",
// "<<1>>", "S0<[s]>" hold a nested direct container.
func (g Graph) String() string {
	parts := make([]string, len(g))
	for i, o := range g {
		parts[i] = o.String()
	}
	return strings.Join(parts, " ")
}

func parseItems(s string) ([]Item, error) {
	var out []Item
	for i := 0; i < len(s); i++ {
		c := s[i]
		switch {
		case c >= '0' && c <= '9':
			out = append(out, Item{'r', int(c - '0')})
		case strings.IndexByte("isnadxf", c) >= 0:
			out = append(out, Item{K: c})
		case c == '~' && i+1 < len(s) && s[i+1] >= '0' && s[i+1] <= '9':
			out = append(out, Item{'g', int(s[i+1] - '0')})
			i++
		case c == '[' || c == '<':
			closer := byte(']')
			k := byte('A')
			if c == '<' {
				closer, k = '>', 'T'
			}
			if i+2 >= len(s) || s[i+2] != closer {
				return nil, fmt.Errorf("bad nested container in %q", s)
			}
			switch in := s[i+1]; {
			case in == 's':
				out = append(out, Item{k, innerStr})
			case in >= '0' && in <= '9':
				out = append(out, Item{k, int(in - '0')})
			default:
				return nil, fmt.Errorf("bad nested container in %q", s)
			}
			i += 2
		default:
			return nil, fmt.Errorf("bad item %q", c)
		}
	}
	return out, nil
}

// ParseGraph is the inverse of Graph.String.
func ParseGraph(s string) (Graph, error) {
	var g Graph
	for _, f := range strings.Fields(s) {
		var o Obj
		var err error
		switch {
		case f == "i" || f == "s":
			o.K = f[0]
		case f[0] == '[' && f[len(f)-1] == ']':
			o.K = 'A'
			o.It, err = parseItems(f[1 : len(f)-1])
		case f[0] == '<' && f[len(f)-1] == '>':
			o.K = 'D'
			o.It, err = parseItems(f[1 : len(f)-1])
		case f[0] == 'S' && len(f) >= 4 && f[2] == '<' && f[len(f)-1] == '>':
			o.K = 'S'
			o.V = int(f[1] - '0')
			if o.V < 0 || o.V >= numStmVariants {
				return nil, fmt.Errorf("bad stream variant in %q", f)
			}
			o.It, err = parseItems(f[3 : len(f)-1])
		case f[0] == '^' && len(f) >= 2:
			o.K = 'r'
			o.It, err = parseItems(f[1:])
			if err == nil && len(o.It) != 1 {
				err = fmt.Errorf("bad object %q", f)
			}
		default:
			return nil, fmt.Errorf("bad object %q", f)
		}
		if err != nil {
			return nil, err
		}
		g = append(g, o)
	}
	for _, o := range g {
		for _, it := range o.It {
			if j, ok := it.mention(); ok && j >= len(g) {
				return nil, fmt.Errorf("reference to object %d in a graph of %d", j, len(g))
			}
		}
		if o.K == 'S' && len(o.It) > 1 {
			return nil, fmt.Errorf("a stream has at most one entry")
		}
		if o.K == 'r' && strings.IndexByte("rxfg", o.It[0].K) < 0 {
			return nil, fmt.Errorf("bare reference object must hold a reference")
		}
	}
	return g, nil
}

// size orders cases for "smallest witness".
func (g Graph) size() int {
	n := 0
	for _, o := range g {
		n += 10 + len(o.It)
		for _, it := range o.It {
			if it.K == 'A' || it.K == 'T' {
				n++
			}
		}
		if o.K == 'S' {
			n += 3 + o.V
		}
	}
	return n
}

// ---------------------------------------------------------------------------
// semantic view of the source: where does a reference lead

const (
	termNull  = -1 // resolves to null (dangling, free)
	termUndef = -2 // reference loop: malformed, the statement is silent
)

// terminal follows the chain of bare reference objects starting at a reference
// to object j. via lists the objects passed (including j and the terminal).
func (g Graph) terminal(j int) (t int, via []int) {
	seen := 0
	for {
		if seen&(1<<j) != 0 {
			return termUndef, via
		}
		seen |= 1 << j
		via = append(via, j)
		if g[j].K != 'r' {
			return j, via
		}
		it := g[j].It[0]
		if it.K != 'r' {
			return termNull, via // dangling, free, stale
		}
		j = it.R
	}
}

// itemTerminal resolves an item that is a reference (a stale reference, like
// a dangling one, leads to no object).
func (g Graph) itemTerminal(it Item) (int, []int) {
	if it.K == 'r' {
		return g.terminal(it.R)
	}
	return termNull, nil
}

// reach returns the bit set of objects reachable from the references in its.
func (g Graph) reachFromItems(its []Item) int {
	set := 0
	var visit func(j int)
	visit = func(j int) {
		if set&(1<<j) != 0 {
			return
		}
		set |= 1 << j
		for _, it := range g[j].It {
			if k, ok := it.edge(); ok {
				visit(k)
			}
		}
	}
	for _, it := range its {
		if k, ok := it.edge(); ok {
			visit(k)
		}
	}
	return set
}

func (g Graph) hasRefLoop(set int) bool {
	for j := range g {
		if set&(1<<j) != 0 && g[j].K == 'r' {
			if t, _ := g.terminal(j); t == termUndef {
				return true
			}
		}
	}
	return false
}

// weaklyConnected reports whether the graph is connected when edges are
// read without direction. A stale reference counts as an edge here (it is no
// edge of the source graph, but it ties the object it names into the case: a
// program can copy both).
func (g Graph) weaklyConnected() bool {
	n := len(g)
	adj := make([]int, n)
	for j, o := range g {
		for _, it := range o.It {
			if k, ok := it.mention(); ok {
				adj[j] |= 1 << k
				adj[k] |= 1 << j
			}
		}
	}
	seen, todo := 1, []int{0}
	for len(todo) > 0 {
		j := todo[len(todo)-1]
		todo = todo[:len(todo)-1]
		for k := 0; k < n; k++ {
			if adj[j]&(1<<k) != 0 && seen&(1<<k) == 0 {
				seen |= 1 << k
				todo = append(todo, k)
			}
		}
	}
	return seen == 1<<n-1
}

// ---------------------------------------------------------------------------
// enumeration

// alphabet describes the objects a graph of n objects may consist of.
type alphabet struct {
	name     string
	items    string // item kinds besides references to the n objects
	scalars  bool   // integer, string objects
	empties  bool   // [] and <<>> objects
	arr2     bool
	dict1    bool
	dict2    bool
	variants []int // stream variants
	stmBare  bool  // streams without /K entry
	bareDead bool  // bare references to dangling / free
	// stale: the item kind "stale reference to object j" for every object of
	// the graph, alone in a container, as a bare reference object, and in
	// two-item containers next to a live or stale reference (both orders)
	stale bool
	// nested: a direct array / dictionary holding a string or a reference to
	// an object of the graph, as the only item of a container or the /K entry
	// of a stream
	nested bool
}

var rich = alphabet{name: "rich", items: "isnadxf", scalars: true, empties: true, arr2: true, dict1: true, dict2: true,
	variants: []int{0, 1, 2, 3, 4}, stmBare: true, bareDead: true, stale: true, nested: true}

// richNested is rich without stale references: for the spaces that multiply
// the value kinds with the encryption configurations (a stale reference is a
// matter of translating references, the same under every configuration).
var richNested = alphabet{name: "rich-nostale", items: "isnadxf", scalars: true, empties: true, arr2: true, dict1: true, dict2: true,
	variants: []int{0, 1, 2, 3, 4}, stmBare: true, bareDead: true, nested: true}

// richFlat is rich without stale references and nested containers (the
// 3-object product of rich is out of reach).
var richFlat = alphabet{name: "rich-flat", items: "isnadxf", scalars: true, empties: true, arr2: true, dict1: true, dict2: true,
	variants: []int{0, 1, 2, 3, 4}, stmBare: true, bareDead: true}

// lean keeps every way of linking objects and drops the value variety.
var lean = alphabet{name: "lean", items: "ix", scalars: true, arr2: true, dict1: true,
	variants: []int{0}, bareDead: true}

// mid is lean plus the value kinds whose translation is special.
var mid = alphabet{name: "mid", items: "inax", scalars: true, empties: true, arr2: true, dict1: true, dict2: false,
	variants: []int{0, 3}, stmBare: true, bareDead: true}

// leanStale, midStale: the same with stale references.
var leanStale = withStale(lean)
var midStale = withStale(mid)

func withStale(a alphabet) alphabet {
	a.name += "+stale"
	a.stale = true
	return a
}

func (a alphabet) itemList(n int) []Item {
	var its []Item
	for i := 0; i < len(a.items); i++ {
		its = append(its, Item{K: a.items[i]})
	}
	for j := 0; j < n; j++ {
		its = append(its, Item{'r', j})
	}
	if a.stale {
		for j := 0; j < n; j++ {
			its = append(its, Item{'g', j})
		}
	}
	return its
}

// nestedList lists the nested direct containers of the alphabet.
func (a alphabet) nestedList(n int) []Item {
	if !a.nested {
		return nil
	}
	var its []Item
	for _, k := range []byte{'A', 'T'} {
		its = append(its, Item{k, innerStr})
		for j := 0; j < n; j++ {
			its = append(its, Item{k, j})
		}
	}
	return its
}

// pairOK: which two items may share a container. A stale reference is only
// paired with a live or stale reference (its interaction is with the
// translation of references, not with values).
func pairOK(x, y Item) bool {
	if x.K == 'g' && !y.refLike() || y.K == 'g' && !x.refLike() {
		return false
	}
	return true
}

// kinds lists every object of the alphabet for a graph of n objects.
func (a alphabet) kinds(n int) []Obj {
	its := a.itemList(n)
	single := append(append([]Item{}, its...), a.nestedList(n)...)
	var out []Obj
	if a.scalars {
		out = append(out, Obj{K: 'i'}, Obj{K: 's'})
	} else {
		out = append(out, Obj{K: 'i'})
	}
	if a.empties {
		out = append(out, Obj{K: 'A'}, Obj{K: 'D'})
	}
	for _, x := range single {
		out = append(out, Obj{K: 'A', It: []Item{x}})
	}
	if a.arr2 {
		for _, x := range its {
			for _, y := range its {
				if pairOK(x, y) {
					out = append(out, Obj{K: 'A', It: []Item{x, y}})
				}
			}
		}
	}
	if a.dict1 {
		for _, x := range single {
			out = append(out, Obj{K: 'D', It: []Item{x}})
		}
	}
	if a.dict2 {
		for _, x := range its {
			for _, y := range its {
				if pairOK(x, y) {
					out = append(out, Obj{K: 'D', It: []Item{x, y}})
				}
			}
		}
	}
	for _, v := range a.variants {
		if a.stmBare {
			out = append(out, Obj{K: 'S', V: v})
		}
		for _, x := range single {
			if !a.stmBare && !x.refLike() {
				continue
			}
			out = append(out, Obj{K: 'S', V: v, It: []Item{x}})
		}
	}
	for j := 0; j < n; j++ {
		out = append(out, Obj{K: 'r', It: []Item{{'r', j}}})
	}
	if a.bareDead {
		out = append(out, Obj{K: 'r', It: []Item{{K: 'x'}}}, Obj{K: 'r', It: []Item{{K: 'f'}}})
	} else {
		out = append(out, Obj{K: 'r', It: []Item{{K: 'x'}}})
	}
	if a.stale {
		for j := 0; j < n; j++ {
			out = append(out, Obj{K: 'r', It: []Item{{'g', j}}})
		}
	}
	return out
}

// objKey is a total order key of an object under a relabelling.
func objKey(o Obj, perm []int) string {
	var b [8]byte
	k := b[:0]
	k = append(k, o.K, byte('0'+o.V))
	for _, it := range o.It {
		if j, ok := it.mention(); ok {
			k = append(k, it.K, byte('0'+perm[j]))
		} else {
			k = append(k, it.K, ' ')
		}
	}
	return string(k)
}

var perms = map[int][][]int{
	1: {{0}},
	2: {{0, 1}, {1, 0}},
	3: {{0, 1, 2}, {0, 2, 1}, {1, 0, 2}, {1, 2, 0}, {2, 0, 1}, {2, 1, 0}},
}

// canonical reports whether g is the least of its relabellings. With
// fixRoot only relabellings that keep object 0 are considered.
func (g Graph) canonical(fixRoot bool) bool {
	n := len(g)
	if n == 1 {
		return true
	}
	id := perms[n][0]
	self := make([]string, n)
	for j := range g {
		self[j] = objKey(g[j], id)
	}
	other := make([]string, n)
	for _, p := range perms[n][1:] {
		if fixRoot && p[0] != 0 {
			continue
		}
		for j := range g {
			other[p[j]] = objKey(g[j], p)
		}
		for j := 0; j < n; j++ {
			if other[j] < self[j] {
				return false
			}
			if other[j] > self[j] {
				break
			}
		}
	}
	return true
}
