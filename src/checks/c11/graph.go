//go:build verif

package c11

import (
	"fmt"
	"strings"
)

// Item is one element of an array, one value of a dictionary entry or the
// target of a bare reference object.
//
//	'i' integer  's' string  'n' null  'a' []  'd' <<>>
//	'r' reference to object R of the graph
//	'x' dangling reference (object number beyond the xref size)
//	'f' reference to a free object (allocated, never written)
//	'g' stale reference to object R: the number of a live object with a wrong
//	    generation ("N 1 R" while "N 0 obj" exists); resolves to null
//	'A' direct array with one element, 'T' direct dictionary with one entry /N:
//	    a nested direct container; the inner value is a string if R < 0 and a
//	    reference to object R otherwise
//	'm' the string inside a nested container (only used by the oracle)
//	'N' a nil pdf.Array, 'M' a nil pdf.Dict (typed nil Go values: they cannot
//	    come out of a file, only a caller can hand them to Copy; direct values
//	    of the 'V' call only)
//	'k' a name value: name R of the name family (see nameSpec), "/p23h"
//	'y' a dictionary entry whose KEY is name R of the name family and whose
//	    value is an integer, "=p23h" (in dictionaries and stream dictionaries
//	    only; it takes the place of the entry /A, /B, /K, /N of its position)
type Item struct {
	K byte
	R int
}

// R of a nested container whose inner value is not a reference: a string, or
// (direct values of the 'V' call only) a Go nil, a nil pdf.Array, a nil pdf.Dict.
const (
	innerStr     = -1
	innerNull    = -2
	innerNilArr  = -3
	innerNilDict = -4
	// name family (see nameSpec): R = nestedNameBase - idx: the inner value is
	// the name idx of the family; R = nestedKeyBase - idx ('T' only): the entry
	// of the nested dictionary has the name idx as its KEY (and an integer as
	// its value)
	nestedNameBase = -1000
	nestedKeyBase  = -100000
)

// inner returns the item inside a nested direct container.
func (it Item) inner() Item {
	if it.R <= nestedKeyBase {
		return Item{'y', nestedKeyBase - it.R}
	}
	if it.R <= nestedNameBase {
		return Item{'k', nestedNameBase - it.R}
	}
	switch it.R {
	case innerStr:
		return Item{K: 'm'}
	case innerNull:
		return Item{K: 'n'}
	case innerNilArr:
		return Item{K: 'N'}
	case innerNilDict:
		return Item{K: 'M'}
	}
	return Item{'r', it.R}
}

// edge reports the object the item really refers to (a live reference,
// directly or inside a nested container).
func (it Item) edge() (int, bool) {
	if it.K == 'r' || (it.K == 'A' || it.K == 'T') && it.R >= 0 {
		return it.R, true
	}
	return 0, false
}

// mention is edge plus stale references: the objects whose number occurs.
func (it Item) mention() (int, bool) {
	if it.K == 'g' {
		return it.R, true
	}
	return it.edge()
}

// refLike: the item is a reference (live or stale) to an object of the graph.
func (it Item) refLike() bool { return it.K == 'r' || it.K == 'g' }

// Obj is one indirect object of a source graph.
//
//	'i' integer  's' string
//	'A' array of It        'D' dictionary, keys /A /B, values It
//	'S' stream, variant V, optional entry /K It[0]
//	'r' bare reference It[0] (a link of a reference chain)
//	'q' a name object ("5 0 obj /Name endobj"), the name is It[0] (kind 'k')
//	'n' Go nil, 'N' nil pdf.Array, 'M' nil pdf.Dict (direct values of the 'V' call only)
type Obj struct {
	K  byte
	V  int
	It []Item
}

// Graph is a source object graph; object j is written as indirect object j+1.
type Graph []Obj

// nameSpec is one member of the name family: a name that contains the byte b,
// at its beginning or after the regular character "N", followed by one of four
// tails. The family is the complete product of
//
//	prefix: 'b' the byte begins the name, 'p' it follows the character N
//	byte:   every byte 0x01 ... 0xFF (NUL cannot occur in a name): regular
//	        characters, the number sign, the ten delimiters, the white-space
//	        characters, the other control characters, DEL and the bytes above
//	        0x7E - everything a writer has to decide about
//	tail:   'e' nothing follows; 'h' two hexadecimal digits "41" follow (after
//	        a number sign that was not escaped they would read as an escape);
//	        'm' one hexadecimal digit and another character, "4z"; 'z' two
//	        characters that are no hexadecimal digits, "zz"
//
// In the case syntax a name is written "/p23h" (prefix code, the byte in
// hexadecimal, tail code): the name N#41; "=p23h" is a dictionary entry with
// that name as its key.
type nameSpec struct {
	prefix bool
	b      byte
	tail   int
}

const nameTailCodes = "ehmz"

var nameTails = []string{"", "41", "4z", "zz"}
var nameTailNames = []string{"end-of-name", "two-hex-digits", "hex-digit+other", "non-hex"}

const numNames = 2 * 255 * 4

func nameSpecOf(idx int) nameSpec {
	return nameSpec{prefix: idx/(255*4) == 1, b: byte(idx/4%255 + 1), tail: idx % 4}
}

func (ns nameSpec) index() int {
	i := (int(ns.b)-1)*4 + ns.tail
	if ns.prefix {
		i += 255 * 4
	}
	return i
}

// nameString is the name (as a sequence of bytes) with index idx.
func nameString(idx int) string {
	ns := nameSpecOf(idx)
	s := string([]byte{ns.b}) + nameTails[ns.tail]
	if ns.prefix {
		s = "N" + s
	}
	return s
}

func (ns nameSpec) code() string {
	p := byte('b')
	if ns.prefix {
		p = 'p'
	}
	return fmt.Sprintf("%c%02x%c", p, ns.b, nameTailCodes[ns.tail])
}

// parseNameCode reads the four characters after the sigil "/" or "=".
func parseNameCode(s string) (int, bool) {
	if len(s) != 4 || s[0] != 'b' && s[0] != 'p' {
		return 0, false
	}
	var b int
	if _, err := fmt.Sscanf(s[1:3], "%02x", &b); err != nil || b < 1 || b > 255 || strings.ToLower(s[1:3]) != s[1:3] {
		return 0, false
	}
	t := strings.IndexByte(nameTailCodes, s[3])
	if t < 0 {
		return 0, false
	}
	return nameSpec{s[0] == 'p', byte(b), t}.index(), true
}

// byteClass names the class of the byte of the family member (fingerprints:
// the class of a defect in writing names is the class of bytes it mishandles).
func (ns nameSpec) byteClass() string {
	c := ns.b
	switch {
	case c == '#':
		return "number-sign"
	case c == 0 || c == 9 || c == 10 || c == 12 || c == 13 || c == 32:
		return "white-space"
	case strings.IndexByte("()<>[]{}/%", c) >= 0:
		return "delimiter"
	case c < 0x21:
		return "control"
	case c > 0x7e:
		return "del-or-high"
	}
	return "regular"
}

// nameTag is the part of a fingerprint that says which kind of name went wrong.
func nameTag(idx int) string {
	ns := nameSpecOf(idx)
	return "byte=" + ns.byteClass() + ";next=" + nameTailNames[ns.tail]
}

// allNames lists the whole family.
var allNames = func() []int {
	out := make([]int, numNames)
	for i := range out {
		out[i] = i
	}
	return out
}()

// stream variants
const (
	stmPlain       = 0 // no filter, 32 bytes
	stmFlate       = 1 // /Filter /FlateDecode (direct)
	stmIndLength   = 2 // /Length n 0 R, 1500 bytes (unbuffered path of the writer)
	stmIndFilter   = 3 // /Filter n 0 R, /DecodeParms m 0 R (Flate + PNG-up predictor)
	stmIndFilterAr = 4 // /Filter [n 0 R], /DecodeParms [m 0 R]
	stmSpellBase   = 5 // variants 5... are the spellings of short filter chains, see spellings
)

// spelling describes how a short filter chain is written in the stream
// dictionary. The family: every one-filter chain X in {FlateDecode,
// ASCIIHexDecode, Crypt (Identity)} written as the bare name /Filter /X and as
// the one-element array /Filter [/X], each with /DecodeParms absent, a
// dictionary, and a one-element array; and Crypt first in a two-element array
// [/Crypt /Y], Y in {FlateDecode, ASCIIHexDecode}, with /DecodeParms absent and
// a two-element array.
type spelling struct {
	chain string // one letter per filter: F FlateDecode, H ASCIIHexDecode, C Crypt
	array bool   // /Filter is an array
	parms byte   // '-' absent, 'd' a dictionary, 'a' an array with one entry per filter
}

var spellings = func() []spelling {
	var out []spelling
	for _, x := range []string{"F", "H", "C"} {
		for _, arr := range []bool{false, true} {
			for _, p := range []byte{'-', 'd', 'a'} {
				out = append(out, spelling{x, arr, p})
			}
		}
	}
	for _, y := range []string{"CF", "CH"} {
		for _, p := range []byte{'-', 'a'} {
			out = append(out, spelling{y, true, p})
		}
	}
	return out
}()

// stmParmBase: the variants from here on are the parm-reference family, see
// parmSpecs.
var stmParmBase = stmSpellBase + len(spellings)

// parmSpec is one variant of the parm-reference family: a stream whose filter
// parameter dictionary holds an indirect reference to a node of the source
// graph (the /JBIG2Globals shape). The family is the product of
//
//	filter: 'F' /FlateDecode with <</Predictor 12 /Columns 4 /G ref>> (the
//	        stream decodes; /G is a key the filter does not know, so the
//	        library does not interpret the reference), 'J' /JBIG2Decode with
//	        <</JBIG2Globals ref>> (the data is opaque: it is never decoded, the
//	        oracle compares the stored bytes)
//	shape:  where the parameter dictionary sits
//	        'd' /Filter /X    /DecodeParms <<..>>
//	        'a' /Filter [/X]  /DecodeParms [<<..>>]
//	        'D' /Filter /X    /DecodeParms n 0 R      (n 0 obj <<..>>)
//	        'A' /Filter [/X]  /DecodeParms [n 0 R]
//	        'I' /Filter [/X]  /DecodeParms m 0 R      (m 0 obj [<<..>>])
//	        'B' /Filter [/X]  /DecodeParms m 0 R      (m 0 obj [n 0 R])
//	        '2' /Filter [/ASCIIHexDecode /X]  /DecodeParms [null <<..>>]
//
// In the object syntax the first item of such a stream is the reference inside
// the parameter dictionary (a reference to an object of the graph, or a dead
// reference), an optional second item is the /K entry: "SB<1>", "SB<10>".
type parmSpec struct {
	filter byte
	shape  byte
}

const parmShapes = "daDAIB2"

var parmShapeNames = map[byte]string{
	'd': "name+dict", 'a': "array+array-of-dict", 'D': "name+indirect-dict", 'A': "array+array-of-indirect-dict",
	'I': "array+indirect-array-of-dict", 'B': "array+indirect-array-of-indirect-dict", '2': "second-of-two-filters",
}

var parmSpecs = func() []parmSpec {
	var out []parmSpec
	for _, f := range []byte{'F', 'J'} {
		for i := 0; i < len(parmShapes); i++ {
			out = append(out, parmSpec{f, parmShapes[i]})
		}
	}
	return out
}()

var numStmVariants = stmParmBase + len(parmSpecs)

var parmVariants = func() []int {
	var out []int
	for v := stmParmBase; v < numStmVariants; v++ {
		out = append(out, v)
	}
	return out
}()

// chainSpec is one variant of the filter-chain family: a stream with a filter
// chain of two or three filters and one /DecodeParms entry per position. The
// family is the complete product of
//
//	chain: every sequence of length 2 and 3 over F /FlateDecode, H
//	       /ASCIIHexDecode, L /LZWDecode (always written as an array of names)
//	parms: /DecodeParms absent ("-"), or an array with one entry per filter,
//	       every position independently one of
//	       'n' null
//	       'p' the predictor dictionary <</Predictor 12 /Columns 1>>
//	       'e' the empty dictionary <<>>
//	       'P' a reference to an object holding the predictor dictionary
//	       'E' a reference to an object holding the empty dictionary
//	       'N' a reference to an object holding null
//
// The data is encoded accordingly (a predictor dictionary at the position of
// FlateDecode or LZWDecode means the PNG "Up" predictor at that stage,
// ASCIIHexDecode has no parameters and ignores its entry), so every stream of
// the family decodes, and a parameter entry that moves to, vanishes from or
// appears at another position changes the decoded bytes. In the case syntax:
// "S{FF:pn}<>" = /Filter [/FlateDecode /FlateDecode] /DecodeParms [<<...>> null]
// (what Writer.OpenStream itself writes for a predictor filter followed by a
// parameterless one), "S{HLF:-}<>", "S{FL:NP}<1>".
type chainSpec struct {
	chain string
	parms string // "-" or one letter per filter
}

const chainFilters = "FHL"
const chainEntries = "npePEN"

var chainEntryNames = map[byte]string{'n': "null", 'p': "predictor dictionary", 'e': "empty dictionary",
	'P': "reference to a predictor dictionary", 'E': "reference to an empty dictionary", 'N': "reference to null"}

// words lists all words of length n over the alphabet, in lexical order of
// the positions of the letters in the alphabet.
func words(alphabet string, n int) []string {
	out := []string{""}
	for i := 0; i < n; i++ {
		var next []string
		for _, w := range out {
			for k := 0; k < len(alphabet); k++ {
				next = append(next, w+string(alphabet[k]))
			}
		}
		out = next
	}
	return out
}

var chainSpecs = func() []chainSpec {
	var out []chainSpec
	for n := 2; n <= 3; n++ {
		for _, c := range words(chainFilters, n) {
			out = append(out, chainSpec{c, "-"})
			for _, p := range words(chainEntries, n) {
				out = append(out, chainSpec{c, p})
			}
		}
	}
	return out
}()

// stmChainBase: the variants from here on are the filter-chain family. They
// have no one-letter code in the case syntax.
var stmChainBase = numStmVariants

var chainIndex = func() map[chainSpec]int {
	m := map[chainSpec]int{}
	for i, cs := range chainSpecs {
		m[cs] = stmChainBase + i
	}
	return m
}()

// chainOf returns the description of a variant of the filter-chain family.
func chainOf(v int) (chainSpec, bool) {
	if v < stmChainBase || v >= stmChainBase+len(chainSpecs) {
		return chainSpec{}, false
	}
	return chainSpecs[v-stmChainBase], true
}

// chainVariantsOfLen lists the variants of the family with n filters.
func chainVariantsOfLen(n int) []int {
	var out []int
	for i, cs := range chainSpecs {
		if len(cs.chain) == n {
			out = append(out, stmChainBase+i)
		}
	}
	return out
}

// predictorAt: the filter at position i of the chain works with the predictor
// (its parameter entry is, or leads to, the predictor dictionary, and the
// filter is one that has a predictor).
func (cs chainSpec) predictorAt(i int) bool {
	return cs.parms != "-" && (cs.parms[i] == 'p' || cs.parms[i] == 'P') && cs.chain[i] != 'H'
}

// entryKind: what the parameter entry at position i amounts to: "dict" (the
// predictor dictionary), "empty" (a dictionary without entries) or "null".
func (cs chainSpec) entryKind(i int) string {
	if cs.parms == "-" {
		return "null"
	}
	switch cs.parms[i] {
	case 'p', 'P':
		return "dict"
	case 'e', 'E':
		return "empty"
	}
	return "null"
}

func (cs chainSpec) String() string {
	var names []string
	for i := 0; i < len(cs.chain); i++ {
		names = append(names, chainLongNames[cs.chain[i]])
	}
	p := "absent"
	if cs.parms != "-" {
		var es []string
		for i := 0; i < len(cs.parms); i++ {
			es = append(es, chainEntryNames[cs.parms[i]])
		}
		p = "[" + strings.Join(es, ", ") + "]"
	}
	return "filter-chain:" + strings.Join(names, "+") + ";parms:" + p
}

var chainLongNames = map[byte]string{'F': "FlateDecode", 'H': "ASCIIHexDecode", 'L': "LZWDecode"}

// stmName names a stream variant (evidence, messages).
func stmName(v int) string {
	if cs, ok := chainOf(v); ok {
		return cs.String()
	}
	return stmNames[v]
}

// stmTag is the part of a fingerprint that names the kind of stream: the
// variant, or for the filter-chain family the length of the chain (the family
// has thousands of members; which of them fail is in the message and the
// witness).
func stmTag(v int) string {
	if cs, ok := chainOf(v); ok {
		return fmt.Sprintf("filter-chain-of-%d", len(cs.chain))
	}
	return stmNames[v]
}

// parmOf returns the description of a variant of the parm-reference family.
func parmOf(v int) (parmSpec, bool) {
	if v < stmParmBase || v >= numStmVariants {
		return parmSpec{}, false
	}
	return parmSpecs[v-stmParmBase], true
}

// parmVariant is the inverse of parmOf.
func parmVariant(filter, shape byte) int {
	for i, ps := range parmSpecs {
		if ps.filter == filter && ps.shape == shape {
			return stmParmBase + i
		}
	}
	panic("no such parm-reference variant")
}

func (ps parmSpec) String() string {
	return "parm-ref:" + map[byte]string{'F': "Flate", 'J': "JBIG2"}[ps.filter] + ";" + parmShapeNames[ps.shape]
}

// stmRawOnly: the data of the variant is opaque (JBIG2Decode without a JBIG2
// bit stream): nothing can decode it, in the source or in the target, so the
// oracle compares the stored (decrypted, still encoded) bytes as long as the
// target declares the same filter chain.
func stmRawOnly(v int) bool {
	ps, ok := parmOf(v)
	return ok && ps.filter == 'J'
}

// stmParts splits the items of a stream object: p is the reference inside the
// filter parameter dictionary (parm-reference family only), k the optional /K
// entry, kPos the position of the /K item among the items of the object.
func (o Obj) stmParts() (p, k []Item, kPos int) {
	if _, ok := parmOf(o.V); ok && o.K == 'S' && len(o.It) > 0 {
		return o.It[:1], o.It[1:], 1
	}
	return nil, o.It, 0
}

var spellVariants = func() []int {
	var out []int
	for v := stmSpellBase; v < stmSpellBase+len(spellings); v++ {
		out = append(out, v)
	}
	return out
}()

var filterLongNames = map[byte]string{'F': "FlateDecode", 'H': "ASCIIHexDecode", 'C': "Crypt"}

func (sp spelling) String() string {
	var names []string
	for i := 0; i < len(sp.chain); i++ {
		names = append(names, filterLongNames[sp.chain[i]])
	}
	f := "name:" + names[0]
	if sp.array {
		f = "array:" + strings.Join(names, "+")
	}
	return f + ";parms:" + map[byte]string{'-': "absent", 'd': "dict", 'a': "array"}[sp.parms]
}

// spellingOf returns the spelling of a stream variant (ok = false for the
// variants 0..4).
func spellingOf(v int) (spelling, bool) {
	if v < stmSpellBase || v >= stmSpellBase+len(spellings) {
		return spelling{}, false
	}
	return spellings[v-stmSpellBase], true
}

// stmDecodable: the stream dictionary of the variant describes a filter chain
// that can be decoded. A bare filter name with an array of parameters, and an
// array of filters with a bare parameter dictionary, do not fit together: the
// library refuses to decode such a stream, so "streams decode to the same
// bytes" says nothing about it (the rest of the object is still compared).
func stmDecodable(v int) bool {
	sp, ok := spellingOf(v)
	if !ok {
		return true
	}
	return !(sp.array && sp.parms == 'd') && !(!sp.array && sp.parms == 'a')
}

// stmCryptFirst: the filter chain of the variant begins with /Crypt (Identity):
// the bytes of the stream are stored unencrypted in an encrypted file.
func stmCryptFirst(v int) bool {
	sp, ok := spellingOf(v)
	return ok && sp.chain[0] == 'C'
}

var stmNames = func() []string {
	out := []string{"plain", "flate", "indirect-length", "indirect-filter-parms", "array-of-indirect-filter-parms"}
	for _, sp := range spellings {
		out = append(out, sp.String())
	}
	for _, ps := range parmSpecs {
		out = append(out, ps.String())
	}
	return out
}()

// variantChars: the variant of a stream in the case syntax ("S0<>", "Sk<s>",
// "SB<1>").
const variantChars = "0123456789abcdefghijklmnopqrstuvwxyzABCDEFGHIJKLMNOPQRSTUVWXYZ"

func (it Item) String() string {
	switch it.K {
	case 'r':
		return string(rune('0' + it.R))
	case 'g':
		return "~" + string(rune('0'+it.R))
	case 'A':
		return "[" + it.inner().String() + "]"
	case 'T':
		return "<" + it.inner().String() + ">"
	case 'm':
		return "s"
	case 'k':
		return "/" + nameSpecOf(it.R).code()
	case 'y':
		return "=" + nameSpecOf(it.R).code()
	}
	return string(rune(it.K))
}

// directOnly: the item can only occur in a direct value built by the caller.
func (it Item) directOnly() bool {
	return it.K == 'N' || it.K == 'M' || (it.K == 'A' || it.K == 'T') && it.R < innerStr && it.R > nestedNameBase
}

func (o Obj) String() string {
	var b strings.Builder
	switch o.K {
	case 'i', 's', 'n', 'N', 'M':
		b.WriteByte(o.K)
	case 'A':
		b.WriteByte('[')
		for _, it := range o.It {
			b.WriteString(it.String())
		}
		b.WriteByte(']')
	case 'D':
		b.WriteByte('<')
		for _, it := range o.It {
			b.WriteString(it.String())
		}
		b.WriteByte('>')
	case 'S':
		if cs, ok := chainOf(o.V); ok {
			fmt.Fprintf(&b, "S{%s:%s}<", cs.chain, cs.parms)
		} else {
			fmt.Fprintf(&b, "S%c<", variantChars[o.V])
		}
		for _, it := range o.It {
			b.WriteString(it.String())
		}
		b.WriteByte('>')
	case 'r':
		b.WriteByte('^')
		b.WriteString(o.It[0].String())
	case 'q':
		b.WriteString(o.It[0].String())
	}
	return b.String()
}

// String renders the graph in the syntax ParseGraph reads:
// "[0a] <1x> S3<2> ^0 i s"; "~1" is a stale reference to object 1, "[[s]]",
// "<<1>>", "S0<[s]>" hold a nested direct container.
func (g Graph) String() string {
	parts := make([]string, len(g))
	for i, o := range g {
		parts[i] = o.String()
	}
	return strings.Join(parts, " ")
}

func parseItems(s string) ([]Item, error) {
	var out []Item
	for i := 0; i < len(s); i++ {
		c := s[i]
		switch {
		case c >= '0' && c <= '9':
			out = append(out, Item{'r', int(c - '0')})
		case strings.IndexByte("isnadxfNM", c) >= 0:
			out = append(out, Item{K: c})
		case c == '~' && i+1 < len(s) && s[i+1] >= '0' && s[i+1] <= '9':
			out = append(out, Item{'g', int(s[i+1] - '0')})
			i++
		case (c == '/' || c == '=') && i+4 < len(s):
			idx, ok := parseNameCode(s[i+1 : i+5])
			if !ok {
				return nil, fmt.Errorf("bad name %q", s[i:i+5])
			}
			out = append(out, Item{map[byte]byte{'/': 'k', '=': 'y'}[c], idx})
			i += 4
		case c == '[' || c == '<':
			closer := byte(']')
			k := byte('A')
			if c == '<' {
				closer, k = '>', 'T'
			}
			if i+6 < len(s) && (s[i+1] == '/' || s[i+1] == '=' && c == '<') && s[i+6] == closer {
				// a nested container holding a name of the name family, or (a
				// dictionary) an entry with such a name as its key
				idx, ok := parseNameCode(s[i+2 : i+6])
				if !ok {
					return nil, fmt.Errorf("bad name in nested container in %q", s)
				}
				if s[i+1] == '/' {
					out = append(out, Item{k, nestedNameBase - idx})
				} else {
					out = append(out, Item{k, nestedKeyBase - idx})
				}
				i += 6
				continue
			}
			if i+2 >= len(s) || s[i+2] != closer {
				return nil, fmt.Errorf("bad nested container in %q", s)
			}
			switch in := s[i+1]; {
			case in == 's':
				out = append(out, Item{k, innerStr})
			case in == 'n':
				out = append(out, Item{k, innerNull})
			case in == 'N':
				out = append(out, Item{k, innerNilArr})
			case in == 'M':
				out = append(out, Item{k, innerNilDict})
			case in >= '0' && in <= '9':
				out = append(out, Item{k, int(in - '0')})
			default:
				return nil, fmt.Errorf("bad nested container in %q", s)
			}
			i += 2
		default:
			return nil, fmt.Errorf("bad item %q", c)
		}
	}
	return out, nil
}

// parseObj is the inverse of Obj.String.
func parseObj(f string) (Obj, error) {
	{
		var o Obj
		var err error
		switch {
		case f == "":
			return o, fmt.Errorf("empty object")
		case f == "i" || f == "s" || f == "n" || f == "N" || f == "M":
			o.K = f[0]
		case f[0] == '/':
			o.K = 'q'
			o.It, err = parseItems(f)
			if err == nil && (len(o.It) != 1 || o.It[0].K != 'k') {
				err = fmt.Errorf("bad name object %q", f)
			}
		case f[0] == '[' && f[len(f)-1] == ']':
			o.K = 'A'
			o.It, err = parseItems(f[1 : len(f)-1])
		case f[0] == '<' && f[len(f)-1] == '>':
			o.K = 'D'
			o.It, err = parseItems(f[1 : len(f)-1])
		case strings.HasPrefix(f, "S{") && f[len(f)-1] == '>':
			// filter-chain family: S{chain:parms}<items>
			end := strings.Index(f, "}<")
			colon := strings.IndexByte(f, ':')
			if end < 0 || colon < 0 || colon > end {
				return o, fmt.Errorf("bad stream variant in %q", f)
			}
			v, ok := chainIndex[chainSpec{f[2:colon], f[colon+1 : end]}]
			if !ok {
				return o, fmt.Errorf("bad filter chain in %q", f)
			}
			o.K, o.V = 'S', v
			o.It, err = parseItems(f[end+2 : len(f)-1])
		case f[0] == 'S' && len(f) >= 4 && f[2] == '<' && f[len(f)-1] == '>':
			o.K = 'S'
			o.V = strings.IndexByte(variantChars, f[1])
			if o.V < 0 || o.V >= numStmVariants {
				return o, fmt.Errorf("bad stream variant in %q", f)
			}
			o.It, err = parseItems(f[3 : len(f)-1])
		case f[0] == '^' && len(f) >= 2:
			o.K = 'r'
			o.It, err = parseItems(f[1:])
			if err == nil && len(o.It) != 1 {
				err = fmt.Errorf("bad object %q", f)
			}
		default:
			return o, fmt.Errorf("bad object %q", f)
		}
		return o, err
	}
}

// ParseGraph is the inverse of Graph.String.
func ParseGraph(s string) (Graph, error) {
	var g Graph
	for _, f := range strings.Fields(s) {
		o, err := parseObj(f)
		if err != nil {
			return nil, err
		}
		g = append(g, o)
	}
	for _, o := range g {
		if strings.IndexByte("nNM", o.K) >= 0 {
			return nil, fmt.Errorf("object kind %c only exists as a direct value", o.K)
		}
		for _, it := range o.It {
			if j, ok := it.mention(); ok && j >= len(g) {
				return nil, fmt.Errorf("reference to object %d in a graph of %d", j, len(g))
			}
			if it.directOnly() {
				return nil, fmt.Errorf("item %s only exists in a direct value", it)
			}
			if it.K == 'y' && o.K != 'D' && o.K != 'S' {
				return nil, fmt.Errorf("an entry with a name of the family as its key can only stand in a dictionary")
			}
		}
		if _, isParm := parmOf(o.V); o.K == 'S' && isParm {
			if len(o.It) < 1 || len(o.It) > 2 || strings.IndexByte("rxfg", o.It[0].K) < 0 {
				return nil, fmt.Errorf("a stream of the parm-reference family has a reference (inside /DecodeParms) and at most one entry")
			}
		} else if o.K == 'S' && len(o.It) > 1 {
			return nil, fmt.Errorf("a stream has at most one entry")
		}
		if o.K == 'r' && strings.IndexByte("rxfg", o.It[0].K) < 0 {
			return nil, fmt.Errorf("bare reference object must hold a reference")
		}
	}
	return g, nil
}

// size orders cases for "smallest witness".
func (g Graph) size() int {
	n := 0
	for _, o := range g {
		n += 10 + len(o.It)
		for _, it := range o.It {
			if it.K == 'A' || it.K == 'T' {
				n++
			}
		}
		if cs, ok := chainOf(o.V); o.K == 'S' && ok {
			// after every one-letter variant; shorter chains, then fewer
			// non-null parameter entries, direct before indirect ones, first
			n += 3 + numStmVariants + 10*len(cs.chain) + len(cs.parms) - strings.Count(cs.parms, "n") + strings.Count(cs.parms, "P") + strings.Count(cs.parms, "E") + strings.Count(cs.parms, "N")
		} else if o.K == 'S' {
			n += 3 + o.V
		}
	}
	return n
}

// ---------------------------------------------------------------------------
// semantic view of the source: where does a reference lead

const (
	termNull  = -1 // resolves to null (dangling, free)
	termUndef = -2 // reference loop: malformed, the statement is silent
)

// terminal follows the chain of bare reference objects starting at a reference
// to object j. via lists the objects passed (including j and the terminal).
func (g Graph) terminal(j int) (t int, via []int) {
	seen := 0
	for {
		if seen&(1<<j) != 0 {
			return termUndef, via
		}
		seen |= 1 << j
		via = append(via, j)
		if g[j].K != 'r' {
			return j, via
		}
		it := g[j].It[0]
		if it.K != 'r' {
			return termNull, via // dangling, free, stale
		}
		j = it.R
	}
}

// itemTerminal resolves an item that is a reference (a stale reference, like
// a dangling one, leads to no object).
func (g Graph) itemTerminal(it Item) (int, []int) {
	if it.K == 'r' {
		return g.terminal(it.R)
	}
	return termNull, nil
}

// reach returns the bit set of objects reachable from the references in its.
func (g Graph) reachFromItems(its []Item) int {
	set := 0
	var visit func(j int)
	visit = func(j int) {
		if set&(1<<j) != 0 {
			return
		}
		set |= 1 << j
		for _, it := range g[j].It {
			if k, ok := it.edge(); ok {
				visit(k)
			}
		}
	}
	for _, it := range its {
		if k, ok := it.edge(); ok {
			visit(k)
		}
	}
	return set
}

func (g Graph) hasRefLoop(set int) bool {
	for j := range g {
		if set&(1<<j) != 0 && g[j].K == 'r' {
			if t, _ := g.terminal(j); t == termUndef {
				return true
			}
		}
	}
	return false
}

func (g Graph) hasUndecodableStream(set int) bool {
	for j := range g {
		if set&(1<<j) != 0 && g[j].K == 'S' && !stmDecodable(g[j].V) {
			return true
		}
	}
	return false
}

// weaklyConnected reports whether the graph is connected when edges are
// read without direction. A stale reference counts as an edge here (it is no
// edge of the source graph, but it ties the object it names into the case: a
// program can copy both).
func (g Graph) weaklyConnected() bool {
	n := len(g)
	adj := make([]int, n)
	for j, o := range g {
		for _, it := range o.It {
			if k, ok := it.mention(); ok {
				adj[j] |= 1 << k
				adj[k] |= 1 << j
			}
		}
	}
	seen, todo := 1, []int{0}
	for len(todo) > 0 {
		j := todo[len(todo)-1]
		todo = todo[:len(todo)-1]
		for k := 0; k < n; k++ {
			if adj[j]&(1<<k) != 0 && seen&(1<<k) == 0 {
				seen |= 1 << k
				todo = append(todo, k)
			}
		}
	}
	return seen == 1<<n-1
}

// ---------------------------------------------------------------------------
// enumeration

// alphabet describes the objects a graph of n objects may consist of.
type alphabet struct {
	name     string
	items    string // item kinds besides references to the n objects
	scalars  bool   // integer, string objects
	empties  bool   // [] and <<>> objects
	arr2     bool
	dict1    bool
	dict2    bool
	variants []int // stream variants
	stmBare  bool  // streams without /K entry
	bareDead bool  // bare references to dangling / free
	// stale: the item kind "stale reference to object j" for every object of
	// the graph, alone in a container, as a bare reference object, and in
	// two-item containers next to a live or stale reference (both orders)
	stale bool
	// nested: a direct array / dictionary holding a string or a reference to
	// an object of the graph, as the only item of a container or the /K entry
	// of a stream
	nested bool
	// parm-reference family: streams of these variants, the reference inside
	// the parameter dictionary leading to every object of the graph (the
	// stream itself included) or being one of the dead kinds parmDead; with
	// parmK also every such stream with an entry /K that refers to an object
	// of the graph (a second path to the node the parameters refer to)
	parmVariants []int
	parmDead     string
	parmK        bool
	// filter-chain family: streams of these variants, bare, and with chainK
	// also with an entry /K that refers to an object of the graph
	chainVariants []int
	chainK        bool
	// name family: for every name of the list a name object, the name as the
	// only element of an array, as the value and as the KEY of the only entry of
	// a dictionary and of a stream of the variants nameStm, and one level down
	// (a nested direct array holding the name, a nested direct dictionary
	// holding it as a value and as a key) inside an array, a dictionary and the
	// /K entry of such a stream
	names   []int
	nameStm []int
}

var rich = alphabet{name: "rich", items: "isnadxf", scalars: true, empties: true, arr2: true, dict1: true, dict2: true,
	variants: []int{0, 1, 2, 3, 4}, stmBare: true, bareDead: true, stale: true, nested: true}

// richNested is rich without stale references: for the spaces that multiply
// the value kinds with the encryption configurations (a stale reference is a
// matter of translating references, the same under every configuration).
var richNested = alphabet{name: "rich-nostale", items: "isnadxf", scalars: true, empties: true, arr2: true, dict1: true, dict2: true,
	variants: []int{0, 1, 2, 3, 4}, stmBare: true, bareDead: true, nested: true}

// richFlat is rich without stale references and nested containers (the
// 3-object product of rich is out of reach).
var richFlat = alphabet{name: "rich-flat", items: "isnadxf", scalars: true, empties: true, arr2: true, dict1: true, dict2: true,
	variants: []int{0, 1, 2, 3, 4}, stmBare: true, bareDead: true}

// lean keeps every way of linking objects and drops the value variety.
var lean = alphabet{name: "lean", items: "ix", scalars: true, arr2: true, dict1: true,
	variants: []int{0}, bareDead: true}

// mid is lean plus the value kinds whose translation is special.
var mid = alphabet{name: "mid", items: "inax", scalars: true, empties: true, arr2: true, dict1: true, dict2: false,
	variants: []int{0, 3}, stmBare: true, bareDead: true}

// spell is the alphabet of the filter spelling family: streams of every
// spelling variant (and the plain and /Filter /FlateDecode variants 0 and 1 as
// controls), bare, with a string entry, and with a reference entry.
var spell = alphabet{name: "filter-spellings", items: "s", variants: append([]int{stmPlain, stmFlate}, spellVariants...), stmBare: true}

// parmRefs is the alphabet of the parm-reference family: every variant, the
// reference inside the parameter dictionary live or dangling, without and
// with a /K reference; next to them the linking kinds (scalars, empty and
// small containers, plain streams, bare references).
var parmRefs = alphabet{name: "parm-refs", items: "ix", scalars: true, empties: true, arr2: true, dict1: true,
	variants: []int{stmPlain}, stmBare: true, parmVariants: parmVariants, parmDead: "x", parmK: true}

// parmRefsLean: the family cut down for three objects: the direct and the
// doubly indirect placement for both filters, plus a dictionary inside a direct
// array and an indirect dictionary for one filter each; live references only,
// no /K entry (a second path comes from the third object).
var parmRefsLean = alphabet{name: "parm-refs-lean", items: "ix", scalars: true, arr2: true, dict1: true,
	variants: []int{stmPlain}, bareDead: true,
	parmVariants: []int{parmVariant('F', 'd'), parmVariant('J', 'd'), parmVariant('F', 'B'), parmVariant('J', 'B'), parmVariant('J', 'a'), parmVariant('F', 'D')}}

// parmRefsNoK: the whole family without the /K entry (three objects: the
// second path comes from another object).
var parmRefsNoK = func() alphabet {
	a := parmRefs
	a.name, a.parmK = "parm-refs-nok", false
	return a
}()

// chains2, chains3: the filter-chain family with two and with three filters
// (and the plain stream as a control); chains2Linked adds the kinds that link
// a second object to such a stream (one-item arrays and dictionaries, plain
// streams with an entry, bare references), chains2LinkedK also gives the
// streams of the family an entry /K that refers to an object of the graph.
var chains2 = alphabet{name: "filter-chains-2", variants: []int{stmPlain}, stmBare: true, chainVariants: chainVariantsOfLen(2)}
var chains3 = alphabet{name: "filter-chains-3", variants: []int{stmPlain}, stmBare: true, chainVariants: chainVariantsOfLen(3)}
var chains2Linked = alphabet{name: "filter-chains-2-linked", dict1: true, variants: []int{stmPlain}, stmBare: true,
	chainVariants: chainVariantsOfLen(2)}
var chains2LinkedK = alphabet{name: "filter-chains-2-linked+K", dict1: true, variants: []int{stmPlain}, stmBare: true,
	chainVariants: chainVariantsOfLen(2), chainK: true}

// names is the alphabet of the name family: every name of the family in every
// placement (see alphabet.names), in plain streams, /FlateDecode streams and
// streams with an indirect /Length (the three ways the target writer emits a
// stream dictionary).
var names = alphabet{name: "names", names: allNames, nameStm: []int{stmPlain, stmFlate, stmIndLength}}

// leanStale, midStale: the same with stale references.
var leanStale = withStale(lean)
var midStale = withStale(mid)

func withStale(a alphabet) alphabet {
	a.name += "+stale"
	a.stale = true
	return a
}

func (a alphabet) itemList(n int) []Item {
	var its []Item
	for i := 0; i < len(a.items); i++ {
		its = append(its, Item{K: a.items[i]})
	}
	for j := 0; j < n; j++ {
		its = append(its, Item{'r', j})
	}
	if a.stale {
		for j := 0; j < n; j++ {
			its = append(its, Item{'g', j})
		}
	}
	return its
}

// nestedList lists the nested direct containers of the alphabet.
func (a alphabet) nestedList(n int) []Item {
	if !a.nested {
		return nil
	}
	var its []Item
	for _, k := range []byte{'A', 'T'} {
		its = append(its, Item{k, innerStr})
		for j := 0; j < n; j++ {
			its = append(its, Item{k, j})
		}
	}
	return its
}

// pairOK: which two items may share a container. A stale reference is only
// paired with a live or stale reference (its interaction is with the
// translation of references, not with values).
func pairOK(x, y Item) bool {
	if x.K == 'g' && !y.refLike() || y.K == 'g' && !x.refLike() {
		return false
	}
	return true
}

// kinds lists every object of the alphabet for a graph of n objects.
func (a alphabet) kinds(n int) []Obj {
	its := a.itemList(n)
	single := append(append([]Item{}, its...), a.nestedList(n)...)
	var out []Obj
	if a.scalars {
		out = append(out, Obj{K: 'i'}, Obj{K: 's'})
	} else {
		out = append(out, Obj{K: 'i'})
	}
	if a.empties {
		out = append(out, Obj{K: 'A'}, Obj{K: 'D'})
	}
	for _, x := range single {
		out = append(out, Obj{K: 'A', It: []Item{x}})
	}
	if a.arr2 {
		for _, x := range its {
			for _, y := range its {
				if pairOK(x, y) {
					out = append(out, Obj{K: 'A', It: []Item{x, y}})
				}
			}
		}
	}
	if a.dict1 {
		for _, x := range single {
			out = append(out, Obj{K: 'D', It: []Item{x}})
		}
	}
	if a.dict2 {
		for _, x := range its {
			for _, y := range its {
				if pairOK(x, y) {
					out = append(out, Obj{K: 'D', It: []Item{x, y}})
				}
			}
		}
	}
	for _, v := range a.variants {
		if a.stmBare {
			out = append(out, Obj{K: 'S', V: v})
		}
		for _, x := range single {
			if !a.stmBare && !x.refLike() {
				continue
			}
			out = append(out, Obj{K: 'S', V: v, It: []Item{x}})
		}
	}
	for _, v := range a.parmVariants {
		var ps []Item
		for j := 0; j < n; j++ {
			ps = append(ps, Item{'r', j})
		}
		for i := 0; i < len(a.parmDead); i++ {
			ps = append(ps, Item{K: a.parmDead[i]})
		}
		for _, p := range ps {
			out = append(out, Obj{K: 'S', V: v, It: []Item{p}})
			if a.parmK {
				for j := 0; j < n; j++ {
					out = append(out, Obj{K: 'S', V: v, It: []Item{p, {'r', j}}})
				}
			}
		}
	}
	for _, v := range a.chainVariants {
		out = append(out, Obj{K: 'S', V: v})
		if a.chainK {
			for j := 0; j < n; j++ {
				out = append(out, Obj{K: 'S', V: v, It: []Item{{'r', j}}})
			}
		}
	}
	for _, idx := range a.names {
		k, y := Item{'k', idx}, Item{'y', idx}
		nest := []Item{{'A', nestedNameBase - idx}, {'T', nestedNameBase - idx}, {'T', nestedKeyBase - idx}}
		out = append(out, Obj{K: 'q', It: []Item{k}}, Obj{K: 'A', It: []Item{k}}, Obj{K: 'D', It: []Item{k}}, Obj{K: 'D', It: []Item{y}})
		for _, v := range a.nameStm {
			out = append(out, Obj{K: 'S', V: v, It: []Item{k}}, Obj{K: 'S', V: v, It: []Item{y}})
		}
		for _, x := range nest {
			out = append(out, Obj{K: 'A', It: []Item{x}}, Obj{K: 'D', It: []Item{x}})
			for _, v := range a.nameStm {
				out = append(out, Obj{K: 'S', V: v, It: []Item{x}})
			}
		}
	}
	for j := 0; j < n; j++ {
		out = append(out, Obj{K: 'r', It: []Item{{'r', j}}})
	}
	if a.bareDead {
		out = append(out, Obj{K: 'r', It: []Item{{K: 'x'}}}, Obj{K: 'r', It: []Item{{K: 'f'}}})
	} else {
		out = append(out, Obj{K: 'r', It: []Item{{K: 'x'}}})
	}
	if a.stale {
		for j := 0; j < n; j++ {
			out = append(out, Obj{K: 'r', It: []Item{{'g', j}}})
		}
	}
	return out
}

// directValues lists the hand-made direct values of the 'V' call for a graph
// of n objects: values only a caller can build, because they contain Go nils
// that a Reader never returns: an entry or element that is nil ('n'), a nil
// pdf.Array ('N'), a nil pdf.Dict ('M'). Arrays and dictionaries with one
// item out of {n N M i, reference to an object of the graph, [n] [N] [M] <n>
// <N> <M> (the nils one level down)}, with two items out of {n N M i,
// references} in both orders, and the three bare values nil, pdf.Array(nil),
// pdf.Dict(nil).
func directValues(n int) []Obj {
	its := []Item{{K: 'n'}, {K: 'N'}, {K: 'M'}, {K: 'i'}}
	for j := 0; j < n; j++ {
		its = append(its, Item{'r', j})
	}
	single := append([]Item{}, its...)
	for _, k := range []byte{'A', 'T'} {
		for _, in := range []int{innerNull, innerNilArr, innerNilDict} {
			single = append(single, Item{k, in})
		}
	}
	out := []Obj{{K: 'n'}, {K: 'N'}, {K: 'M'}}
	for _, k := range []byte{'A', 'D'} {
		for _, x := range single {
			out = append(out, Obj{K: k, It: []Item{x}})
		}
		for _, x := range its {
			for _, y := range its {
				out = append(out, Obj{K: k, It: []Item{x, y}})
			}
		}
	}
	return out
}

// hasNilDictEntry: the direct value contains a dictionary entry whose Go
// value is nil (at the top or one level down).
func (o Obj) hasNilDictEntry() bool {
	for _, it := range o.It {
		if o.K == 'D' && it.K == 'n' || it.K == 'T' && it.R == innerNull {
			return true
		}
	}
	return false
}

// objKey is a total order key of an object under a relabelling.
func objKey(o Obj, perm []int) string {
	var b [8]byte
	k := b[:0]
	if o.V >= stmChainBase {
		// filter-chain family: the variant does not fit into one byte
		k = append(k, o.K, 0xFF, byte(o.V>>8), byte(o.V))
	} else {
		k = append(k, o.K, byte('0'+o.V))
	}
	for _, it := range o.It {
		if j, ok := it.mention(); ok {
			k = append(k, it.K, byte('0'+perm[j]))
		} else if it.K == 'k' || it.K == 'y' || it.R <= nestedNameBase {
			// name family: the member is part of the identity of the item
			k = append(k, it.K, '/', byte(it.R>>24), byte(it.R>>16), byte(it.R>>8), byte(it.R))
		} else {
			k = append(k, it.K, ' ')
		}
	}
	return string(k)
}

var perms = map[int][][]int{
	1: {{0}},
	2: {{0, 1}, {1, 0}},
	3: {{0, 1, 2}, {0, 2, 1}, {1, 0, 2}, {1, 2, 0}, {2, 0, 1}, {2, 1, 0}},
}

// canonical reports whether g is the least of its relabellings. With
// fixRoot only relabellings that keep object 0 are considered.
func (g Graph) canonical(fixRoot bool) bool {
	n := len(g)
	if n == 1 {
		return true
	}
	id := perms[n][0]
	self := make([]string, n)
	for j := range g {
		self[j] = objKey(g[j], id)
	}
	other := make([]string, n)
	for _, p := range perms[n][1:] {
		if fixRoot && p[0] != 0 {
			continue
		}
		for j := range g {
			other[p[j]] = objKey(g[j], p)
		}
		for j := 0; j < n; j++ {
			if other[j] < self[j] {
				return false
			}
			if other[j] > self[j] {
				break
			}
		}
	}
	return true
}
