#!/bin/bash
# Entry point of every manifest command:  ./run.sh <Cxx> quick|thorough   |  ./run.sh <Cxx> --replay <file>
#                                         ./run.sh setup | selftest | mutants <Cxx>
set -u
VERIF=$(cd "$(dirname "$0")" && pwd)
REPO=${VERIF_REPO:-/repo}
TC=/root/go/pkg/mod/golang.org/toolchain@v0.0.1-go1.25.0.linux-amd64/bin
export PATH=$TC:$PATH GOTOOLCHAIN=local GOFLAGS=-mod=mod GOPROXY=off GONOSUMDB='*' GONOSUMCHECK=1 GOFLAGS=-mod=mod
unset GOSUMDB 2>/dev/null || true
export GOSUMDB=off
BUILD=$VERIF/.build
mkdir -p "$BUILD" "$VERIF/evidence" "$VERIF/replays"

build() { # $1 = output name, $2 = extra overlay mode ("" | sched), $3.. = extra go build flags
  local out=$1 mode=$2; shift 2
  (cd "$VERIF/tools/mkoverlay" && go build -o "$BUILD/mkoverlay" . ) || { echo "mkoverlay build failed" >&2; exit 2; }
  "$BUILD/mkoverlay" -repo "$REPO" -verif "$VERIF" -mode "$mode" -out "$BUILD/overlay-$out.json" -gen "$BUILD/gen-$out" ${VERIF_MUTANT:+-mutant "$VERIF_MUTANT"} || { echo "mkoverlay failed" >&2; exit 2; }
  (cd "$REPO" && go build -tags verif -overlay "$BUILD/overlay-$out.json" "$@" -o "$BUILD/$out" ./zzverif/cmd/vcheck) || { echo "harness build failed" >&2; exit 2; }
}

cmd=${1:-}
case "$cmd" in
  setup)
    build vcheck "" && build vcheck-sched sched && build vcheck-race sched -race && echo "setup ok"
    exit $? ;;
  "")
    echo "usage: run.sh Cxx quick|thorough" >&2; exit 2 ;;
esac
shift
bin=vcheck; mode=""
case "$cmd" in
  C18) bin=vcheck-sched; mode=sched ;;
esac
build $bin "$mode"
if [ "$cmd" = C18 ]; then build vcheck-race sched -race; fi
cd "$VERIF"
export VERIF_DIR=$VERIF VERIF_REPO=$REPO VERIF_BIN=$BUILD/$bin VERIF_RACE_BIN=$BUILD/vcheck-race
exec "$BUILD/$bin" "$cmd" "$@"
