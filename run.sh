#!/bin/bash
# Entry point of every manifest command:  ./run.sh <Cxx> quick|thorough   |  ./run.sh <Cxx> --replay <file>
#                                         ./run.sh setup | selftest | mutants <Cxx>
set -u
VERIF=$(cd "$(dirname "$0")" && pwd)
REPO=${VERIF_REPO:-/repo}
TC=/root/go/pkg/mod/golang.org/toolchain@v0.0.1-go1.25.0.linux-amd64/bin
export PATH=$TC:$PATH GOTOOLCHAIN=local GOFLAGS=-mod=mod GOPROXY=off GONOSUMDB='*' GONOSUMCHECK=1 GOFLAGS=-mod=mod
unset GOSUMDB 2>/dev/null || true
export GOSUMDB=off
BUILD=$VERIF/.build
mkdir -p "$BUILD" "$VERIF/evidence" "$VERIF/replays"

build() { # $1 = output name, $2 = extra overlay mode ("" | sched), $3.. = extra go build flags
  local out=$1 mode=$2; shift 2
  (cd "$VERIF/tools/mkoverlay" && go build -o "$BUILD/mkoverlay" . ) || { echo "mkoverlay build failed" >&2; exit 2; }
  "$BUILD/mkoverlay" -repo "$REPO" -verif "$VERIF" -mode "$mode" -out "$BUILD/overlay-$out.json" -gen "$BUILD/gen-$out" ${VERIF_MUTANT:+-mutant "$VERIF_MUTANT"} || { echo "mkoverlay failed" >&2; exit 2; }
  (cd "$REPO" && go build -tags verif -overlay "$BUILD/overlay-$out.json" "$@" -o "$BUILD/$out" ./zzverif/cmd/vcheck) || { echo "harness build failed" >&2; exit 2; }
}

# prepare_mutant <dir-with-patch.diff>: copies the files the patch touches from
# the current /repo tree, applies the patch to the copies, and points
# VERIF_MUTANT at the result (an overlay layer; /repo itself is not edited).
prepare_mutant() {
  local src=$1 name; name=$(basename "$(dirname "$src")")-$(basename "$src")
  local dst=$BUILD/mut/$name
  rm -rf "$dst"; mkdir -p "$dst/files"
  for f in $(grep '^+++ b/' "$src/patch.diff" | sed 's#^+++ b/##'); do
    mkdir -p "$dst/files/$(dirname "$f")"
    [ -f "$REPO/$f" ] && cp "$REPO/$f" "$dst/files/$f"
  done
  (cd "$dst/files" && patch -s -p1 < "$src/patch.diff") || { echo "mutant patch does not apply: $src" >&2; exit 2; }
  echo "$dst"
}

cmd=${1:-}
case "$cmd" in
  mutant)
    # ./run.sh mutant <Cxx> <name> : (a) the repository's own tests of the affected packages must
    # still pass with the change, (b) the quick check must report a violation.
    id=$2; name=$3; src=$VERIF/mutants/$id/$name
    [ -f "$src/patch.diff" ] || { echo "no such mutant: $src" >&2; exit 2; }
    dst=$(prepare_mutant "$src") || exit 2
    (cd "$VERIF/tools/mkoverlay" && go build -o "$BUILD/mkoverlay" . ) || exit 2
    "$BUILD/mkoverlay" -repo "$REPO" -verif "$VERIF" -mode "" -out "$BUILD/overlay-mut.json" -gen "$BUILD/gen-mut" -mutant "$dst" -only-mutant || exit 2
    pk=$(jq -r '.packages|join(" ")' "$src/meta.json")
    echo "== repository tests with mutant $id/$name ($pk)"
    if [ "${VERIF_SKIP_TESTS:-}" != 1 ]; then
      (cd "$REPO" && go test -vet=off -count=1 -overlay "$BUILD/overlay-mut.json" $pk 2>&1 | grep -v "no test files" | tail -15; exit ${PIPESTATUS[0]}) || { echo "MUTANT-RESULT $id/$name: repository tests FAIL with this mutant (not a valid mutant)"; exit 3; }
    fi
    echo "== check $id quick with mutant"
    tier=${4:-quick}
    VERIF_MUTANT=$dst VERIF_EVIDENCE_DIR=$BUILD/mut-evidence "$0" "$id" $tier > "$BUILD/mut-$id-$name.log" 2>&1; rc=$?
    grep -E "VIOLATION|^\[|KNOWN" "$BUILD/mut-$id-$name.log" | head -8
    if [ $rc = 1 ] && grep -q "^VIOLATION property=$id " "$BUILD/mut-$id-$name.log"; then echo "MUTANT-RESULT $id/$name: DETECTED"; exit 0; fi
    echo "MUTANT-RESULT $id/$name: MISSED (exit $rc)"; exit 1 ;;
  setup)
    build vcheck "" && build vcheck-sched sched && build vcheck-race sched -race && echo "setup ok"
    exit $? ;;
  "")
    echo "usage: run.sh Cxx quick|thorough" >&2; exit 2 ;;
esac
shift
bin=vcheck; mode=""
case "$cmd" in
  C18) bin=vcheck-sched; mode=sched ;;
esac
build $bin "$mode"
if [ "$cmd" = C18 ]; then build vcheck-race sched -race; fi
cd "$VERIF"
export VERIF_DIR=$VERIF VERIF_REPO=$REPO VERIF_BIN=$BUILD/$bin VERIF_RACE_BIN=$BUILD/vcheck-race
exec "$BUILD/$bin" "$cmd" "$@"
