#!/bin/bash
# tools/seedintake6.sh <Cxx>...   round 6: takes /tmp/seedout6/<Cxx>/<Cxx>a.* into seeded/<Cxx>k/, validates it in a
# scratch worktree (STEP=1), then applies it to /repo itself, runs the quick check and undoes it (STEP=2, sequential).
cd /verif
for id in "$@"; do
  src=/tmp/seedout6/$id; d=seeded/${id}k
  [ -f $src/${id}a.patch.diff ] || { echo "$id: nothing delivered"; continue; }
  mkdir -p $d
  cp $src/${id}a.patch.diff $d/patch.diff
  cp $src/${id}a_demo_test.go $d/${id}k_demo_test.go
  cp $src/${id}a.meta.json $d/agent-meta.json
  STEP=1 SEEDSRC=/nonexistent tools/seedtest.sh $id k > $d/validation.log 2>&1
  echo "--- $id validation"; grep -A3 "^== " $d/validation.log | grep -v "^--$" | head -14
done
for id in "$@"; do
  d=seeded/${id}k; [ -f $d/patch.diff ] || continue
  STEP=2 SEEDSRC=/nonexistent tools/seedtest.sh $id k > $d/check.log 2>&1
  grep "^SEED" $d/check.log
  git -C /repo status --short | head -3
done
