#!/bin/bash
# tools/mutsweep.sh [Cxx ...]   -- runs every mutant of the given checks (default: all) through
# `./run.sh mutant`, one after the other, and records DETECTED / MISSED in mutants/RESULTS.json.
# Works from any copy of /verif (e.g. a `vp run` snapshot): results land in that copy.
cd "$(dirname "$0")/.."
ids=${*:-$(ls mutants | grep '^C')}
for id in $ids; do
  for d in mutants/$id/*/; do
    name=$(basename "$d")
    out=$(./run.sh mutant $id $name 2>&1 | grep "MUTANT-RESULT" | tail -1)
    res=$(echo "$out" | sed -n 's/.*: \([A-Z-]*\).*/\1/p'); [ -n "$res" ] || res=ERROR
    echo "$id/$name $res"
    python3 - "$id/$name" "$res" <<'PY'
import json, sys, os, subprocess
p = 'mutants/RESULTS.json'
r = json.load(open(p)) if os.path.exists(p) else {}
r[sys.argv[1]] = {"result": sys.argv[2], "repo": subprocess.run(['git', '-C', os.environ.get('VERIF_REPO', '/repo'), 'rev-parse', '--short', 'HEAD'], capture_output=True, text=True).stdout.strip()}
json.dump(r, open(p, 'w'), indent=1, sort_keys=True)
PY
  done
done
