module mkoverlay

go 1.25.0
