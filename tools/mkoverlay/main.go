// mkoverlay writes the `go build -overlay` file that compiles the harness in
// /verif/src inside the repository's module (as seehuhn.de/go/pdf/zzverif/...)
// without touching /repo.
//
//   - every file below <verif>/src/<dir>/  ->  <repo>/zzverif/<dir>/
//   - every file below <verif>/src/export/<pkgpath>/zz_*.go -> <repo>/<pkgpath>/zz_*.go
//     (verif-tagged additions to repository packages)
//   - mode "sched": the files listed in schedFiles are replaced by copies
//     generated from the current working tree in which the import "sync" is
//     redirected to the vsync shim and the channel operations are routed
//     through vsync helpers.  Unknown synchronisation constructs abort.
//   - -mutant <dir>: every file below <dir>/files/ replaces the repository file
//     with the same relative path (used to demonstrate detection).
package main

import (
	"bytes"
	"encoding/json"
	"flag"
	"fmt"
	"go/ast"
	"go/format"
	"go/parser"
	"go/token"
	"os"
	"path/filepath"
	"strconv"
	"strings"
)

var schedFiles = []string{
	"resource.go",
	"cursor.go",
	"filter.go",
	"font/cmap/predefined.go",
	"font/mapping/mapping.go",
}

const vsyncPath = "seehuhn.de/go/pdf/zzverif/engine/vsync"

func main() {
	repo := flag.String("repo", "/repo", "")
	verif := flag.String("verif", "/verif", "")
	mode := flag.String("mode", "", "")
	out := flag.String("out", "", "")
	gen := flag.String("gen", "", "directory for generated files")
	mutant := flag.String("mutant", "", "")
	onlyMutant := flag.Bool("only-mutant", false, "leave the harness out (for running the repository's own tests with a mutant)")
	flag.Parse()

	replace := map[string]string{}
	src := filepath.Join(*verif, "src")
	err := filepath.Walk(src, func(p string, info os.FileInfo, err error) error {
		if err != nil {
			return err
		}
		if info.IsDir() || *onlyMutant {
			return nil
		}
		rel, _ := filepath.Rel(src, p)
		if strings.HasPrefix(rel, "export"+string(filepath.Separator)) {
			rel2 := strings.TrimPrefix(rel, "export"+string(filepath.Separator))
			// "_root" stands for the module root package
			rel2 = strings.TrimPrefix(rel2, "_root"+string(filepath.Separator))
			replace[filepath.Join(*repo, rel2)] = p
			return nil
		}
		if !strings.HasSuffix(p, ".go") && !strings.HasSuffix(p, ".s") {
			// data files (embed) are mapped as well
		}
		replace[filepath.Join(*repo, "zzverif", rel)] = p
		return nil
	})
	if err != nil {
		fatal(err)
	}

	mutated := map[string]string{}
	if *mutant != "" {
		mdir := filepath.Join(*mutant, "files")
		err := filepath.Walk(mdir, func(p string, info os.FileInfo, err error) error {
			if err != nil {
				return err
			}
			if info.IsDir() {
				return nil
			}
			rel, _ := filepath.Rel(mdir, p)
			mutated[rel] = p
			replace[filepath.Join(*repo, rel)] = p
			return nil
		})
		if err != nil {
			fatal(err)
		}
	}

	if *mode == "sched" {
		if err := os.MkdirAll(*gen, 0o755); err != nil {
			fatal(err)
		}
		for _, f := range schedFiles {
			in := filepath.Join(*repo, f)
			if m, ok := mutated[f]; ok {
				in = m
			}
			data, err := os.ReadFile(in)
			if err != nil {
				fatal(err)
			}
			res, err := rewriteSync(f, data)
			if err != nil {
				fatal(fmt.Errorf("%s: %w", f, err))
			}
			outName := filepath.Join(*gen, strings.ReplaceAll(f, "/", "__"))
			if old, err := os.ReadFile(outName); err != nil || !bytes.Equal(old, res) {
				if err := os.WriteFile(outName, res, 0o644); err != nil {
					fatal(err)
				}
			}
			replace[filepath.Join(*repo, f)] = outName
		}
	}

	data, _ := json.MarshalIndent(map[string]any{"Replace": replace}, "", " ")
	if err := os.WriteFile(*out, data, 0o644); err != nil {
		fatal(err)
	}
}

func fatal(err error) {
	fmt.Fprintln(os.Stderr, "mkoverlay:", err)
	os.Exit(2)
}

// rewriteSync redirects "sync" to the vsync shim and routes channel
// operations on chan struct{} through vsync helpers.
func rewriteSync(name string, data []byte) ([]byte, error) {
	fset := token.NewFileSet()
	f, err := parser.ParseFile(fset, name, data, parser.ParseComments)
	if err != nil {
		return nil, err
	}

	usesSync := false
	for _, imp := range f.Imports {
		p, _ := strconv.Unquote(imp.Path.Value)
		switch p {
		case "sync":
			imp.Path.Value = strconv.Quote(vsyncPath)
			imp.Name = ast.NewIdent("sync")
			usesSync = true
		case "sync/atomic":
			return nil, fmt.Errorf("sync/atomic is not modelled by the scheduler")
		}
	}

	needVsync := false
	var rerr error
	fail := func(n ast.Node, what string) {
		if rerr == nil {
			rerr = fmt.Errorf("%s: unsupported synchronisation construct: %s", fset.Position(n.Pos()), what)
		}
	}
	call := func(fn string, args ...ast.Expr) *ast.CallExpr {
		needVsync = true
		return &ast.CallExpr{
			Fun:  &ast.SelectorExpr{X: ast.NewIdent("vsyncshim"), Sel: ast.NewIdent(fn)},
			Args: args,
		}
	}

	var rewrite func(n ast.Node) ast.Node
	replaceExpr := func(e ast.Expr) ast.Expr {
		switch x := e.(type) {
		case *ast.UnaryExpr:
			if x.Op == token.ARROW {
				return call("Recv", x.X)
			}
		case *ast.CallExpr:
			if id, ok := x.Fun.(*ast.Ident); ok {
				if id.Name == "make" && len(x.Args) >= 1 {
					if ch, ok := x.Args[0].(*ast.ChanType); ok {
						if st, ok := ch.Value.(*ast.StructType); ok && len(st.Fields.List) == 0 && len(x.Args) == 1 {
							return call("MakeChan")
						}
						fail(x, "make(chan ...) other than unbuffered chan struct{}")
					}
				}
				if id.Name == "close" && len(x.Args) == 1 {
					return call("Close", x.Args[0])
				}
			}
		}
		return e
	}
	_ = rewrite

	// generic expression replacement through ast.Inspect + parent fix-up
	ast.Inspect(f, func(n ast.Node) bool {
		switch x := n.(type) {
		case *ast.SelectStmt:
			fail(x, "select")
		case *ast.SendStmt:
			fail(x, "channel send")
		case *ast.GoStmt:
			fail(x, "go statement in a scheduled file")
		case *ast.RangeStmt:
			// range over channel cannot be detected syntactically; channel types
			// other than chan struct{} are rejected at make()
		case *ast.ExprStmt:
			x.X = replaceExpr(x.X)
		case *ast.AssignStmt:
			for i := range x.Rhs {
				x.Rhs[i] = replaceExpr(x.Rhs[i])
			}
		case *ast.KeyValueExpr:
			x.Value = replaceExpr(x.Value)
		case *ast.ValueSpec:
			for i := range x.Values {
				x.Values[i] = replaceExpr(x.Values[i])
			}
		case *ast.ReturnStmt:
			for i := range x.Results {
				x.Results[i] = replaceExpr(x.Results[i])
			}
		case *ast.CallExpr:
			for i := range x.Args {
				x.Args[i] = replaceExpr(x.Args[i])
			}
		}
		return true
	})
	if rerr != nil {
		return nil, rerr
	}

	// any remaining receive or close means a position the pass does not know
	ast.Inspect(f, func(n ast.Node) bool {
		switch x := n.(type) {
		case *ast.UnaryExpr:
			if x.Op == token.ARROW {
				fail(x, "channel receive in unsupported position")
			}
		case *ast.CallExpr:
			if id, ok := x.Fun.(*ast.Ident); ok && id.Name == "close" {
				fail(x, "close in unsupported position")
			}
		}
		return true
	})
	if rerr != nil {
		return nil, rerr
	}

	if needVsync {
		// add a second import spec for the helper functions
		spec := &ast.ImportSpec{Name: ast.NewIdent("vsyncshim"), Path: &ast.BasicLit{Kind: token.STRING, Value: strconv.Quote(vsyncPath)}}
		for _, d := range f.Decls {
			if gd, ok := d.(*ast.GenDecl); ok && gd.Tok == token.IMPORT {
				gd.Specs = append(gd.Specs, spec)
				if !gd.Lparen.IsValid() {
					gd.Lparen = gd.Pos()
					gd.Rparen = gd.End()
				}
				break
			}
		}
	}
	_ = usesSync

	var buf bytes.Buffer
	if err := format.Node(&buf, fset, f); err != nil {
		return nil, err
	}
	return buf.Bytes(), nil
}
