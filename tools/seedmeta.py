#!/usr/bin/env python3
"""Writes seeded/<id>/meta.json from the agent's description, the validation log and seeded/RESULTS.json
(the table of check runs against each change, maintained by hand from tools/seedtest.sh output)."""
import json, os, glob
root = os.path.dirname(os.path.dirname(os.path.abspath(__file__)))
results = json.load(open(root + '/seeded/RESULTS.json'))
for d in sorted(glob.glob(root + '/seeded/C*')):
    name = os.path.basename(d)
    am = json.load(open(d + '/agent-meta.json'))
    val = open(d + "/validation.log").read() if os.path.exists(d + "/validation.log") else ""
    ok_without = 'demo without the change\nok' in val
    fail_with = '--- FAIL' in val or 'panic' in val
    suite_clean = val.split('full test suite with the change')[1].count('\n') <= 2 if 'full test suite with the change' in val else False
    res = results.get(name, {})
    meta = {
        "id": name,
        "property": am.get("property", name[:3]),
        "written_by": "independent sub-agent that saw only the property text and a scratch worktree of /repo",
        "summary": am.get("summary"),
        "needs_to_manifest": am.get("needs"),
        "files": am.get("files"),
        "validated": {
            "demo_passes_without_change": ok_without,
            "demo_fails_with_change": fail_with,
            "repository_suite_passes_with_change": suite_clean,
            "how": "tools/seedtest.sh (STEP=1): scratch worktree of /repo HEAD, demo test run before and after `git apply patch.diff`, then `go test -vet=off -count=1 ./...` with the change (only the two viewer-tests packages that do not build on the pinned tree either are ignored)",
        },
        "checks_run": res.get("runs", []),
        "first_round": res.get("first_round"),
        "status": res.get("status"),
        "strengthening": res.get("strengthening"),
    }
    json.dump(meta, open(d + '/meta.json', 'w'), indent=1)
print("ok")
