#!/usr/bin/env python3
"""Prints the markdown table of section 12.1 of DESIGN.md from mutants/ and mutants/RESULTS.json."""
import json, glob, os
root = os.path.dirname(os.path.dirname(os.path.abspath(__file__)))
res = json.load(open(root + '/mutants/RESULTS.json')) if os.path.exists(root + '/mutants/RESULTS.json') else {}
print("| id | mutants (result of the last sweep, `tools/mutsweep.sh`) |")
print("|---|---|")
for d in sorted(glob.glob(root + '/mutants/C*')):
    cid = os.path.basename(d)
    items = []
    for m in sorted(glob.glob(d + '/*/')):
        name = os.path.basename(m.rstrip('/'))
        r = res.get(cid + '/' + name, {}).get('result', 'not run')
        items.append(name if r == 'DETECTED' else f"{name} (**{r}**)")
    print(f"| {cid} | {', '.join(items)} |")
