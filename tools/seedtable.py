#!/usr/bin/env python3
"""Prints the markdown table of section 12.2 of DESIGN.md from seeded/*/meta.json."""
import json, glob, os
root = os.path.dirname(os.path.dirname(os.path.abspath(__file__)))
print("| change | what it breaks / what it needs | first run | now |")
print("|---|---|---|---|")
for d in sorted(glob.glob(root + '/seeded/C*')):
    m = json.load(open(d + '/meta.json'))
    s = (m.get('summary') or '').replace('|', '/').replace('\n', ' ')
    if len(s) > 230: s = s[:227] + '…'
    runs = m.get('checks_run') or []
    r0 = min([r['round'] for r in runs], default=1)
    first = [r for r in runs if r['round'] == r0]
    fr = ', '.join(f"{r['check']}: {r['result'].lower()}" for r in first)
    later = sorted(set(f"{r['check']}" for r in runs if r['result'] == 'DETECTED'))
    missed = sorted(set(r['check'] for r in runs if r['result'] == 'MISSED') - set(later))
    now = ('detected by ' + ', '.join(later)) if later else 'MISSED'
    if missed and later: now += ' (not by ' + ', '.join(missed) + ')'
    print(f"| {m['id']} | {s} | {fr} | {now} |")
