#!/bin/bash
# tools/seedtest.sh <Cxx> <tag> [checks...]   e.g. tools/seedtest.sh C12 a   or  tools/seedtest.sh C12 a C12 C13
# Verifies one independently written property-breaking change (from /tmp/seedout/<Cxx>/<Cxx><tag>.*):
#  1. in a scratch worktree: the demo test passes without the change and fails with it; the full test suite still passes with it
#  2. applies it to /repo, runs the quick check(s), and undoes it straight away
# Prints a one-line verdict per step.  Nothing is committed anywhere.
set -u
id=$1; tag=$2; shift 2
checks=${*:-$id}
src=/tmp/seedout/$id
patch=$src/$id$tag.patch.diff; demo=$src/$id${tag}_demo_test.go
[ -f "$patch" ] || { echo "no patch $patch"; exit 2; }
export PATH=/root/go/pkg/mod/golang.org/toolchain@v0.0.1-go1.25.0.linux-amd64/bin:$PATH GOTOOLCHAIN=local GOFLAGS=-mod=mod GOPROXY=off
wt=/tmp/seedverify-$id$tag
git -C /repo worktree remove --force $wt 2>/dev/null; rm -rf $wt
git -C /repo worktree add -q $wt HEAD || exit 2
trap 'git -C /repo worktree remove --force '$wt' 2>/dev/null; git -C /repo checkout -- . 2>/dev/null' EXIT
place=$(head -1 "$demo" | sed -n 's#.*place in: *\([^ ]*\).*#\1#p'); place=${place%/}
[ -n "$place" ] || place=.
cp "$demo" "$wt/$place/zz_seed_demo_test.go"
runfilter=$(grep -o '^func Test[A-Za-z0-9_]*' "$demo" | sed 's/func //' | paste -sd'|')
extra=""; grep -q '"needs_race"\s*:\s*true\|go test -race' "$src/$id$tag.meta.json" 2>/dev/null && extra="-race"
echo "== demo without the change"
(cd $wt && go test -vet=off -count=1 $extra -run "^($runfilter)\$" ./$place 2>&1 | tail -3); r0=${PIPESTATUS[0]}
(cd $wt && git apply "$patch") || { echo "SEED $id$tag: patch does not apply"; exit 2; }
echo "== demo with the change"
(cd $wt && go test -vet=off -count=1 $extra -run "^($runfilter)\$" ./$place 2>&1 | tail -5)
rm -f "$wt/$place/zz_seed_demo_test.go"
echo "== full test suite with the change"
(cd $wt && go build ./... 2>&1 | grep -v "movie.mp4\|viewer-tests" | head -5; go test -vet=off -count=1 ./... 2>&1 | grep -v "^ok\|no test files\|viewer-tests\|movie.mp4\|^FAIL$" | head -10)
echo "== checks on /repo with the change"
git -C /repo apply "$patch" || { echo "SEED $id$tag: does not apply to /repo"; exit 2; }
for c in $checks; do
  out=$(cd /verif && VERIF_EVIDENCE_DIR=/verif/.build/seed-evidence VERIF_NO_RACE_PASS=${VERIF_NO_RACE_PASS:-} ./run.sh $c ${TIER:-quick} 2>&1); rc=$?
  echo "$out" | grep -E "^\[|^  " | cut -c1-260 | head -6
  if [ $rc = 1 ] && echo "$out" | grep -q "^VIOLATION property=$c "; then echo "SEED $id$tag vs $c: DETECTED"; else echo "SEED $id$tag vs $c: MISSED (exit $rc)"; fi
done
git -C /repo checkout -- .
