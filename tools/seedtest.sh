#!/bin/bash
# tools/seedtest.sh <Cxx> <tag> [checks...]      (STEP=1: only validate the change; STEP=2: only run the checks)
# Verifies one independently written property-breaking change (/tmp/seedout/<Cxx>/<Cxx><tag>.* or seeded/<Cxx><tag>/):
#  1. in a scratch worktree: the demo test passes without the change and fails with it; the full test suite still passes with it
#  2. applies it to /repo (git apply), runs the quick check(s), and undoes it straight away (git checkout -- .)
set -u
id=$1; tag=$2; shift 2
checks=${*:-$id}
src=${SEEDSRC:-/tmp/seedout/$id}
patch=$src/$id$tag.patch.diff; demo=$src/$id${tag}_demo_test.go
[ -f "$patch" ] || { patch=/verif/seeded/$id$tag/patch.diff; demo=$(ls /verif/seeded/$id$tag/*_demo_test.go | head -1); }
[ -f "$patch" ] || { echo "no patch for $id$tag"; exit 2; }
export PATH=/root/go/pkg/mod/golang.org/toolchain@v0.0.1-go1.25.0.linux-amd64/bin:$PATH GOTOOLCHAIN=local GOFLAGS=-mod=mod GOPROXY=off
step=${STEP:-all}
if [ "$step" != 2 ]; then
  wt=/tmp/seedverify-$id$tag
  git -C /repo worktree remove --force $wt 2>/dev/null; rm -rf $wt
  git -C /repo worktree add -q $wt HEAD || exit 2
  place=$(head -1 "$demo" | sed -n 's#.*place in: *\([^ ]*\).*#\1#p'); place=${place%/}
  [ -n "$place" ] && [ -d "$wt/$place" ] || place=.
  cp "$demo" "$wt/$place/zz_seed_demo_test.go"
  runfilter=$(grep -o '^func Test[A-Za-z0-9_]*' "$demo" | sed 's/func //' | paste -sd'|')
  echo "== $id$tag demo without the change"
  (cd $wt && go test -vet=off -count=1 -run "^($runfilter)\$" ./$place 2>&1 | tail -2)
  if (cd $wt && git apply "$patch"); then
    echo "== $id$tag demo with the change"
    (cd $wt && go test -vet=off -count=1 -run "^($runfilter)\$" ./$place 2>&1 | grep -E "^(--- FAIL|FAIL|ok|panic)" | head -4)
    rm -f "$wt/$place/zz_seed_demo_test.go"
    echo "== $id$tag full test suite with the change (only unexpected lines are shown)"
    (cd $wt && go test -vet=off -count=1 ./... 2>&1 | grep -v "^ok\|no test files\|viewer-tests\|movie.mp4\|^FAIL$" | head -10)
    echo "== $id$tag step 1 done"
  else
    echo "SEED $id$tag: patch does not apply"
  fi
  git -C /repo worktree remove --force $wt 2>/dev/null
fi
[ "$step" = 1 ] && exit 0
if [ -n "${SEEDWT:-}" ]; then
  # development mode: apply to a scratch worktree and point the checks at it (leaves /repo alone)
  git -C $SEEDWT checkout -- . ; git -C $SEEDWT apply "$patch" || { echo "SEED $id$tag: does not apply to $SEEDWT"; exit 2; }
  export VERIF_REPO=$SEEDWT
  echo "== $id$tag checks on $SEEDWT with the change"
else
echo "== $id$tag checks on /repo with the change"
git -C /repo apply "$patch" || { echo "SEED $id$tag: does not apply to /repo"; exit 2; }
fi
for c in $checks; do
  out=$(cd /verif && VERIF_EVIDENCE_DIR=/verif/.build/seed-evidence ./run.sh $c ${TIER:-quick} 2>&1); rc=$?
  echo "$out" | grep -E "^\[C|^  " | cut -c1-300 | head -5
  if [ $rc = 1 ] && echo "$out" | grep -q "^VIOLATION property=$c "; then echo "SEED $id$tag vs $c: DETECTED"; else echo "SEED $id$tag vs $c: MISSED (exit $rc)"; fi
done
if [ -n "${SEEDWT:-}" ]; then git -C $SEEDWT checkout -- .; else git -C /repo checkout -- .; fi
