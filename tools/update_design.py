#!/usr/bin/env python3
"""Regenerates the seed table of DESIGN.md 12.2 from seeded/*/meta.json."""
import subprocess, os, re
root = os.path.dirname(os.path.dirname(os.path.abspath(__file__)))
tab = subprocess.run(['python3', root + '/tools/seedtable.py'], capture_output=True, text=True).stdout
p = root + '/DESIGN.md'
s = open(p).read()
s = re.sub(r'<!-- SEEDTABLE-BEGIN -->.*?<!-- SEEDTABLE-END -->', lambda m: '<!-- SEEDTABLE-BEGIN -->\n' + tab + '<!-- SEEDTABLE-END -->', s, flags=re.S)
reach = subprocess.run(['python3', root + '/tools/reachtable.py'], capture_output=True, text=True).stdout
s = re.sub(r'<!-- REACHTABLE-BEGIN -->.*?<!-- REACHTABLE-END -->', lambda m: '<!-- REACHTABLE-BEGIN -->\n' + reach + '<!-- REACHTABLE-END -->', s, flags=re.S)
mut = subprocess.run(['python3', root + '/tools/muttable.py'], capture_output=True, text=True).stdout
s = re.sub(r'<!-- MUTTABLE-BEGIN -->.*?<!-- MUTTABLE-END -->', lambda m: '<!-- MUTTABLE-BEGIN -->\n' + mut + '<!-- MUTTABLE-END -->', s, flags=re.S)
open(p, 'w').write(s)
print('design updated')
