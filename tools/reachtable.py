#!/usr/bin/env python3
"""Prints the table of DESIGN.md 10.2 from evidence/*.json and the descriptions below."""
import json, os
root = os.path.dirname(os.path.dirname(os.path.abspath(__file__)))
WHAT = {
 "C01": "1 895 names and 69 103 strings x 3 option sets; 40x40 pairs x 32 option sets; 24^3 triples; trees with 1-4 leaves, depth <= 3 (up to 15 146 shapes); nesting to 255; wide containers (2..1000 siblings of every atom); 21 x 21 pairs of long strings (1..1100 bytes, hex / literal / escaped, no common prefix); ~5 000 numbers by digit structure (1-19 significant digits at every decimal-point position, neighbours of 2^53 and 2^63)",
 "C02": "all programs of <= 1 operation x dev <= 1 over the 9 x 2 x 2 x 4 configuration matrix; <= 2 operations x dev <= 1 on a non-seekable 1.7 and a seekable RC4 1.4 configuration; <= 2 operations x dev 0 on 4 + 2 human-readable + encrypted representatives; Catalog/Info profiles (minimal, every admissible field, explicit defaults) x 9 versions x {plain, encrypted}; operations include Put of a stream object while a stream is open, a 300-member object stream, generation 65535, a hand-made reference with the next free number, a multi-KiB value with strings at depth 1-3; a fixed set of refused calls on other Writers runs before every program; every argument incl. the byte slices given to Write is compared after Close; every Catalog and Info field is compared",
 "C03": "the same programs (without hand-made references), judged by ref/pdffile + ref/stdsec + independent codecs",
 "C04": "81 x 3 one-revision histories x 421 renderings (all knob pairs); 2 rev x 2 obj x 9 kind vectors x 22 renderings; 2 rev x 4 obj and 3 rev x 2 obj x all kind vectors x {default, objstm}; the 2- and 3-revision histories again with free entries of generation 65535; trailer entries of newest and of older revisions; 4 bodies x 11 length defects x 21 renderings; every body length 0..2200 x 4 defects x 2 EOLs; every spelling of 40 strings over {a, LF, CR} as a literal string (raw EOLs, escapes, <= 1 line continuation)",
 "C05": "4 seeds x every single mutation of the menu (incl. string lengths) x 4 open modes; crafted hostile structures (10 recursive structures x 36 link patterns x sizes 1..24 and up to 1000); crafted forms (/AcroForm wired to 54 values x widgets on 1-3 pages); one stream per filter chain of length <= 3 x 5 payloads; 11 k LZW table-state streams; crafted cross-reference wirings and /Length wirings, each also behind 1..1000 bytes of prefix; all pairs of link rewirings on the first seed",
 "C06": "predictor grid, LZW boundaries, CCITT parameter product with all small bitmaps, 166 chains, chunkings (every cut into <= 3 writes through an overwritten transfer buffer), long runs (2^10..2^20 and 5 000 000 equal bytes), wide CCITT rows on the make-up code boundaries (notes/C06.md)",
 "C07": "the C06 spaces restricted to algorithms with a second implementation, both directions; chunked writes; long runs and wide CCITT rows; independent encoders' output read through 1-7 byte buffers",
 "C08": "306 seeds (also through pdf.ReadAll with 3 limits), 433 k byte mutations, 9.5 k header claims, 630 bombs, 47 k parameter-dictionary corruptions, 95 k chains of length <= 2, all 11^3 chains of length 3, 39 k LZW table-state bodies, 226 k JBIG2 segment programs, 49 k JBIG2 parameter programs, 127 k JBIG2 symbol-dictionary programs and cuts, 76 k progressive-JPEG scan programs, 49 k JPEG frame products",
 "C09": "14 x 14 password pairs x 9 versions x 3 metadata modes x 15 try-passwords; 128 permission sets x 9 versions x 3 pairs; 2 bounds x 14 boundary passwords x 3 roles x 9 versions x 71 tries; 361 stream/string lengths x 4 write x 5 read chunkings x 9 versions; aliasing family; strings at depth 0-2 of arrays and dictionaries of 29 widths (1..1025) x 4 write routes x 8 versions",
 "C10": "Writer files judged by ref/stdsec (password pairs x versions x metadata x IDs x permissions x (number, generation) pairs x 271 write orders; 48 passwords by length structure per truncation bound), reference files opened by the Reader (11 handler configurations)",
 "C11": "20 spaces of source graphs (incl. stale-generation references, both spellings of one-element filter chains, references inside /DecodeParms, 6 192 filter chains of length 2-3 with every per-position parameter entry, hand-made direct values with nil entries) x BFS over Copy/CopyReference/Redirect programs of <= 3 calls x encryption pairs",
 "C12": "4.0 M range sets (3.25 M valid) incl. every subset of 7 ladders of 6-15 ranges, every string over the induced partition",
 "C13": "7^6 CID maps and 10^5 ToUnicode maps per window x 10 windows x code spaces x chain configurations; 17^5 ToUnicode maps (multi-rune relations) on 3 windows; hand-built files; 63 chain code space assignments x complete child/parent maps (1.8 M chains); 1.6 M file round trips",
 "C14": "59 fonts x strings of length <= 3 over 9 characters x 4 versions, interleavings, fill-ups, retexts; 17 k dressed glyph sequences (per glyph Rise x Advance adjustment, Skip) on 20 font kinds",
 "C15": "operators x operand tuples, adjacency pairs, triples, 19 850 inline-image data strings, splits, 5 866 reals by digit structure; Builder BFS to depth 6/5, every accepted history again with Harvest before one and two of its calls, on a reset Builder, and completed with the library's closing operators",
 "C16": "8 BFS profiles over page-tree writer histories, incl. 31 k histories over document.MultiPage",
 "C17": "all 2^14 key subsets x 2 entry points, number subsets, 1 281 size cases incl. 262 145; 2 828 writer-context cases; 510 k reader programs on one FromFile; 163 k programs on one InMemory value",
 "C18": "29 scenarios; 2 threads unbounded, 3 threads preemption bound 2 (thorough: unbounded); race pass 300 x each scenario",
 "C19": "24 documents (incl. object-stream-heavy, AES, ciphertexts ending in CR/LF, hand-built indirect /DecodeParms, wrong /Length, hybrid-reference, two classic revisions) x 4 scenarios (each with a caching Decode and a retry pass) x every ReadAt index x 3 fault modes x 2 error kinds; write programs x every sink call x {fail from k, fail only k}",
 "C20": "every prefix of every document and 33 xref damages each; aligned documents: 40 small objects (16 streams with indirect /Length, one object of every type) behind a pad object of every length 0..1100 that ends in escaped names, cuts at the buffer boundaries and object ends",
}
def fmt(n):
    if n is None: return "-"
    if n >= 1e9: return f"{n/1e9:.1f} G"
    if n >= 1e6: return f"{n/1e6:.2f} M"
    if n >= 1e4: return f"{n/1e3:.0f} k"
    return str(n)
print("| id | level | executions | distinct non-trivial | outcome classes | states / transitions | what is enumerated (quick tier) |")
print("|---|---|---|---|---|---|---|")
for i in range(1, 21):
    c = f"C{i:02d}"
    try:
        e = json.load(open(f"{root}/evidence/{c}.json"))
    except Exception:
        print(f"| {c} | (no evidence file) | | | | | {WHAT[c]} |"); continue
    cv = e["coverage"]
    st = "-"
    if cv.get("states"):
        st = f"{fmt(cv['states'])} / {fmt(cv['transitions'])}"
    print(f"| {c} | {e['level'].replace('_',' ')} | {fmt(cv.get('evaluations'))} | {fmt(cv.get('distinct_nontrivial'))} | {cv.get('distinct_outcomes')} | {st} | {WHAT[c]} |")
