#!/usr/bin/env python3
"""tools/seedrecord.py <seed> <check> <round> <DETECTED|MISSED> [strengthening note]  -- records a check run in seeded/RESULTS.json"""
import json, sys, os
root = os.path.dirname(os.path.dirname(os.path.abspath(__file__)))
p = root + '/seeded/RESULTS.json'
r = json.load(open(p))
seed, check, rnd, result = sys.argv[1:5]
e = r.setdefault(seed, {"runs": [], "first_round": None, "status": None})
e["runs"] = [x for x in e["runs"] if not (x["check"] == check and x["round"] == int(rnd))]
e["runs"].append({"check": check, "tier": "quick", "round": int(rnd), "result": result})
if any(x["result"] == "DETECTED" and x["check"] == seed[:3] for x in e["runs"]):
    e["status"] = "detected"
elif any(x["result"] == "DETECTED" for x in e["runs"]):
    e["status"] = "detected by a related check only"
if len(sys.argv) > 5:
    e["strengthening"] = sys.argv[5]
json.dump(r, open(p, 'w'), indent=1)
