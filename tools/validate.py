#!/opt/veriftools/pyvenv/bin/python3
import json, jsonschema, sys, glob, os
root = os.path.dirname(os.path.dirname(os.path.abspath(__file__)))
jsonschema.validate(json.load(open(root + '/MANIFEST.json')), json.load(open('/root/.vp/MANIFEST.schema.json')))
print('manifest ok')
sch = json.load(open('/root/.vp/EVIDENCE.schema.json'))
for f in sorted(glob.glob(root + '/evidence/*.json')):
    try:
        jsonschema.validate(json.load(open(f)), sch); print(f, 'ok')
    except Exception as e:
        print(f, 'INVALID', str(e)[:300])
