#!/usr/bin/env python3
"""Writes MANIFEST.json from the table below (kept next to the code so that
the manifest never drifts from what run.sh can run)."""
import json, sys, os

BASELINE_OFF = ("cd /repo && go test -mod=mod -json -vet=off -count=1 -timeout 25m ./...")

CHECKS = {
 "C01": dict(
   level="exploration",
   technique="bounded exhaustive enumeration of object trees x option sets, executed on the real formatter/scanner, judged by normalising equality and an independent parser",
   text="Every object list of the stated alphabets (all names <=3 bytes over 12 critical bytes, all strings <=5 bytes over 9 critical bytes, all container trees up to 4 leaves/depth 3, all ordered pairs/triples of 40 token-class representatives) x up to 32 option sets is formatted and parsed back in array, top-level, dictionary and indirect-object context; complete within those bounds.",
   note="trusts ref/pdfsyn (independent parser written from ISO 32000-2 7.2-7.3) and the normalising equality of the statement; nothing is claimed outside the alphabets",
   ref="5/C01"),
}

CHECKS.update({
 "C02": dict(
   level="model_checking",
   technique="exhaustive enumeration of write programs (operation sequences x deviation-bounded value/filter/chunk choices x configuration matrix) executed on the real Writer and Reader, compared with a map reference model",
   text="Every program of at most max_ops Writer operations over {Alloc, Put, WriteCompressed, OpenStream+Write*+Close, Put while a stream is open, Put(*Stream)} with at most dev_bound non-default value/filter/body choices is executed for every configuration of the plan (9 versions x human-readable x seekable x 4 password settings at depth 1-2; representative configurations deeper), reopened with the Reader (with user and owner password) and compared object by object with the model; every argument is snapshotted and compared after Close. States = accepted programs, transitions = executions, all of them run on the implementation.",
   note="alphabets of src/checks/wprog (10 values, 8 bodies, 7 filter chains); the model is a Go map; AES-256 configurations are explored to depth 2 only (8 ms per file)",
   ref="5/C02"),
 "C03": dict(
   level="model_checking",
   technique="same exhaustive program exploration as C02; oracle = independent strict file parser, independent security handler and independent codecs",
   text="The program space of C02; every produced file is judged by ref/pdffile (written from ISO 32000-2 7.5, no go-pdf code): header, %%EOF, startxref, 20-byte table entries / xref-stream W, Index, Size, every in-use offset exactly at 'N G obj', one entry per object below Size, Length up to the EOL before endstream, object-stream N/First/offset table, no object outside the xref; extracted values (decrypted with ref/stdsec, decoded with zlib/ascii85/lzw from outside go-pdf) equal the model.",
   note="trusts ref/pdffile, ref/stdsec, ref/pdfsyn, compress/zlib, encoding/ascii85, compress/lzw, x/image/tiff/lzw; not judged because not in the statement: free-list threading, generation of object 0, the xref stream's own entry",
   ref="5/C03"),
 "C08": dict(
   level="exploration",
   technique="deviation-bounded exhaustive mutation (every single mutation at every position of every seed encoding, every single/pair parameter-dictionary corruption, every filter chain up to length 2) executed in single-threaded worker processes with panic/hang/allocation/goroutine oracles",
   text="Every one-mutation neighbour of ~40 seed encodings per filter family (byte edits, truncations, insertions, header-claim edits, bombs), every type-confused parameter dictionary and every chain of length <=2 (plus 3, 8, 9 repeats) is decoded to the end in worker processes: result must be data or a malformed-input error, no panic, no hang (20 s watchdog, reproduced 5x), allocation within the budget functions of internal/limits, output within the geometry caps, goroutines back to baseline after Close.",
   note="one mutation away from the seeds only; allocation measured as TotalAlloc growth against the documented budget functions with slack; time only as a hang watchdog; the error returned by Close is not judged",
   ref="5/C08"),
 "C09": dict(
   level="exploration",
   technique="exhaustive enumeration of (user password, owner password, try password) triples over a boundary alphabet x versions x permission sets, judged by an independent password-preparation and permission model",
   text="All pairs of a 14-element password alphabet (empty, ASCII at the 32/33 and 127/128 byte edges, Latin-1, PDFDoc-only, non-encodable, SASLprep-mapped and prohibited) x 9 versions x metadata modes, and all 128 permission sets x versions x password pairs; each file is opened with every element of the alphabet; expected accept/reject and reported permissions come from ref/stdsec.Prepare and an independently written permission closure.",
   note="trusts ref/stdsec password preparation (PDFDocEncoding, SASLprep per RFC 4013 with x/text NFKC) and the fixed object graph; try-passwords the revision cannot prepare are only required to fail",
   ref="5/C09"),
})

CHECKS.update({
 "C18": dict(
   level="model_checking",
   engine="vcheck-sched",
   technique="stateless model checking of the real code under a cooperative scheduler: every interleaving of 2-3 goroutines at the synchronisation points (Mutex, Pool, channel, yields inside decode callbacks) up to a preemption bound or unbounded, iterated 0,1,2,...; plus a separate free-running -race pass of the same bodies",
   text="The files holding the cache protocol and the package-level pools/caches are recompiled from the current tree with sync and the channel operations routed through a scheduler shim; 25 scenarios (same reference, reference chains entered at every point, two types, exclusive decodes with succeeding/failing/nil results, exclusive+plain, mutually referential objects, pairs, pooled zlib readers and writers, predefined CMap and CID mapping caches) are run for every schedule within the bound (unbounded for 2 threads, bound 2 for 3 threads in quick; unbounded in thorough); oracles: identical Go value per (reference,type) for concurrent and later sequential callers, exclusive function runs never overlap and never rerun after success, no deadlock/livelock/panic, decoded bytes correct under a LIFO pool.",
   note="scheduling points are exactly the sync/channel operations of resource.go, cursor.go, filter.go, font/cmap/predefined.go, font/mapping/mapping.go (unknown constructs stop the build); plain memory accesses are only seen by the free-running race pass (a sample); no weak-memory effects",
   ref="5/C18, 3.3"),
})

NOT_YET = {}

def main():
    props = [json.loads(l) for l in open(os.path.join(os.path.dirname(__file__), "..", "properties.jsonl"))]
    checks = []
    na = []
    for p in props:
        pid = p["id"]
        c = CHECKS.get(pid)
        if c is None:
            na.append({"property_id": pid, "reason": NOT_YET.get(pid, "check not built yet in this session (planned, see DESIGN.md section 5)")})
            continue
        checks.append({
            "property_id": pid,
            "quick_cmd": f"./run.sh {pid} quick",
            "thorough_cmd": f"./run.sh {pid} thorough",
            "evidence_file": f"/verif/evidence/{pid}.json",
            "replay_cmd_template": f"./run.sh {pid} --replay {{path}}",
            "engine": c.get("engine", "vcheck"),
            "level_claimed": {"category": c["level"], "text": c["text"], "design_ref": c["ref"]},
            "level_note": c["note"],
            "technique": c["technique"],
        })
    m = {
        "version": 1,
        "setup_cmd": "./run.sh setup",
        "hooks": {
            "guard": "verif",
            "enable": "cd /repo && go build -tags verif -overlay /verif/.build/overlay-vcheck.json ./zzverif/cmd/vcheck  (overlay generated by /verif/tools/mkoverlay from /repo's working tree; adds files only, nothing is committed to /repo)",
            "baseline_off_cmd": BASELINE_OFF,
            "source_commits": [],
            "add_only": True,
        },
        "engines": [
            {"name": "vcheck", "path": "/verif/src", "serves_properties": sorted(CHECKS),
             "kind_free_text": "hand-written bounded exhaustive explorer (choice-tree DFS with deviation bounds, explicit-state BFS, cooperative scheduler) run against the real code compiled from /repo through go build -overlay"},
        ],
        "checks": checks,
        "not_applicable": na,
        "notes": "All checks are ./run.sh <id> <tier>; run.sh regenerates the overlay and rebuilds from /repo's working tree on every invocation.",
    }
    json.dump(m, open(os.path.join(os.path.dirname(__file__), "..", "MANIFEST.json"), "w"), indent=1)
    print("wrote MANIFEST.json with", len(checks), "checks,", len(na), "not applicable")

main()
