#!/usr/bin/env python3
"""Writes MANIFEST.json from the table below (kept next to the code so that
the manifest never drifts from what run.sh can run)."""
import json, sys, os

BASELINE_OFF = ("cd /repo && go test -mod=mod -json -vet=off -count=1 -timeout 25m ./...")

CHECKS = {
 "C01": dict(
   level="exploration",
   technique="bounded exhaustive enumeration of object trees x option sets, executed on the real formatter/scanner, judged by normalising equality and an independent parser",
   text="Every object list of the stated alphabets (all names <=3 bytes over 12 critical bytes, all strings <=5 bytes over 9 critical bytes, all container trees up to 4 leaves/depth 3, all ordered pairs/triples of 40 token-class representatives) x up to 32 option sets is formatted and parsed back in array, top-level, dictionary and indirect-object context; complete within those bounds.",
   note="trusts ref/pdfsyn (independent parser written from ISO 32000-2 7.2-7.3) and the normalising equality of the statement; nothing is claimed outside the alphabets",
   ref="5/C01"),
}

CHECKS.update({
 "C02": dict(
   level="model_checking",
   technique="exhaustive enumeration of write programs (operation sequences x deviation-bounded value/filter/chunk choices x configuration matrix) executed on the real Writer and Reader, compared with a map reference model",
   text="Every program of at most max_ops Writer operations over {Alloc, Put, WriteCompressed, OpenStream+Write*+Close, Put while a stream is open, Put(*Stream)} with at most dev_bound non-default value/filter/body choices is executed for every configuration of the plan (9 versions x human-readable x seekable x 4 password settings at depth 1-2; representative configurations deeper), reopened with the Reader (with user and owner password) and compared object by object with the model; every argument is snapshotted and compared after Close. States = accepted programs, transitions = executions, all of them run on the implementation.",
   note="alphabets of src/checks/wprog (10 values, 8 bodies, 7 filter chains); the model is a Go map; AES-256 configurations are explored to depth 2 only (8 ms per file)",
   ref="5/C02"),
 "C03": dict(
   level="model_checking",
   technique="same exhaustive program exploration as C02; oracle = independent strict file parser, independent security handler and independent codecs",
   text="The program space of C02; every produced file is judged by ref/pdffile (written from ISO 32000-2 7.5, no go-pdf code): header, %%EOF, startxref, 20-byte table entries / xref-stream W, Index, Size, every in-use offset exactly at 'N G obj', one entry per object below Size, Length up to the EOL before endstream, object-stream N/First/offset table, no object outside the xref; extracted values (decrypted with ref/stdsec, decoded with zlib/ascii85/lzw from outside go-pdf) equal the model.",
   note="trusts ref/pdffile, ref/stdsec, ref/pdfsyn, compress/zlib, encoding/ascii85, compress/lzw, x/image/tiff/lzw; not judged because not in the statement: free-list threading, generation of object 0, the xref stream's own entry",
   ref="5/C03"),
 "C08": dict(
   level="exploration",
   technique="deviation-bounded exhaustive mutation (every single mutation at every position of every seed encoding, every single/pair parameter-dictionary corruption, every filter chain up to length 2) executed in single-threaded worker processes with panic/hang/allocation/goroutine oracles",
   text="Every one-mutation neighbour of ~40 seed encodings per filter family (byte edits, truncations, insertions, header-claim edits, bombs), every type-confused parameter dictionary and every chain of length <=2 (plus 3, 8, 9 repeats) is decoded to the end in worker processes: result must be data or a malformed-input error, no panic, no hang (20 s watchdog, reproduced 5x), allocation within the budget functions of internal/limits, output within the geometry caps, goroutines back to baseline after Close.",
   note="one mutation away from the seeds only; allocation measured as TotalAlloc growth against the documented budget functions with slack; time only as a hang watchdog; the error returned by Close is not judged",
   ref="5/C08"),
 "C09": dict(
   level="exploration",
   technique="exhaustive enumeration of (user password, owner password, try password) triples over a boundary alphabet x versions x permission sets, judged by an independent password-preparation and permission model",
   text="All pairs of a 14-element password alphabet (empty, ASCII at the 32/33 and 127/128 byte edges, Latin-1, PDFDoc-only, non-encodable, SASLprep-mapped and prohibited) x 9 versions x metadata modes, and all 128 permission sets x versions x password pairs; each file is opened with every element of the alphabet; expected accept/reject and reported permissions come from ref/stdsec.Prepare and an independently written permission closure.",
   note="trusts ref/stdsec password preparation (PDFDocEncoding, SASLprep per RFC 4013 with x/text NFKC) and the fixed object graph; try-passwords the revision cannot prepare are only required to fail",
   ref="5/C09"),
})

CHECKS.update({
 "C18": dict(
   level="model_checking",
   engine="vcheck-sched",
   technique="stateless model checking of the real code under a cooperative scheduler: every interleaving of 2-3 goroutines at the synchronisation points (Mutex, Pool, channel, yields inside decode callbacks) up to a preemption bound or unbounded, iterated 0,1,2,...; plus a separate free-running -race pass of the same bodies",
   text="The files holding the cache protocol and the package-level pools/caches are recompiled from the current tree with sync and the channel operations routed through a scheduler shim; 25 scenarios (same reference, reference chains entered at every point, two types, exclusive decodes with succeeding/failing/nil results, exclusive+plain, mutually referential objects, pairs, pooled zlib readers and writers, predefined CMap and CID mapping caches) are run for every schedule within the bound (unbounded for 2 threads, bound 2 for 3 threads in quick; unbounded in thorough); oracles: identical Go value per (reference,type) for concurrent and later sequential callers, exclusive function runs never overlap and never rerun after success, no deadlock/livelock/panic, decoded bytes correct under a LIFO pool.",
   note="scheduling points are exactly the sync/channel operations of resource.go, cursor.go, filter.go, font/cmap/predefined.go, font/mapping/mapping.go (unknown constructs stop the build); plain memory accesses are only seen by the free-running race pass (a sample); no weak-memory effects",
   ref="5/C18, 3.3"),
})

CHECKS.update({
 "C06": dict(level="exploration",
   technique="exhaustive enumeration of filter parameter sets x boundary inputs x write/read chunkings x filter chains on the real encoders/decoders, judged by identity and by rebuilding the filter from its emitted name and parameter dictionary",
   text="Flate/LZW/Compress over the full predictor x Colors x BitsPerComponent x Columns x EarlyChange x version grid (validation decides membership) with all short rows over a 5-byte alphabet and boundary patterns, LZW at every code-width boundary, ASCII85/ASCIIHex/RunLength over all short strings and boundary lengths, CCITTFax over K x EndOfLine x EncodedByteAlign x BlackIs1 x EndOfBlock x Rows x Columns with all small bitmaps and long-run patterns, all filter chains up to length 3 through Writer.OpenStream, every split into <=3 writes and small read buffers; Info followed by MakeFilter must reproduce the parameters.",
   note="bounded alphabets as listed in notes/C06.md; parameter sets the validation rejects are pruned", ref="5/C06"),
 "C07": dict(level="exploration",
   technique="same exhaustive input/parameter enumeration as C06, differential against independent codecs in both directions",
   text="Library encoder -> independent decoder and independent encoder -> library decoder for Flate (compress/zlib), LZW both EarlyChange values (ref/codecs, cross-checked against compress/lzw and x/image/tiff/lzw), ASCII85 (encoding/ascii85), ASCIIHex, RunLength and PNG/TIFF predictors (ref/codecs, cross-checked against image/png and x/image/tiff), CCITTFax Group 3 1-D and Group 4 (x/image/ccitt as decoder only).",
   note="trusts the stdlib / x/image codecs and ref/codecs (self-tested at start-up); no independent CCITT encoder exists offline", ref="5/C07"),
 "C10": dict(level="exploration",
   technique="exhaustive enumeration of password pairs x versions x metadata modes x IDs x permission sets x object graphs x (number, generation) pairs; judged by an independent standard security handler in both directions plus leakage/IV invariants",
   text="Every produced file is authenticated with user and owner password by ref/stdsec, its /O /U /OE /UE /Perms /P /R /V /Length /CF entries are validated, every string and stream found by ref/pdffile is decrypted and compared with what was written; files created by ref/stdsec (R2-R6) must open in the Reader; 24-byte plaintext markers must not occur in the raw file outside the documented exemptions; equal plaintexts give different ciphertexts; all AES IVs in a file are pairwise distinct and non-zero.",
   note="trusts ref/stdsec (ISO 32000-2 7.6, self-tested) and ref/pdffile; both the letter and the de-facto reading of Algorithm 3(c) for R3 keys <128 bit are accepted; object number 2^24-1 only in the reference->Reader direction", ref="5/C10"),
 "C11": dict(level="model_checking",
   technique="explicit-state breadth-first search over Copier call sequences per source graph and configuration, every history executed from scratch on the real Writer/Reader/Copier, judged by a graph-isomorphism oracle",
   text="All source graphs on <=3 indirect objects of the value kinds of the design (scalars, empty and small containers, plain/Flate streams with indirect Length/Filter/DecodeParms, reference chains, cycles, dangling and free references) x all programs of <=3 calls from {Copy, CopyReference, Redirect} x source/target encryption and version pairs (covered by factors, see notes/C11.md); oracle: bisimulation of the reachable sub-graphs, translation is a function and injective, each object copied once, Redirect honoured, termination.",
   note="state key = the copier's translation table plus requested redirects; AES-256 pairs on 1-2 object graphs only; the oracle is self-tested against a reference copier and 19 planted flaws", ref="5/C11"),
 "C12": dict(level="exploration",
   technique="exhaustive enumeration of code space range sets over boundary alphabets x all byte strings over the induced partition, judged by an independent oracle written from ISO 32000-2 9.7.6",
   text="All sets of <=3 ranges from the 1- and 2-byte boundary lists, all sets of <=2 ranges mixing 1-4 bytes (thorough: 3-sets containing 3- and 4-byte ranges), validity decided by the oracle and compared with NewCodec; for each valid set every string of <=4 bytes over cell representatives and edges plus all proper prefixes: classification, consumed length, AppendCode/Decode inverses, CodeSpaceRange describes the same codes.",
   note="trusts ref/codespace (self-tested against a list-of-codes formulation); where the specification is silent (input shorter than the prescribed length) any consumed count in 1..available is accepted", ref="5/C12"),
 "C13": dict(level="exploration",
   technique="exhaustive enumeration of finite code->CID and code->text maps on boundary windows x code spaces x parent chains, executed on the real CMap construction, embedding and extraction, judged against the Go map",
   text="All 7^6 CID maps and all 10^5 ToUnicode maps per window (inside a last-byte run, across the xxFE|xxFF|yy00 boundary, 1-byte edges, mixed code lengths, double boundary) over 4 code spaces and parent chains of length 0-2; lookups, enumeration and Embed -> reopen -> Extract (one file per distinct structural form, versions x pretty/compressed, WMode) must agree with the map wherever entries do not overlap.",
   note="the Go map is the model; overlapping hand-built entries are compared only on codes covered by one entry (statement's own exclusion)", ref="5/C13"),
 "C14": dict(level="exploration",
   technique="exhaustive enumeration of short strings x fonts x versions x interleavings of Layout/Encode calls, executed through embedding, file round trip and font extraction",
   text="59 fonts (18 fonttypes kinds, 12 Go fonts simple and composite, 14 standard fonts, 3 composite encoder variants) x all strings of length <=3 over a 9-character repertoire x 4 versions, all interleavings of two Layout+Encode calls over 60 font pairs, fill-up to the 256-code limit in three orders, one glyph under several texts; after reopening, the extracted font must decode each PDF string into as many codes as glyphs shown, with the font's advance widths (1/1000 em) and the glyphs' text, agree with writer-side decoding, and never share a code between distinct (glyph,text) pairs.",
   note="fonts shipped in internal/fonttypes, gofont and standard only; widths compared with font geometry, not kerned advances", ref="5/C14"),
 "C15": dict(level="model_checking",
   technique="exhaustive enumeration of operator/operand sequences through the content writer and scanner, plus explicit-state BFS over Builder call sequences judged by an independent Figure-9 automaton",
   text="80 operator names x 4639 operand tuples, all 80^2 x 15^2 adjacency pairs, all 80^3 triples, ~20k inline-image data strings x dictionaries, every split into 1-3 streams at operator boundaries and 1-byte chunked reading; Builder: BFS over 37 calls to depth 6 (1.7) / 5 (2.0) with state key = library graphics-object state; every Builder output is re-scanned and must be accepted by ref automaton for ISO 32000 Figure 9 and be balanced for q/Q, BT/ET, BMC|BDC/EMC.",
   note="operand alphabets as in notes/C15.md; image data under an ASCII first filter compared modulo white space (8.9.7)", ref="5/C15"),
 "C17": dict(level="exploration",
   technique="exhaustive enumeration of key subsets and boundary sizes, executed on the real tree writer and both readers, judged against a sorted Go map and a structural validator",
   text="All 2^14 (quick) / 2^21 (thorough) subsets of the byte-string universe of length <=2 over {NUL,a,b,FF}, all subsets of 6 extreme integers, every size across the 64/4096/262144 boundaries with plain, shared-prefix and non-ASCII keys, through Write, WriteMap and InMemory.Embed; lookups for every key of the universe, ordered enumeration, Size, streaming vs in-memory agreement, empty map, and the raw node structure (sorted keys, Limits, root without Limits, fan-out <=64).",
   note="the sorted Go map is the model; the structure judge is self-tested on 15 one-defect variants", ref="5/C17"),
 "C20": dict(level="fault_enumeration",
   technique="exhaustive crash-point enumeration: every truncation offset and every single cross-reference damage of every document of a bounded program space, scanned by the real SequentialScan and judged against object spans from the independent reader",
   text="Documents = all write programs (no object streams) of the plan; for each, EVERY prefix 0..len and every xref damage (keyword, table lines, whole table, trailer, startxref keyword/number/value, %%EOF, xref-stream header/dictionary/body x space/'x'/NUL) is scanned: no failure when >=1 object is complete, every complete object listed at its true offset, not broken, read back equal; incomplete objects broken or absent.",
   note="object spans and values from ref/pdffile; stream data judged only when /Length is available in the remaining bytes; MakeReader results recorded but not judged (not in the statement); unencrypted documents", ref="5/C20"),
})

CHECKS.update({
 "C16": dict(level="model_checking",
   technique="explicit-state breadth-first search over page-tree writer operation histories (successor = replay on a fresh writer plus one operation), oracle on every history, state key = reference-model state plus abstracted heap dump of the real writer",
   text="Profiles ranges-callbacks, attributes, merge-shapes, mixed, deep and a fixed very-deep list: all histories over {AppendPageDict, AppendPage, macro appends of 15/16/17/255/256/257 pages, NewRange, Close of any open range, NextPageNumber, root Close} within each profile's bound (up to length 7), <=3 nested open ranges, attributes from small MediaBox/CropBox/Rotate/Resources sets; after closing and reopening: page order, NumPages/GetPage/iterator, /Count, /Parent, fan-out <=16, no page reachable twice, effective inherited attributes, every NextPageNumber callback fired once with the final position.",
   note="state key reads the writer's internals through a verif-tagged accessor (self-tested at start-up); trees up to 65537 pages only through macro appends; AppendPage with nil Resources may yield an empty resource dictionary", ref="5/C16"),
 "C19": dict(level="fault_enumeration",
   technique="exhaustive fault enumeration: every index k of a ReadAt call (x fail-from-k / fail-only-k / short-read-then-fail x two error kinds) of every document x scenario, and every index k of a sink Write/Seek call of every write program; each API result compared with the fault-free run; hang watchdog",
   text="12 (quick) / 16 (thorough) generated documents (classic table, xref stream + object streams, human-readable, Flate+PNG-Up / ASCII85 over Flate / LZW, RC4-128, AES-128, AES-256) x scenarios {NewReader in 3 error-handling modes + Get of every object + DecodeStream in several chunk sizes, SequentialScan + MakeReader + the same walk}; write side: all write programs of the plan with large incompressible bodies on seekable and write-only sinks. A call must return the fault-free value or an error that carries the injected error and is not IsMalformed; a failing sink must surface from some Writer call up to Close; no call may hang (20 s watchdog, confirmed twice).",
   note="in-memory source/sink wrappers own every I/O call; values compared through a canonical rendering; data delivered before a stream read error must be a prefix of the real data", ref="5/C19"),
})

CHECKS.update({
 "C04": dict(level="model_checking",
   technique="exhaustive enumeration of revision histories x section kinds x renderings of an independent serialiser, every file opened by the real Reader and compared with a reference model of incremental updates",
   text="All histories of 1 revision x 4 objects, 2 x 2, 2 x 4, 3 x 2 (thorough: 3 x 3) over {leave, define A, define B, free} with every vector of section kinds {table, xref stream, hybrid}; renderings: every single and (for small histories) every pair of knob values (bytes before the header 0/1/1019, 4 white-space/comment styles, 3 EOLs, hex strings, #-escaped names, split subsections and /Index, threaded free list, 6 /W arrays, object streams); Reader.Get for every object number at generations 0-2 and a never-mentioned number must give the newest definition or null; the newest trailer's entries are reported. /Length clause: 4 bodies x 11 length defects (absent, -1, +7, 2^40, negative, real, indirect to a correct/missing/dictionary/cyclic object) x renderings: data is delimited by the EOL before endstream and the next object is unaffected.",
   note="files come from ref/pdffile's serialiser and are cross-read by ref/pdffile's reader in every case (disagreement = exit 2); hybrid sections list hidden objects only in /XRefStm; excluded per the statement: wrong lengths that point exactly at an endstream keyword", ref="5/C04"),
 "C05": dict(level="exploration",
   technique="deviation-bounded exhaustive mutation: every single structure-aware mutation (thorough: all pairs on structural keys) of every seed file at every position, walked in worker processes under panic/hang/allocation/goroutine oracles",
   text="Seeds written by the real Writer (classic and xref-stream+object-stream files with a two-level page tree, text, Type 1 / CFF / TrueType fonts, outline, name tree, XMP; RC4 and AES-256 variants); mutation menu: every integer token -> 13 boundary values, every reference -> every other object / itself / missing, every name -> 24 structural names, token delete/duplicate/swap, every truncation offset, every byte of the xref/trailer region -> 5 values, stream body windows (raw and on the decoded bytes, re-encoded), object splices; each mutant is walked under the three error-handling modes and through SequentialScan+MakeReader: NewReader, Get of every entry, DecodeStream of every stream, page tree, pages, fonts and glyph data, content streams, outline: no panic, no hang (20 s, reproduced), allocation within budget, goroutines back to baseline.",
   note="one mutation (two on structural keys in thorough) away from the seeds; errors of any kind are acceptable; hangs are attributed per case by the worker-process machinery", ref="5/C05"),
})

NOT_YET = {}

def main():
    props = [json.loads(l) for l in open(os.path.join(os.path.dirname(__file__), "..", "properties.jsonl"))]
    checks = []
    na = []
    for p in props:
        pid = p["id"]
        c = CHECKS.get(pid)
        if c is None:
            na.append({"property_id": pid, "reason": NOT_YET.get(pid, "check not built yet in this session (planned, see DESIGN.md section 5)")})
            continue
        checks.append({
            "property_id": pid,
            "quick_cmd": f"./run.sh {pid} quick",
            "thorough_cmd": f"./run.sh {pid} thorough",
            "evidence_file": f"/verif/evidence/{pid}.json",
            "replay_cmd_template": f"./run.sh {pid} --replay {{path}}",
            "engine": c.get("engine", "vcheck"),
            "level_claimed": {"category": c["level"], "text": c["text"], "design_ref": c["ref"]},
            "level_note": c["note"],
            "technique": c["technique"],
        })
    m = {
        "version": 1,
        "setup_cmd": "./run.sh setup",
        "hooks": {
            "guard": "verif",
            "enable": "cd /repo && go build -tags verif -overlay /verif/.build/overlay-vcheck.json ./zzverif/cmd/vcheck  (overlay generated by /verif/tools/mkoverlay from /repo's working tree; adds files only, nothing is committed to /repo)",
            "baseline_off_cmd": BASELINE_OFF,
            "source_commits": [],
            "add_only": True,
        },
        "engines": [
            {"name": "vcheck", "path": "/verif/src", "serves_properties": sorted(CHECKS),
             "kind_free_text": "hand-written bounded exhaustive explorer (choice-tree DFS with deviation bounds, explicit-state BFS, cooperative scheduler) run against the real code compiled from /repo through go build -overlay"},
        ],
        "checks": checks,
        "not_applicable": na,
        "notes": "All checks are ./run.sh <id> <tier>; run.sh regenerates the overlay and rebuilds from /repo's working tree on every invocation.",
    }
    json.dump(m, open(os.path.join(os.path.dirname(__file__), "..", "MANIFEST.json"), "w"), indent=1)
    print("wrote MANIFEST.json with", len(checks), "checks,", len(na), "not applicable")

main()
